"""families.py - scenario families and per-property checks (engines S, L, F)."""
import itertools
import os
import random

import vlib

CHECKS = {}


def check(prop):
    def deco(f):
        CHECKS[prop] = f
        return f
    return deco


def rng_for(rep, salt):
    return random.Random("%s/%s/%d" % (rep.prop, salt, rep.seed))


# --------------------------------------------------------------------------------------------------
# line-by-line families (builder chains, selector streams, channel op sequences)
# --------------------------------------------------------------------------------------------------
def compare_lines(rep, mode, inputs, family, canon_m=None, canon_h=None, nontrivial=None,
                  describe=None):
    """run driver and harness on one input per line, compare output line by line.
    returns number of mismatches reported"""
    res = vlib.run_sharded(mode, inputs)
    mism = 0
    for part, (drc, dout, derr), (hrc, hout, herr) in res:
        dl, hl = dout.rstrip("\n").split("\n"), hout.rstrip("\n").split("\n")
        if drc != 0 or hrc != 0 or len(dl) != len(part) or len(hl) != len(part):
            rep.violation("family %s: driver rc=%s harness rc=%s, %d/%d/%d lines" %
                          (family, drc, hrc, len(part), len(dl), len(hl)),
                          "obligation: correspondence family %s could not run\n%s\n%s\n" %
                          (family, derr[-2000:], herr[-2000:]), no_input=True)
            return mism + 1
        for inp, m, h in zip(part, dl, hl):
            rep.coverage["evaluations"] += 1
            m2 = canon_m(m) if canon_m else m
            h2 = canon_h(h) if canon_h else h
            if nontrivial is None or nontrivial(inp, m2):
                rep.distinct.add((family, m2 if describe is None else describe(inp, m2)))
            if len(rep.coverage["samples"]) < 3 and rep.coverage["evaluations"] % 97 == 1:
                rep.coverage["samples"].append({"family": family, "input": inp, "model": m2, "impl": h2})
            if m2 != h2:
                mism += 1
                if mism <= 3:
                    rep.violation("family %s: implementation differs from the model on input `%s`" %
                                  (family, inp),
                                  "family: %s\nmode: %s\ninput: %s\nmodel: %s\nimpl:  %s\n" %
                                  (family, mode, inp, m2, h2))
    rep.coverage["disagreements_checked"] += mism
    return mism


# ---- C17 ------------------------------------------------------------------------------------------
BUILDER_ALPHABET = ["name.0", "name.1", "name.2", "cap.0", "cap.1", "cap.3", "pol.block", "pol.oldest",
                    "pol.latest", "wr.1", "wrs.2,3", "wrs.-", "ar.4", "wo", "wm.5", "wms.6,7", "am.8"]


@check("C17")
def check_c17(rep):
    maxlen = 4 if rep.tier == "thorough" else 3
    chains = [" ".join(c) for n in range(0, maxlen + 1)
              for c in itertools.product(BUILDER_ALPHABET, repeat=n)]
    # a few longer random chains
    rng = rng_for(rep, "builder")
    for _ in range(300 if rep.tier == "quick" else 3000):
        chains.append(" ".join(rng.choice(BUILDER_ALPHABET) for _ in range(rng.randint(5, 9))))
    rep.coverage["rule"] = (
        "every builder call chain of length <= %d over a %d-symbol alphabet (exhaustive) plus random "
        "chains of length 5..9; each chain is run on the real StoreBuilder (build, then one probe "
        "action through the built store: reducer order from the state log, middleware order from "
        "the hook log, name from the worker thread name, capacity/policy from the dispatch channel) "
        "and on the Coq model (record of last settings + build); distinct = distinct results"
        % (maxlen, len(BUILDER_ALPHABET)))
    rep.coverage["exhaustive"] = True
    rep.coverage["programs"] = len(chains)
    compare_lines(rep, "builder", chains, "builder_chains")
    # the known-finding witness of F1 (fixed): must pass
    rep.coverage["samples"].append({"family": "known/F1", "input": "wo cap.3",
                                    "expected": "OK name=1 cap=3 pol=block reducers=- mws=-"})


# ---- C16 ------------------------------------------------------------------------------------------
@check("C16")
def check_c16(rep):
    streams = []
    l2, l3 = (12, 9) if rep.tier == "thorough" else (10, 7)
    for n in range(0, l2 + 1):
        streams += [",".join(s) for s in itertools.product("12", repeat=n)]
    for n in range(1, l3 + 1):
        streams += [",".join(s) for s in itertools.product("123", repeat=n)]
    rng = rng_for(rep, "selector")
    for _ in range(200 if rep.tier == "quick" else 2000):
        k = rng.randint(2, 5)
        streams.append(",".join(str(rng.randint(1, k)) for _ in range(rng.randint(20, 200))))
    rep.coverage["rule"] = (
        "every stream of selected values over {1,2} up to length %d and over {1,2,3} up to length %d "
        "(exhaustive), plus random streams of length 20..200 over 2..5 values, fed to the real "
        "SelectorSubscriber::on_notify and to sel_stream; compared: delivered (value, action) pairs "
        "and last value; non-trivial = the stream contains a repeat and a change" % (l2, l3))
    rep.coverage["exhaustive"] = True
    rep.coverage["programs"] = len(streams)

    def nontrivial(inp, out):
        v = inp.split(",")
        return any(a == b for a, b in zip(v, v[1:])) and any(a != b for a, b in zip(v, v[1:]))
    compare_lines(rep, "selector", streams, "selector_streams", nontrivial=nontrivial)
    selector_through_store(rep)


def selector_through_store(rep):
    """selector subscriptions on a running store (engine S, single producer)"""
    rng = rng_for(rep, "selstore")
    scens = []
    for _ in range(40 if rep.tier == "quick" else 400):
        n = rng.randint(5, 30)
        k = rng.randint(2, 4)
        lines = ["cap %d" % rng.choice([1, 2, 16]), "pol block", "reducer 0 D", "init reducers 0",
                 "sub 1 selector 0", "sub 2 direct", "sub 3 selector 1"]
        for a in range(1, n + 1):
            lines.append("sel 0 %d %d" % (a, rng.randint(1, k)))
            lines.append("sel 1 %d %d" % (a, rng.randint(0, 1)))
            if rng.random() < 0.2:
                lines.append("r 0 %d K" % a)
        lines.append("t 0 " + " ".join("d.I.%d" % a for a in range(1, n + 1)))
        scens.append("\n".join(lines))
    compare_scenarios(rep, "seq", scens, "selector_store",
                      cone=("CHANGE", "NOTIFY", "FINAL"))


# --------------------------------------------------------------------------------------------------
# scenario families compared block by block (engine S)
# --------------------------------------------------------------------------------------------------
def canon_seq_model(block):
    """the model prints SPAWN lines in place; the harness sees effects run on workers"""
    lines, effects = [], []
    for ln in block:
        if ln.startswith("SPAWN "):
            effects.append("EFFECT " + ln.split()[1])
        elif ln.startswith("METRICS"):
            lines.append(" ".join(t for t in ln.split() if not t.startswith("executed=")))
        else:
            lines.append(ln)
    out = [ln for ln in lines if not ln.startswith(("FINAL", "METRICS"))]
    out += sorted(effects) + ["CONTEXT ok"] + [ln for ln in lines if ln.startswith(("FINAL", "METRICS"))]
    return out


def split_blocks(text):
    blocks, cur = [], []
    for ln in text.split("\n"):
        if ln.strip() == "---":
            blocks.append(cur)
            cur = []
        elif ln.strip():
            cur.append(ln)
    if cur:
        blocks.append(cur)
    return blocks


def in_cone(line, cone):
    return cone is None or line.split(" ", 1)[0] in cone


def compare_scenarios(rep, mode, scens, family, cone=None, canon_m=canon_seq_model, shrink=None):
    res = vlib.run_sharded(mode, scens, sep="\n---\n")
    mism = 0
    for part, (drc, dout, derr), (hrc, hout, herr) in res:
        db, hb = split_blocks(dout), split_blocks(hout)
        if drc != 0 or hrc != 0 or len(db) != len(part) or len(hb) != len(part):
            rep.violation("family %s: driver rc=%s harness rc=%s, %d/%d/%d blocks" %
                          (family, drc, hrc, len(part), len(db), len(hb)),
                          "obligation: correspondence family %s could not run\n%s\n%s\n" %
                          (family, derr[-2000:], herr[-2000:]), no_input=True)
            return mism + 1
        for sc, m, h in zip(part, db, hb):
            rep.coverage["evaluations"] += 1
            rep.coverage["traces_validated_against_impl"] += 1
            if any(ln.startswith("INCONCLUSIVE") for ln in h):
                continue
            m2 = [ln for ln in (canon_m(m) if canon_m else m) if in_cone(ln, cone)]
            h2 = [ln for ln in h if in_cone(ln, cone)]
            rep.distinct.add((family, hash(tuple(m2))))
            if len(rep.coverage["samples"]) < 5 and rep.coverage["evaluations"] % 53 == 1:
                rep.coverage["samples"].append({"family": family, "scenario": sc.split("\n")[:12],
                                                "log_head": m2[:8], "log_lines": len(m2)})
            if m2 != h2:
                mism += 1
                if mism <= 3:
                    first = next((i for i, (a, b) in enumerate(zip(m2, h2)) if a != b),
                                 min(len(m2), len(h2)))
                    small = shrink(sc, mode, cone) if shrink else sc
                    rep.violation(
                        "family %s: implementation differs from the model (first difference at "
                        "line %d: model `%s` impl `%s`)" %
                        (family, first, m2[first] if first < len(m2) else "<end>",
                         h2[first] if first < len(h2) else "<end>"),
                        "family: %s\nmode: %s\n--- scenario\n%s\n--- model\n%s\n--- impl\n%s\n" %
                        (family, mode, small, "\n".join(m2), "\n".join(h2)))
    rep.coverage["disagreements_checked"] += mism
    return mism


# ---- C12 ------------------------------------------------------------------------------------------
VERDICTS = "CDBE"


def verdict_scenario(k, assignments, rng, per_store=16):
    """one store with k middlewares; action a gets the verdict assignment assignments[a-1]
    (a string of 3k letters: for each middleware its r, e, d verdicts)"""
    lines = ["cap 16", "pol block", "reducer 0 D", "reducer 1 D", "init reducers 0,1",
             "init mws " + ",".join(str(i) for i in range(k)), "sub 1 direct", "sub 2 direct"]
    for i in range(k):
        lines.append("mw %d" % i)
    for a, asg in enumerate(assignments, 1):
        # effects: reducer 0 returns a task, reducer 1 a function (ids derived from the action)
        e0, e1 = 1000 + a, 2000 + a
        pat = rng.randint(0, 5)
        if pat != 0:
            lines.append("r 0 %d %s e %d task nop" % (a, rng.choice("DK"), e0))
        if pat >= 2:
            lines.append("r 1 %d %s e %d func nop" % (a, "K" if pat == 5 else "D", e1))
        elif pat == 1 and rng.random() < 0.3:
            lines.append("r 1 %d K" % a)
        for i in range(k):
            r, e, d = asg[3 * i:3 * i + 3]
            if r != "C":
                lines.append("v %d r %d %s" % (i, a, r))
            rm = rng.choice(["", "", " rm %d" % e0, " rm %d" % e1, " rm %d,%d" % (e0, e1)])
            if e != "C" or rm:
                lines.append("v %d e %d %s%s" % (i, a, e, rm))
            if d != "C":
                lines.append("v %d d %d %s" % (i, a, d))
    lines.append("t 0 " + " ".join("d.%s.%d" % (rng.choice("ITD"), a)
                                   for a in range(1, len(assignments) + 1)))
    return "\n".join(lines)


@check("C12")
def check_c12(rep):
    rng = rng_for(rep, "verdicts")
    scens = []
    n_assign = 0
    for k in (1, 2):
        allasg = ["".join(p) for p in itertools.product(VERDICTS, repeat=3 * k)]
        rng.shuffle(allasg)
        for i in range(0, len(allasg), 16):
            scens.append(verdict_scenario(k, allasg[i:i + 16], rng))
        n_assign += len(allasg)
    # three middlewares: exhaustive in the thorough tier, a sample otherwise
    if rep.tier == "thorough":
        allasg = ["".join(p) for p in itertools.product(VERDICTS, repeat=9)]
        rng.shuffle(allasg)
    else:
        allasg = ["".join(rng.choice(VERDICTS) for _ in range(9)) for _ in range(4096)]
    for i in range(0, len(allasg), 32):
        scens.append(verdict_scenario(3, allasg[i:i + 32], rng))
    n_assign += len(allasg)
    rep.coverage["rule"] = (
        "every assignment of {Continue,Done,Break,Err} to the 3 hooks of 1 and of 2 middlewares "
        "(4^3 + 4^6, exhaustive), %s assignments for 3 middlewares, one action per assignment, "
        "batches of 16/32 actions per store, with random Dispatch/Keep answers, 0..2 effects per "
        "action and random effect removals in before_effect; each store is run through the real "
        "crate (single producer, all three dispatch entry points) and through process_action; "
        "compared: the complete ordered callback log (hook arguments, verdicts, on_error, reducer "
        "calls with input/output state, notifications), the effects run, the final state; distinct "
        "= distinct model logs" % ("all 4^9" if rep.tier == "thorough" else "4096 random"))
    rep.coverage["exhaustive"] = rep.tier == "thorough"
    rep.coverage["programs"] = len(scens)
    rep.coverage["verdict_assignments"] = n_assign
    compare_scenarios(rep, "seq", scens, "verdict_matrix",
                      cone=("BR", "RED", "BE", "BD", "ERR", "NOTIFY", "EFFECT", "FINAL", "ANOMALY"),
                      shrink=shrink_actions)


def shrink_actions(sc, mode, cone):
    """try to reduce a single-producer scenario to one action that still diverges"""
    lines = sc.split("\n")
    tline = next(ln for ln in lines if ln.startswith("t 0 "))
    ops = tline.split()[2:]
    for n in range(1, len(ops) + 1):
        # prefixes first (state depends on earlier actions), then single actions
        for cand in ([ops[:n]] if n < len(ops) else []) :
            sc2 = "\n".join(ln for ln in lines if not ln.startswith("t 0 ")) + "\nt 0 " + " ".join(cand)
            d = vlib.run_tool([vlib.DRIVER, mode], sc2 + "\n---\n")
            h = vlib.run_tool([vlib.HARNESS, mode], sc2 + "\n---\n")
            m2 = [ln for ln in canon_seq_model(split_blocks(d[1])[0]) if in_cone(ln, cone)]
            h2 = [ln for ln in split_blocks(h[1])[0] if in_cone(ln, cone)]
            if m2 != h2:
                return sc2
    return sc


def replay(prop, path, rep):
    """re-run a replay file written by a violation report"""
    text = open(path).read()
    if "--- scenario" in text:
        sc = text.split("--- scenario\n", 1)[1].split("\n--- model", 1)[0]
        mode = next(ln.split(": ", 1)[1] for ln in text.split("\n") if ln.startswith("mode: "))
        compare_scenarios(rep, mode, [sc], "replay")
    elif "\ninput: " in text:
        inp = next(ln.split(": ", 1)[1] for ln in text.split("\n") if ln.startswith("input: "))
        mode = next(ln.split(": ", 1)[1] for ln in text.split("\n") if ln.startswith("mode: "))
        compare_lines(rep, mode, [inp], "replay")
    else:
        print("replay file names an obligation, not an input:\n" + text)
