"""families.py - scenario families and per-property checks (engines S, L, F)."""
import itertools
import os
import random

import vlib

CHECKS = {}


def check(prop):
    def deco(f):
        CHECKS[prop] = f
        return f
    return deco


def rng_for(rep, salt):
    return random.Random("%s/%s/%d" % (rep.prop, salt, rep.seed))


# --------------------------------------------------------------------------------------------------
# line-by-line families (builder chains, selector streams, channel op sequences)
# --------------------------------------------------------------------------------------------------
def compare_lines(rep, mode, inputs, family, canon_m=None, canon_h=None, nontrivial=None,
                  describe=None):
    """run driver and harness on one input per line, compare output line by line.
    returns number of mismatches reported"""
    res = vlib.run_sharded(mode, inputs)
    mism = 0
    for part, (drc, dout, derr), (hrc, hout, herr) in res:
        dl, hl = dout.rstrip("\n").split("\n"), hout.rstrip("\n").split("\n")
        if drc != 0 or hrc != 0 or len(dl) != len(part) or len(hl) != len(part):
            rep.violation("family %s: driver rc=%s harness rc=%s, %d/%d/%d lines" %
                          (family, drc, hrc, len(part), len(dl), len(hl)),
                          "obligation: correspondence family %s could not run\n%s\n%s\n" %
                          (family, derr[-2000:], herr[-2000:]), no_input=True)
            return mism + 1
        for inp, m, h in zip(part, dl, hl):
            rep.coverage["evaluations"] += 1
            m2 = canon_m(m) if canon_m else m
            h2 = canon_h(h) if canon_h else h
            if nontrivial is None or nontrivial(inp, m2):
                rep.distinct.add((family, m2 if describe is None else describe(inp, m2)))
            if len(rep.coverage["samples"]) < 3 and rep.coverage["evaluations"] % 97 == 1:
                rep.coverage["samples"].append({"family": family, "input": inp, "model": m2, "impl": h2})
            if m2 != h2:
                mism += 1
                if mism <= 3:
                    rep.violation("family %s: implementation differs from the model on input `%s`" %
                                  (family, inp),
                                  "family: %s\nmode: %s\ninput: %s\nmodel: %s\nimpl:  %s\n" %
                                  (family, mode, inp, m2, h2))
    rep.coverage["disagreements_checked"] += mism
    return mism


# ---- C17 ------------------------------------------------------------------------------------------
BUILDER_ALPHABET = ["name.0", "name.1", "name.2", "cap.0", "cap.1", "cap.3", "pol.block", "pol.oldest",
                    "pol.latest", "wr.1", "wrs.2,3", "wrs.-", "ar.4", "wo", "wm.5", "wms.6,7", "am.8"]


@check("C17")
def check_c17(rep):
    maxlen = 4 if rep.tier == "thorough" else 3
    chains = [" ".join(c) for n in range(0, maxlen + 1)
              for c in itertools.product(BUILDER_ALPHABET, repeat=n)]
    # a few longer random chains
    rng = rng_for(rep, "builder")
    for _ in range(300 if rep.tier == "quick" else 3000):
        chains.append(" ".join(rng.choice(BUILDER_ALPHABET) for _ in range(rng.randint(5, 9))))
    rep.coverage["rule"] = (
        "every builder call chain of length <= %d over a %d-symbol alphabet (exhaustive) plus random "
        "chains of length 5..9; each chain is run on the real StoreBuilder (build, then one probe "
        "action through the built store: reducer order from the state log, middleware order from "
        "the hook log, name from the worker thread name, capacity/policy from the dispatch channel) "
        "and on the Coq model (record of last settings + build); distinct = distinct results"
        % (maxlen, len(BUILDER_ALPHABET)))
    rep.coverage["exhaustive"] = True
    rep.coverage["programs"] = len(chains)
    compare_lines(rep, "builder", chains, "builder_chains")
    # the known-finding witness of F1 (fixed): must pass
    rep.coverage["samples"].append({"family": "known/F1", "input": "wo cap.3",
                                    "expected": "OK name=1 cap=3 pol=block reducers=- mws=-"})


# ---- C16 ------------------------------------------------------------------------------------------
@check("C16")
def check_c16(rep):
    streams = []
    l2, l3 = (12, 9) if rep.tier == "thorough" else (10, 7)
    for n in range(0, l2 + 1):
        streams += [",".join(s) for s in itertools.product("12", repeat=n)]
    for n in range(1, l3 + 1):
        streams += [",".join(s) for s in itertools.product("123", repeat=n)]
    rng = rng_for(rep, "selector")
    for _ in range(200 if rep.tier == "quick" else 2000):
        k = rng.randint(2, 5)
        streams.append(",".join(str(rng.randint(1, k)) for _ in range(rng.randint(20, 200))))
    rep.coverage["rule"] = (
        "every stream of selected values over {1,2} up to length %d and over {1,2,3} up to length %d "
        "(exhaustive), plus random streams of length 20..200 over 2..5 values, fed to the real "
        "SelectorSubscriber::on_notify and to sel_stream; compared: delivered (value, action) pairs "
        "and last value; non-trivial = the stream contains a repeat and a change" % (l2, l3))
    rep.coverage["exhaustive"] = True
    rep.coverage["programs"] = len(streams)

    def nontrivial(inp, out):
        v = inp.split(",")
        return any(a == b for a, b in zip(v, v[1:])) and any(a != b for a, b in zip(v, v[1:]))
    compare_lines(rep, "selector", streams, "selector_streams", nontrivial=nontrivial)
    selector_through_store(rep)
    rule = rep.coverage["rule"]
    lock_property(rep)
    # one SelectorSubscriber object shared by two stores (two reducer threads call it): engine F
    import monitors
    rng2 = rng_for(rep, "sharedsel")
    g = Gen(rng2, policies=["block"], caps=[2, 16], directs=(0, 1), reducers=(1, 1), keep=0.0,
            ops={"d": 12, "gs": 1}, max_ops=6, mws=(0, 0), max_threads=2)
    pairs = []
    for _ in range(1200 if rep.tier == "thorough" else 80):
        a, b = g.scenario(), g.scenario()
        a += "\nsharedsel 95 %d %d" % (rng2.choice([1, 2, 3]), rng2.choice([200, 1000, 3000]))
        pairs.append((a, b))
    run_free2(rep, pairs, "shared_selector", monitors.mon_c16)
    rep.coverage["rule"] = rule + " || " + rep.coverage["rule"] + (
        " || engine F: %d pairs of stores sharing one SelectorSubscriber object (slow callback), "
        "deliveries judged by the dedup clause" % len(pairs))


def selector_through_store(rep):
    """selector subscriptions on a running store (engine S, single producer)"""
    rng = rng_for(rep, "selstore")
    scens = []
    for _ in range(40 if rep.tier == "quick" else 400):
        n = rng.randint(5, 30)
        k = rng.randint(2, 4)
        lines = ["cap %d" % rng.choice([1, 2, 16]), "pol block", "reducer 0 D", "init reducers 0",
                 "sub 1 selector 0", "sub 2 direct", "sub 3 selector 1"]
        for a in range(1, n + 1):
            lines.append("sel 0 %d %d" % (a, rng.randint(1, k)))
            lines.append("sel 1 %d %d" % (a, rng.randint(0, 1)))
            if rng.random() < 0.2:
                lines.append("r 0 %d K" % a)
        lines.append("t 0 " + " ".join("d.I.%d" % a for a in range(1, n + 1)))
        scens.append("\n".join(lines))
    compare_scenarios(rep, "seq", scens, "selector_store",
                      cone=("CHANGE", "NOTIFY", "FINAL"))


# --------------------------------------------------------------------------------------------------
# scenario families compared block by block (engine S)
# --------------------------------------------------------------------------------------------------
def canon_seq_model(block):
    """the model prints SPAWN lines in place; the harness sees effects run on workers"""
    lines, effects = [], []
    for ln in block:
        if ln.startswith("SPAWN "):
            effects.append("EFFECT " + ln.split()[1])
        elif ln.startswith("METRICS"):
            lines.append(" ".join(t for t in ln.split() if not t.startswith("executed=")))
        else:
            lines.append(ln)
    out = [ln for ln in lines if not ln.startswith(("FINAL", "METRICS"))]
    out += sorted(effects) + ["CONTEXT ok"] + [ln for ln in lines if ln.startswith(("FINAL", "METRICS"))]
    return out


def split_blocks(text):
    blocks, cur = [], []
    for ln in text.split("\n"):
        if ln.strip() == "---":
            blocks.append(cur)
            cur = []
        elif ln.strip():
            cur.append(ln)
    if cur:
        blocks.append(cur)
    return blocks


def in_cone(line, cone):
    return cone is None or line.split(" ", 1)[0] in cone


def compare_scenarios(rep, mode, scens, family, cone=None, canon_m=canon_seq_model, shrink=None):
    res = vlib.run_sharded(mode, scens, sep="\n---\n")
    mism = 0
    for part, (drc, dout, derr), (hrc, hout, herr) in res:
        db, hb = split_blocks(dout), split_blocks(hout)
        if drc != 0 or hrc != 0 or len(db) != len(part) or len(hb) != len(part):
            rep.violation("family %s: driver rc=%s harness rc=%s, %d/%d/%d blocks" %
                          (family, drc, hrc, len(part), len(db), len(hb)),
                          "obligation: correspondence family %s could not run\n%s\n%s\n" %
                          (family, derr[-2000:], herr[-2000:]), no_input=True)
            return mism + 1
        for sc, m, h in zip(part, db, hb):
            rep.coverage["evaluations"] += 1
            rep.coverage["traces_validated_against_impl"] += 1
            if any(ln.startswith("INCONCLUSIVE") for ln in h):
                continue
            m2 = [ln for ln in (canon_m(m) if canon_m else m) if in_cone(ln, cone)]
            h2 = [ln for ln in h if in_cone(ln, cone)]
            rep.distinct.add((family, hash(tuple(m2))))
            if len(rep.coverage["samples"]) < 5 and rep.coverage["evaluations"] % 53 == 1:
                rep.coverage["samples"].append({"family": family, "scenario": sc.split("\n")[:12],
                                                "log_head": m2[:8], "log_lines": len(m2)})
            if m2 != h2:
                mism += 1
                if mism <= 3:
                    first = next((i for i, (a, b) in enumerate(zip(m2, h2)) if a != b),
                                 min(len(m2), len(h2)))
                    small = shrink(sc, mode, cone) if shrink else sc
                    rep.violation(
                        "family %s: implementation differs from the model (first difference at "
                        "line %d: model `%s` impl `%s`)" %
                        (family, first, m2[first] if first < len(m2) else "<end>",
                         h2[first] if first < len(h2) else "<end>"),
                        "family: %s\nmode: %s\n--- scenario\n%s\n--- model\n%s\n--- impl\n%s\n" %
                        (family, mode, small, "\n".join(m2), "\n".join(h2)))
    rep.coverage["disagreements_checked"] += mism
    return mism


# ---- C12 ------------------------------------------------------------------------------------------
VERDICTS = "CDBE"


def verdict_scenario(k, assignments, rng, per_store=16):
    """one store with k middlewares; action a gets the verdict assignment assignments[a-1]
    (a string of 3k letters: for each middleware its r, e, d verdicts)"""
    lines = ["cap 16", "pol block", "reducer 0 D", "reducer 1 D", "init reducers 0,1",
             "init mws " + ",".join(str(i) for i in range(k)), "sub 1 direct", "sub 2 direct"]
    for i in range(k):
        lines.append("mw %d" % i)
    for a, asg in enumerate(assignments, 1):
        # effects: reducer 0 returns a task, reducer 1 a function (ids derived from the action)
        e0, e1 = 1000 + a, 2000 + a
        pat = rng.randint(0, 5)
        if pat != 0:
            lines.append("r 0 %d %s e %d task nop" % (a, rng.choice("DK"), e0))
        if pat >= 2:
            lines.append("r 1 %d %s e %d func nop" % (a, "K" if pat == 5 else "D", e1))
        elif pat == 1 and rng.random() < 0.3:
            lines.append("r 1 %d K" % a)
        for i in range(k):
            r, e, d = asg[3 * i:3 * i + 3]
            if r != "C":
                lines.append("v %d r %d %s" % (i, a, r))
            rm = rng.choice(["", "", " rm %d" % e0, " rm %d" % e1, " rm %d,%d" % (e0, e1)])
            if e != "C" or rm:
                lines.append("v %d e %d %s%s" % (i, a, e, rm))
            if d != "C":
                lines.append("v %d d %d %s" % (i, a, d))
    lines.append("t 0 " + " ".join("d.%s.%d" % (rng.choice("ITD"), a)
                                   for a in range(1, len(assignments) + 1)))
    return "\n".join(lines)


@check("C12")
def check_c12(rep):
    rng = rng_for(rep, "verdicts")
    scens = []
    n_assign = 0
    for k in (1, 2):
        allasg = ["".join(p) for p in itertools.product(VERDICTS, repeat=3 * k)]
        rng.shuffle(allasg)
        for i in range(0, len(allasg), 16):
            scens.append(verdict_scenario(k, allasg[i:i + 16], rng))
        n_assign += len(allasg)
    # three middlewares: exhaustive in the thorough tier, a sample otherwise
    if rep.tier == "thorough":
        allasg = ["".join(p) for p in itertools.product(VERDICTS, repeat=9)]
        rng.shuffle(allasg)
    else:
        allasg = ["".join(rng.choice(VERDICTS) for _ in range(9)) for _ in range(4096)]
    for i in range(0, len(allasg), 32):
        scens.append(verdict_scenario(3, allasg[i:i + 32], rng))
    n_assign += len(allasg)
    rep.coverage["rule"] = (
        "every assignment of {Continue,Done,Break,Err} to the 3 hooks of 1 and of 2 middlewares "
        "(4^3 + 4^6, exhaustive), %s assignments for 3 middlewares, one action per assignment, "
        "batches of 16/32 actions per store, with random Dispatch/Keep answers, 0..2 effects per "
        "action and random effect removals in before_effect; each store is run through the real "
        "crate (single producer, all three dispatch entry points) and through process_action; "
        "compared: the complete ordered callback log (hook arguments, verdicts, on_error, reducer "
        "calls with input/output state, notifications), the effects run, the final state; distinct "
        "= distinct model logs" % ("all 4^9" if rep.tier == "thorough" else "4096 random"))
    rep.coverage["exhaustive"] = rep.tier == "thorough"
    rep.coverage["programs"] = len(scens)
    rep.coverage["verdict_assignments"] = n_assign
    compare_scenarios(rep, "seq", scens, "verdict_matrix",
                      cone=("BR", "RED", "BE", "BD", "ERR", "NOTIFY", "EFFECT", "FINAL", "ANOMALY"),
                      shrink=shrink_actions)


def shrink_actions(sc, mode, cone):
    """try to reduce a single-producer scenario to one action that still diverges"""
    lines = sc.split("\n")
    tline = next(ln for ln in lines if ln.startswith("t 0 "))
    ops = tline.split()[2:]
    for n in range(1, len(ops) + 1):
        # prefixes first (state depends on earlier actions), then single actions
        for cand in ([ops[:n]] if n < len(ops) else []) :
            sc2 = "\n".join(ln for ln in lines if not ln.startswith("t 0 ")) + "\nt 0 " + " ".join(cand)
            d = vlib.run_tool([vlib.DRIVER, mode], sc2 + "\n---\n")
            h = vlib.run_tool([vlib.HARNESS, mode], sc2 + "\n---\n")
            m2 = [ln for ln in canon_seq_model(split_blocks(d[1])[0]) if in_cone(ln, cone)]
            h2 = [ln for ln in split_blocks(h[1])[0] if in_cone(ln, cone)]
            if m2 != h2:
                return sc2
    return sc


def replay(prop, path, rep):
    """re-run a replay file written by a violation report"""
    text = open(path).read()
    if "--- scenario" in text:
        sc = text.split("--- scenario\n", 1)[1].split("\n--- model", 1)[0]
        mode = next(ln.split(": ", 1)[1] for ln in text.split("\n") if ln.startswith("mode: "))
        compare_scenarios(rep, mode, [sc], "replay")
    elif "\ninput: " in text:
        inp = next(ln.split(": ", 1)[1] for ln in text.split("\n") if ln.startswith("input: "))
        mode = next(ln.split(": ", 1)[1] for ln in text.split("\n") if ln.startswith("mode: "))
        compare_lines(rep, mode, [inp], "replay")
    else:
        print("replay file names an obligation, not an input:\n" + text)


# --------------------------------------------------------------------------------------------------
# engine L: lockstep replay of model-chosen schedules
# --------------------------------------------------------------------------------------------------
def run_lock(rep, scens, family, probe_pct=25, max_steps=600, salt=0, judge=None, monitor=None):
    """scens: scenario texts. The driver picks a schedule per scenario (seeded), the harness
    replays it on the real threads; transcripts must be identical. Returns mismatch count."""
    seed = (rep.seed * 7919 + salt) % (2 ** 30)
    shards = vlib.chunks(scens, vlib.CORES)

    # a change that makes the store hang turns every scenario into a sequence of time-outs: once a
    # few scenarios have left the model's schedule, or the family's time budget is used up with a
    # divergence in hand, the remaining scenarios of the family are skipped (never on a conforming
    # tree: nothing diverges there)
    import time as _time
    state = {"div": 0, "t0": _time.time()}
    budget = 900 if rep.tier == "thorough" else 150

    def core(lines):
        return [ln for ln in lines if not ln.startswith(("L ", "I "))]

    def one(part):
        text = "\n---\n".join(part) + "\n---\n"
        drc, dout, derr = vlib.run_tool([vlib.DRIVER, "lock", str(seed), str(probe_pct), str(max_steps)],
                                        text, 600)
        mblocks = split_blocks(dout)
        if drc != 0 or len(mblocks) != len(part):
            return part, None, None, "driver rc=%s blocks=%d/%d %s" % (drc, len(mblocks), len(part), derr[-1500:])
        hblocks = []
        pairs = list(zip(part, mblocks))
        for k in range(0, len(pairs), 5):
            if state["div"] >= 6 or (state["div"] > 0 and _time.time() - state["t0"] > budget):
                break
            todo = pairs[k:k + 5]
            guard, limit = 0, len(todo) + 2
            while todo and guard < limit:
                guard += 1
                inp = "".join(sc + "\n" + "".join("@ " + ln + "\n" for ln in mb if ln[:2] in ("S ", "F ", "P "))
                              + "---\n" for sc, mb in todo)
                hrc, hout, herr = vlib.run_tool([vlib.HARNESS, "lock"], inp, 900)
                hb = split_blocks(hout)
                done = 0
                for b in hb:
                    if b and b[0].startswith("BATCH-ABORTED"):
                        break
                    if core(b) != core(todo[done][1]):
                        state["div"] += 1
                    hblocks.append(b)
                    done += 1
                if hrc not in (0, 3) or done == 0:
                    return part, mblocks, hblocks, "harness rc=%s after %d blocks: %s" % (hrc, len(hblocks), herr[-1500:])
                todo = todo[done:]
            if todo:
                break    # keep scenario / transcript alignment
        n = len(hblocks)
        if n < len(part):
            rep.coverage["skipped_after_divergence"] = rep.coverage.get("skipped_after_divergence", 0) + len(part) - n
        return part[:n], mblocks[:n], hblocks, None

    mism = 0
    rejected, diverged = [], []
    from concurrent.futures import ThreadPoolExecutor
    with ThreadPoolExecutor(max_workers=len(shards) or 1) as ex:
        results = list(ex.map(one, shards))
    for part, mblocks, hblocks, err in results:
        if err:
            rep.violation("family %s could not run: %s" % (family, err),
                          "obligation: correspondence family %s (engine L) could not run\n%s\n" % (family, err),
                          no_input=True)
            mism += 1
            continue
        for sc, m_all, h_all in zip(part, mblocks, hblocks):
            # L/I lines: the global histories, for the monitors only
            m = [ln for ln in m_all if not ln.startswith(("L ", "I "))]
            h = [ln for ln in h_all if not ln.startswith(("L ", "I "))]
            rep.coverage["evaluations"] += 1
            rep.coverage["traces_validated_against_impl"] += 1
            steps = [ln for ln in m if ln[:2] in ("S ", "F ", "P ")]
            probes = sum(1 for ln in m if ln.startswith("P "))
            rep.coverage["lock_steps"] = rep.coverage.get("lock_steps", 0) + len(steps)
            # which park points (model program counters) the lockstep runs of this check reached
            labs = rep.coverage.setdefault("park_labels_exercised", {})
            for ln in steps:
                w_ = ln.split()
                if len(w_) >= 3 and w_[0] in ("S", "F"):
                    labs[w_[2]] = labs.get(w_[2], 0) + 1
            rep.coverage["probes"] = rep.coverage.get("probes", 0) + probes
            rep.distinct.add((family, hash(tuple(m))))
            if len(rep.coverage["samples"]) < 5 and rep.coverage["evaluations"] % 41 == 1:
                rep.coverage["samples"].append({"family": family, "scenario": sc.split("\n"),
                                                "schedule_head": m[:10], "steps": len(steps)})
            if judge:
                judge(sc, m_all, h_all)
            sched_txt = " ".join("%s:%s" % (ln.split()[0], ln.split()[1]) for ln in m if ln[:2] in ("S ", "F ", "P "))
            slow = any(("SLOWSTOP" in ln) for ln in h_all)
            # the property's monitor on the observed (and on the model's) history
            bad_h, known_h, bad_m = [], [], []
            if monitor and not slow:
                bad_h, known_h = run_monitor(monitor, h_all, sc, model_lines=m_all)
                bad_m, _ = run_monitor(monitor, m_all, sc)
                for kf in known_h:
                    rep.known_hits[kf.split(" (")[0]] = rep.known_hits.get(kf.split(" (")[0], 0) + 1
            if bad_h:
                rep.coverage["monitor_rejections"] = rep.coverage.get("monitor_rejections", 0) + 1
                mism += 1
                rejected.append((
                    "family %s: the observed execution violates %s: %s%s" %
                    (family, rep.prop, "; ".join("%s: %s" % b for b in bad_h[:3]),
                     " (the model produces the same history)" if bad_m and m == h else ""),
                    "family: %s\nmode: lock\nclauses: %s\n--- scenario\n%s\nschedule %s\n--- model\n%s\n--- impl\n%s\n" %
                    (family, bad_h[:5], sc, sched_txt, "\n".join(m_all), "\n".join(h_all))))
            elif m != h and rep.prop == "C13" and any(" STUCK" in ln for ln in h) and \
                    " STUCK" in (h[next((i for i, (a, b) in enumerate(zip(m, h)) if a != b), 0)]
                                 if len(h) > next((i for i, (a, b) in enumerate(zip(m, h)) if a != b), 0) else ""):
                # (only when the run had followed the model up to there: after an earlier
                # difference a granted thread may wait for a reason the model knows nothing about)
                mism += 1
                stuck_ln = next(ln for ln in h if " STUCK" in ln)
                rejected.append((
                    "family %s: deadlock: thread %s never reaches its next park point although the model "
                    "says it can run (`%s`)" % (family, stuck_ln.split()[1], stuck_ln),
                    "family: %s\nmode: lock\nclauses: [('deadlock', %r)]\n--- scenario\n%s\nschedule %s\n--- model\n%s\n--- impl\n%s\n" %
                    (family, stuck_ln, sc, sched_txt, "\n".join(m_all), "\n".join(h_all))))
            elif m != h:
                if slow:
                    rep.coverage["inconclusive"] = rep.coverage.get("inconclusive", 0) + 1
                    continue
                mism += 1
                first = next((i for i, (a, b) in enumerate(zip(m, h)) if a != b), min(len(m), len(h)))
                diverged.append((
                    "family %s (engine L): the implementation left the model's schedule at step %d: "
                    "model `%s` impl `%s`; no clause of %s is violated by the observed execution" %
                    (family, first, m[first] if first < len(m) else "<end>",
                     h[first] if first < len(h) else "<end>", rep.prop),
                    "obligation: correspondence (engine L, family %s): the code no longer behaves like "
                    "the model the theorems of coq/Props/%s.v are about\nfamily: %s\nmode: lock\n"
                    "--- scenario\n%s\nschedule %s\n--- model\n%s\n--- impl\n%s\n" %
                    (family, rep.prop, family, sc, sched_txt, "\n".join(m), "\n".join(h_all))))
    # concrete failing inputs first; a bare divergence only when no execution violates a clause
    for text, body in rejected[:3]:
        rep.violation(text, body)
    if not rejected:
        for text, body in diverged[:2]:
            rep.defer(text, body)
    rep.coverage["divergences"] = rep.coverage.get("divergences", 0) + len(diverged)
    rep.coverage["disagreements_checked"] += mism
    return mism


def run_monitor(monitor, lines, sc, model_lines=None):
    import monitors
    try:
        r = monitor(monitors.Hist(lines, sc, model_lines))
    except Exception as e:   # a monitor crash must never look like a violation
        return [], ["monitor-error %r" % (e,)]
    if isinstance(r, tuple):
        return r[0], r[1]
    return r, []


class Gen:
    """random scenario generator; every choice comes from self.rng"""

    def __init__(self, rng, **kw):
        self.rng = rng
        self.k = dict(policies=["block"], caps=[1, 2, 3], max_threads=3, max_ops=4, reducers=(1, 2),
                      mws=(0, 1), directs=(0, 2), selectors=(0, 0), chans=(0, 0), effects=0.0,
                      ops={"d": 10, "gs": 2}, stop=0.9, entry="ITD", keep=0.2, verdict=0.15,
                      chan_pols=["block"], late_stop=True)
        self.k.update(kw)

    def pick(self, weights):
        items = list(weights.items())
        tot = sum(w for _, w in items)
        x = self.rng.random() * tot
        for k, w in items:
            x -= w
            if x <= 0:
                return k
        return items[-1][0]

    def scenario(self):
        r, k = self.rng, self.k
        if k.get("custom"):
            return k["custom"](r)
        lines = ["cap %d" % r.choice(k["caps"]), "pol %s" % r.choice(k["policies"])]
        nred = r.randint(*k["reducers"])
        nmw = r.randint(*k["mws"])
        for j in range(nred):
            lines.append("reducer %d %s" % (j, "K" if r.random() < k["keep"] / 2 else "D"))
        for i in range(nmw):
            lines.append("mw %d" % i)
        lines.append("init reducers " + (",".join(str(j) for j in range(nred)) or "-"))
        lines.append("init mws " + (",".join(str(i) for i in range(nmw)) or "-"))
        self.next_sid = 1
        self.next_eff = 1000
        self.next_extra_action = 5000
        for _ in range(r.randint(*k["directs"])):
            lines.append("sub %d direct" % self.next_sid)
            self.next_sid += 1
        for _ in range(r.randint(*k["selectors"])):
            lines.append("sub %d selector %d" % (self.next_sid, self.next_sid))
            self.next_sid += 1
        for _ in range(r.randint(*k["chans"])):
            lines.append("sub %d chan %d %s" % (self.next_sid, r.choice([1, 2, 3]), r.choice(k["chan_pols"])))
            self.next_sid += 1
        self.n_init_subs = self.next_sid - 1
        nthreads = r.randint(1, k["max_threads"])
        actions = []
        progs = []
        stopper = r.randrange(nthreads) if r.random() < k["stop"] else -1
        self.drains = {}   # thread -> iterators it must consume to the end (well-formed use)
        for t in range(nthreads):
            ops = []
            own = []
            for n in range(r.randint(1, k["max_ops"])):
                kind = self.pick(k["ops"])
                if kind == "d":
                    a = t * 100 + len(actions) + 1
                    actions.append(a)
                    ops.append("d.%s.%d" % (r.choice(k["entry"]), a))
                elif kind in ("gs", "gm", "close"):
                    ops.append(kind)
                elif kind == "as":
                    ops.append("as:%d" % self.next_sid)
                    own.append(self.next_sid)
                    self.next_sid += 1
                elif kind == "ss":
                    ops.append("ss:%d:%d" % (self.next_sid, self.next_sid))
                    own.append(self.next_sid)
                    self.next_sid += 1
                elif kind == "sc":
                    ops.append("sc:%d:%d:%s" % (self.next_sid, r.choice([1, 2]), r.choice(k["chan_pols"])))
                    own.append(self.next_sid)
                    self.next_sid += 1
                elif kind == "un":
                    # only handles this thread can hold: its own and the initial ones
                    cands = own + list(range(1, self.n_init_subs + 1))
                    if cands:
                        ops.append("un:%d" % r.choice(cands))
                elif kind == "ar":
                    lines.append("reducer %d D" % nred)
                    ops.append("ar:%d" % nred)
                    nred += 1
                elif kind == "am":
                    lines.append("mw %d" % nmw)
                    ops.append("am:%d" % nmw)
                    nmw += 1
                elif kind == "th" or kind == "tk":
                    body = []
                    for _ in range(r.randint(0, 2)):
                        if kind == "th" or r.random() < 0.5:
                            a = self.next_extra_action
                            self.next_extra_action += 1
                            actions.append(a)
                            body.append("d.%s.%d" % (r.choice("ITD") if kind == "tk" else r.choice("DDI"), a))
                    if r.random() < 0.15:
                        body.append("panic")
                    ops.append("%s:%d:%s" % (kind, self.next_eff, ",".join(body) or "-"))
                    self.next_eff += 1
                elif kind == "it":
                    # well-formed use: the iterator's own thread consumes it to the end right away
                    sid = self.next_sid
                    self.next_sid += 1
                    ops.append("it:%d" % sid)
                    for _ in range(r.randint(0, 2)):
                        ops.append("nx:%d" % sid)
                    self.drains.setdefault(t, []).append(sid)
                    break
            if t == stopper and t not in self.drains:
                ops.append(r.choice(["drop", "drop", "pdrop"]) if k.get("only_drop") else r.choice(["stop", "stop", "drop"]))
                if r.random() < 0.3:
                    ops.append(r.choice(["stop", "d.I.%d" % (t * 100 + 99), "gs"]))
            progs.append(ops)
        if self.drains:
            # every iterator is consumed to the end by its own thread; a separate thread stops
            for t, sids in self.drains.items():
                for sid in sids:
                    progs[t].append("dr:%d" % sid)
            if stopper < 0 or stopper in self.drains:
                progs.append(["drop" if k.get("only_drop") else r.choice(["stop", "drop"])])
        # scripted answers / verdicts / selector values for the actions
        eff_ids = {}
        for a in actions:
            for j in range(nred):
                x = r.random()
                eff = ""
                if r.random() < k["effects"] and self.next_eff < 1012:
                    kind = r.choice(["task", "func", "thunk", "action"])
                    if kind == "action":
                        b = self.next_extra_action
                        self.next_extra_action += 1
                        eff = " e %d action %d" % (self.next_eff, b)
                    else:
                        body = []
                        if kind == "thunk" and r.random() < 0.5:
                            b = self.next_extra_action
                            self.next_extra_action += 1
                            body.append("d.D.%d" % b)
                        if r.random() < 0.15:
                            body.append("panic")
                        eff = " e %d %s %s" % (self.next_eff, kind, ",".join(body) or "-")
                    eff_ids.setdefault(a, []).append(self.next_eff)
                    self.next_eff += 1
                if x < k["keep"] or eff:
                    lines.append("r %d %d %s%s" % (j, a, "K" if x < k["keep"] else "D", eff))
            for i in range(nmw):
                for h in "red":
                    # before_effect hooks may also remove effects of the action (knob rm)
                    rm = ""
                    if h == "e" and eff_ids.get(a) and r.random() < k.get("rm", 0.0):
                        rm = " rm " + ",".join(str(x) for x in r.sample(eff_ids[a], r.randint(1, len(eff_ids[a]))))
                    if r.random() < k["verdict"]:
                        lines.append("v %d %s %d %s%s" % (i, h, a, r.choice("DBE"), rm))
                    elif rm:
                        lines.append("v %d %s %d C%s" % (i, h, a, rm))
            for s in range(1, self.next_sid):
                lines.append("sel %d %d %d" % (s, a, r.randint(0, k.get("sel_values", 2))))
        for t, ops in enumerate(progs):
            lines.append("t %d %s" % (t, " ".join(ops)))
        return "\n".join(lines)


def resub_scenario(r):
    """a notification, then - on one thread, so in this order - an unsubscribe and a new
    registration (iterator, direct or channeled subscriber): the registry changes without changing
    its length between two notifications; a second thread keeps dispatching and finally stops"""
    nd = r.randint(1, 2)
    lines = ["cap %d" % r.choice([2, 3, 16]), "pol block", "reducer 0 D", "init reducers 0", "init mws -"]
    for s in range(1, nd + 1):
        lines.append("sub %d direct" % s)
    t0 = ["d.I.1"]
    if r.random() < 0.5:
        t0.append("gs")
    kind = r.choice(["it", "it", "as", "sc"])
    un = "un:%d" % r.randint(1, nd)
    new = {"it": "it:7", "as": "as:7", "sc": "sc:7:2:block"}[kind]
    t0 += [un, new] if r.random() < 0.7 else [new, un]
    if kind == "it":
        t0 += ["nx:7"] * r.randint(0, 1) + ["dr:7"]
    else:
        t0 += ["d.I.2"]
    t1 = []
    for i in range(r.randint(2, 4)):
        t1 += ["gs"] * r.randint(0, 2) + ["d.%s.%d" % (r.choice("ID"), 101 + i)]
    t1 += ["gs", r.choice(["stop", "drop"])]
    lines += ["t 0 " + " ".join(t0), "t 1 " + " ".join(t1)]
    return "\n".join(lines)


def unsub_again_scenario(r):
    """register A, unsubscribe A, register B, unsubscribe A *again* (must do nothing), then actions:
    B stays registered until the stop"""
    lines = ["cap 16", "pol block", "reducer 0 D", "init reducers 0", "init mws -"]
    if r.random() < 0.5:
        lines.append("sub 1 direct")
    kind = r.choice(["as", "as", "sc"])
    reg = (lambda s: "as:%d" % s) if kind == "as" else (lambda s: "sc:%d:2:block" % s)
    t0 = [reg(5), "un:5", reg(6)] + ["gs"] * r.randint(0, 1) + ["un:5"]
    t0 += ["d.I.%d" % (1 + i) for i in range(r.randint(1, 3))]
    t1 = ["gs"] * r.randint(0, 2) + ["d.%s.%d" % (r.choice("ID"), 101 + i) for i in range(r.randint(1, 2))]
    t1 += ["gs"] * r.randint(3, 6) + [r.choice(["stop", "drop"])]
    lines += ["t 0 " + " ".join(t0), "t 1 " + " ".join(t1)]
    return "\n".join(lines)


def slow_iter_scenario(r):
    """an iterator (or a blocking channeled subscriber) whose consumer is busy elsewhere while
    several notifying actions arrive: the reducer waits in the forwarding send on the full
    channel - where it is probed (also with long probes) - until the consumer drains"""
    lines = ["cap %d" % r.choice([4, 16]), "pol block", "reducer 0 D", "init reducers 0", "init mws -"]
    if r.random() < 0.5:
        lines.append("sub 1 direct")
    t0 = ["it:7"] + ["gs"] * r.randint(3, 7) + ["nx:7"] * r.randint(0, 2) + ["gs"] * r.randint(0, 3) + ["dr:7"]
    t1 = []
    for i in range(r.randint(3, 5)):
        t1 += ["gs"] * r.randint(0, 1) + ["d.%s.%d" % (r.choice("ID"), 101 + i)]
    t1 += ["gs"] * r.randint(2, 5) + [r.choice(["stop", "drop"])]
    lines += ["t 0 " + " ".join(t0), "t 1 " + " ".join(t1)]
    return "\n".join(lines)


# --------------------------------------------------------------------------------------------------
# properties decided through engine L (+ monitors)
# --------------------------------------------------------------------------------------------------
ALLPOL = ["block", "oldest", "latest"]
FAMILIES = {
    # name: (knobs, probe_pct)
    "mp_dispatch": (dict(policies=["block"], caps=[1, 2, 3], directs=(0, 2), reducers=(1, 3), keep=0.3,
                         ops={"d": 12, "gs": 3, "as": 1}, max_ops=5, mws=(0, 1), max_threads=4), 25),
    "mp_policies": (dict(policies=ALLPOL, caps=[1, 2, 3], directs=(0, 2), reducers=(0, 2),
                         ops={"d": 12, "gs": 2, "gm": 1, "th": 1}, max_ops=6, mws=(0, 1), max_threads=4), 25),
    "drop_burst": (dict(policies=["oldest", "latest"], caps=[1, 2, 3], directs=(0, 1), reducers=(1, 2),
                        ops={"d": 14, "gm": 1}, entry="DDIT", max_ops=7, mws=(0, 0), max_threads=3), 15),
    "stop_race": (dict(policies=ALLPOL, caps=[1, 2], directs=(0, 2), chans=(0, 1), chan_pols=["block"],
                       ops={"d": 10, "gs": 2, "close": 2, "stop": 0}, max_ops=4, max_threads=4, stop=1.0), 35),
    "readers": (dict(policies=["block"], caps=[1, 2], directs=(1, 2), reducers=(1, 2), keep=0.3,
                     ops={"d": 8, "gs": 8}, max_ops=6, mws=(0, 1), max_threads=4), 15),
    "subs_lifecycle": (dict(policies=["block"], directs=(0, 2), selectors=(0, 1), chans=(0, 1),
                            chan_pols=["block", "oldest"],
                            ops={"d": 10, "as": 3, "ss": 1, "sc": 1, "un": 5, "gs": 1}, max_ops=5,
                            mws=(0, 1)), 25),
    "channeled": (dict(policies=["block"], directs=(1, 1), chans=(1, 2), chan_pols=ALLPOL, keep=0.15,
                       ops={"d": 12, "sc": 2, "un": 3, "gs": 1}, max_ops=6), 30),
    "effects": (dict(policies=["block", "oldest"], effects=0.35, reducers=(1, 3), rm=0.3,
                     ops={"d": 10, "th": 2, "tk": 2, "gs": 1}, max_ops=4, mws=(0, 1)), 25),
    "registration": (dict(policies=["block"], ops={"d": 10, "ar": 2, "am": 2, "as": 2}, max_ops=5,
                          mws=(0, 2), directs=(0, 1), verdict=0.2), 20),
    "iterators": (dict(policies=["block"], ops={"d": 10, "it": 3, "gs": 1, "un": 2, "as": 1}, max_ops=4,
                       directs=(0, 2), keep=0.2), 25),
    # the registry changes between two notifications without changing its length (unsubscribe +
    # new iterator / subscriber)
    "resub": (dict(custom=resub_scenario), 10),
    "slow_iter": (dict(custom=slow_iter_scenario), 20),
    "unsub_again": (dict(custom=unsub_again_scenario), 10),
    "shutdown_unsub": (dict(policies=["block"], directs=(2, 3), chans=(0, 1), chan_pols=["block"], reducers=(1, 1),
                            keep=0.0, ops={"d": 3, "un": 8}, max_ops=3, mws=(0, 0), max_threads=3, stop=1.0), 60),
    "subs_order": (dict(policies=["block"], directs=(3, 4), reducers=(1, 1), keep=0.0,
                        ops={"d": 10, "un": 6, "as": 2}, max_ops=6, mws=(0, 0), max_threads=3), 10),
    "selector_unsub": (dict(policies=["block"], directs=(0, 1), selectors=(1, 2), keep=0.1, sel_values=1,
                            ops={"d": 10, "un": 6, "ss": 1}, max_ops=6, max_threads=3), 10),
    "selectors": (dict(policies=["block"], directs=(0, 1), selectors=(1, 2), keep=0.2,
                       ops={"d": 12, "ss": 1, "un": 1}, max_ops=6), 10),
    "api_mix": (dict(policies=ALLPOL, directs=(0, 1), selectors=(0, 1), chans=(0, 1), chan_pols=ALLPOL,
                     effects=0.15,
                     ops={"d": 10, "gs": 1, "gm": 1, "as": 2, "ss": 1, "sc": 1, "un": 3, "it": 1, "th": 1,
                          "tk": 1, "close": 1, "ar": 1, "am": 1}, max_ops=4, max_threads=4, mws=(0, 1)), 30),
    "droppable": (dict(policies=ALLPOL, caps=[1, 2], directs=(0, 2), chans=(0, 1), chan_pols=["block"],
                       ops={"d": 10, "gs": 2, "close": 2}, max_ops=4, max_threads=4, stop=1.0, only_drop=True), 30),
    # engine F only: middleware hooks that dispatch through the dispatcher they are handed (the
    # model's callbacks are pure); at most 15 actions against capacity 16, so that the reducer
    # context never waits on its own full queue
    "mw_nested": (dict(policies=ALLPOL, caps=[16], directs=(0, 1), reducers=(1, 2), mws=(1, 2), verdict=0.0,
                       ops={"d": 12, "gs": 1}, max_ops=4, max_threads=3), 0),
    # engine F: several threads hand tasks and thunks to the pool at the same instant (at most 12
    # per store: rusty_pool runs up to its core size directly)
    "task_storm": (dict(policies=["block"], caps=[16], directs=(0, 1), reducers=(1, 1), mws=(0, 0), keep=0.0,
                        ops={"tk": 10, "th": 6}, max_ops=4, max_threads=3), 0),
    # engine F: subscribers that unsubscribe from inside their callback (cbun lines)
    "cb_unsub_direct": (dict(policies=["block"], caps=[4, 16], directs=(2, 3), reducers=(1, 1), mws=(0, 0), keep=0.0,
                             ops={"d": 10, "gs": 1}, max_ops=5, max_threads=2), 0),
    "cb_unsub_chan": (dict(policies=["block"], caps=[4, 16], directs=(0, 1), chans=(2, 2), chan_pols=["block"],
                           reducers=(1, 1), mws=(0, 0), keep=0.0, ops={"d": 10, "gs": 1}, max_ops=5, max_threads=2), 0),
    "metrics": (dict(policies=ALLPOL, directs=(0, 2), reducers=(0, 2), effects=0.3, verdict=0.3, rm=0.5,
                     ops={"d": 12, "gm": 3, "close": 1}, max_ops=5, mws=(0, 2), max_threads=3), 15),
}

PROPERTY_FAMILIES = {
    "C01": [("mp_dispatch", 160, 2400), ("registration", 60, 800)],
    "C02": [("mp_policies", 200, 3000), ("effects", 60, 800)],
    "C03": [("mp_dispatch", 120, 2400), ("subs_order", 100, 1600), ("subs_lifecycle", 40, 800), ("resub", 40, 600)],
    "C04": [("stop_race", 200, 3000), ("channeled", 60, 800)],
    "C05": [("mp_dispatch", 200, 3000)],
    "C06": [("drop_burst", 200, 3000), ("mp_policies", 80, 1000)],
    "C07": [("registration", 120, 2400), ("subs_order", 120, 1600), ("mp_dispatch", 40, 800)],
    "C08": [("readers", 200, 3000)],
    "C09": [("subs_lifecycle", 160, 3000), ("shutdown_unsub", 160, 2000), ("resub", 40, 600), ("unsub_again", 40, 600)],
    "C10": [("channeled", 220, 3000), ("resub", 40, 600)],
    "C11": [("effects", 220, 3000)],
    "C13": [("api_mix", 220, 3000), ("iterators", 40, 600)],
    "C14": [("iterators", 160, 2000), ("resub", 80, 1200), ("slow_iter", 60, 900)],
    "C15": [("droppable", 200, 3000)],
    "C18": [("metrics", 200, 3000)],
    "C16": [("selector_unsub", 300, 4000), ("selectors", 100, 1500)],
}


def nested_extra(sc, rng):
    """`mwd` lines for a scenario of family mw_nested: up to 3 hooks dispatch a fresh action, and the
    first reducer is slow for one early action so that the queue holds returned dispatches when the
    hook runs"""
    mws, acts = [], []
    for ln in sc.split("\n"):
        w = ln.split()
        if w and w[0] == "init" and w[1] == "mws" and w[2] != "-":
            mws = [int(x) for x in w[2].split(",")]
        if w and w[0] == "t":
            acts += [int(o.split(".")[2]) for o in w[2:] if o.startswith("d.")]
    if not mws or not acts:
        return ""
    out = []
    for k in range(rng.randint(1, 3)):
        out.append("mwd %d %s %d %d" % (rng.choice(mws), rng.choice("red"), rng.choice(acts), 7001 + k))
    out.append("delay reduce 0 %d %d" % (rng.choice(acts), rng.choice([300, 1000, 2000])))
    return "\n".join(out)


def cbun_extra(sc, rng):
    """`cbun` lines: a subscriber unsubscribes another one (direct ones: possibly itself) from inside
    its callback; a channeled target is made slow so that it has a backlog when it is released"""
    directs, chans, acts = [], [], []
    for ln in sc.split("\n"):
        w = ln.split()
        if w and w[0] == "sub" and w[2] == "direct":
            directs.append(int(w[1]))
        if w and w[0] == "sub" and w[2] == "chan":
            chans.append(int(w[1]))
        if w and w[0] == "t":
            acts += [int(o.split(".")[2]) for o in w[2:] if o.startswith("d.")]
    if not acts:
        return ""
    out = []
    if len(chans) >= 2:
        u, v = rng.sample(chans, 2)
        out += ["cbun %d %d %d" % (u, rng.choice(acts), v), "delay notify %d 0 %d" % (v, rng.choice([300, 1000]))]
    elif directs:
        u = rng.choice(directs)
        out.append("cbun %d %d %d" % (u, rng.choice(acts), rng.choice(directs)))
    return "\n".join(out)


# engine F: (family, extra scenario lines, quick count, thorough count)
PROPERTY_FREE = {
    "C01": [("mp_dispatch", "", 200, 4000),
            # registration calls racing a slow reducer chain
            ("registration", "delay reduce 0 0 300", 100, 2000),
            # readers holding the state mutex (slow user Clone) while the reducer writes back
            ("readers", "free readers 3\nfree slowclone 20000", 100, 2000)],
    "C02": [("mp_policies", "", 200, 4000), ("mw_nested", nested_extra, 150, 3000)],
    "C03": [("mp_dispatch", "", 200, 4000)],
    "C04": [("stop_race", "", 200, 4000),
            # slow channeled consumers: unsubscribe() of a backlogged subscriber racing stop()
            ("channeled", "delay notify 2 0 300\ndelay notify 3 0 300", 120, 2400)],
    "C05": [("mp_dispatch", "", 200, 4000)],
    "C06": [("drop_burst", "", 200, 4000)],
    "C07": [("registration", "", 200, 4000), ("registration", "delay reduce 0 0 300", 150, 3000)],
    "C08": [("readers", "free readers 3\nfree cbread\nfree slowclone 20000", 200, 4000),
            ("readers", "free readers 2\nfree cbread", 100, 2000)],
    "C09": [("subs_lifecycle", "", 200, 4000),
            # a slow release at shutdown and a slow channeled consumer: unsubscribe() racing stop()
            ("shutdown_unsub", "delay unsub 1 0 1500\ndelay notify 2 0 400\ndelay notify 3 0 400\ndelay notify 4 0 400", 150, 3000),
            ("cb_unsub_direct", cbun_extra, 100, 2000), ("unsub_again", "", 100, 2000)],
    "C10": [("channeled", "", 200, 4000),
            # slow channeled consumers: full subscription queues at unsubscribe / stop
            ("channeled", "delay notify 2 0 300\ndelay notify 3 0 300", 150, 3000),
            ("cb_unsub_chan", cbun_extra, 100, 2000)],
    "C11": [("effects", "", 200, 4000), ("task_storm", "", 600, 6000)],
    "C14": [("iterators", "", 100, 2000)],
    "C15": [("droppable", "", 200, 4000)],
    "C18": [("metrics", "", 200, 4000)],
}


def known_findings(prop):
    import json
    path = os.path.join(vlib.ROOT, "known_findings.json")
    return [f for f in json.load(open(path))["findings"] if f["property"] == prop]


def corpus_scenarios(prop):
    """minimised failing scenarios and known-finding witnesses, replayed first"""
    d = os.path.join(vlib.ROOT, "corpus")
    out = []
    for f in sorted(os.listdir(d)) if os.path.isdir(d) else []:
        if f.startswith(prop + "_") and f.endswith(".txt"):
            out.append((f, open(os.path.join(d, f)).read().strip()))
    return out


def lock_property(rep):
    import monitors
    import time as _time
    prop = rep.prop
    mon = monitors.MONITORS.get(prop)
    rules = []
    # corpus / witnesses first
    for name, sc in corpus_scenarios(prop):
        run_lock(rep, [sc], "corpus/" + name, monitor=mon)
    for k, (fam, nq, nt) in enumerate(PROPERTY_FAMILIES[prop]):
        knobs, probe = FAMILIES[fam]
        n = nt if rep.tier == "thorough" else nq
        g = Gen(rng_for(rep, fam), **knobs)
        scens = [g.scenario() for _ in range(n)]
        rep.coverage["programs"] += n
        _t = _time.time()
        run_lock(rep, scens, fam, probe_pct=probe, salt=k, monitor=mon)
        rep.coverage.setdefault("family_wall_s", {})[fam] = round(_time.time() - _t, 1)
        rules.append("%s x%d" % (fam, n))
    for fam, extra, nq, nt in PROPERTY_FREE.get(prop, []):
        if len(rep.violations) >= 3:
            break    # concrete failing inputs are in hand: no further search needed
        knobs, _ = FAMILIES[fam]
        n = nt if rep.tier == "thorough" else nq
        g = Gen(rng_for(rep, fam + "/free"), **knobs)
        scens = []
        for _ in range(n):
            sc0 = g.scenario()
            ex = extra(sc0, g.rng) if callable(extra) else extra
            scens.append(sc0 + ("\n" + ex if ex else ""))
        if mon:
            _t = _time.time()
            run_free(rep, scens, fam + "/free", mon)
            rep.coverage.setdefault("family_wall_s", {})[fam + "/free"] = round(_time.time() - _t, 1)
            rules.append("%s (engine F) x%d" % (fam, n))
    rep.coverage["rule"] = (
        "engine F: the same generators run free on real threads (no scheduler), judged by the monitor; "
        "engine L: random scenarios of the families [%s] (seeded by VERIF_SEED); for each the extracted "
        "Coq model chooses a schedule (random enabled thread, occasional probe of a thread the model "
        "says is blocked), the harness replays it on the real threads behind the verif::point hooks; "
        "compared per step: the park label reached, the API-level events of the stepping thread, new "
        "threads, probe outcome; at the end: state, count metrics, unfinished threads. The monitor of "
        "%s also judges every observed history. distinct = distinct model transcripts"
        % (", ".join(rules), prop))
    # known findings: listed, witnessed, never added to at run time
    for f in known_findings(prop):
        if f["status"] != "known":
            continue
        hits = sum(v for k, v in rep.known_hits.items() if k.startswith(f["match"]))
        rep.known_finding("%s [%s; %d histories of this class observed in this run]" % (f["what"], f["id"], hits))


for _p in PROPERTY_FAMILIES:
    if _p not in CHECKS:
        CHECKS[_p] = lock_property


# --------------------------------------------------------------------------------------------------
# engine F: free-running real threads judged by the monitors
# --------------------------------------------------------------------------------------------------
def hang_clause(h_all, sc):
    """the store hangs (outside the known class F5: no iterator in the scenario): client calls that
    never return, or a stop() that never completes - every property's "is eventually processed" fails"""
    if " it:" in sc or " di:" in sc or " itw:" in sc:
        return []
    unfinished = next((ln[len("END unfinished="):] for ln in h_all if ln.startswith("END unfinished=")), "-")
    hung = any(ln.endswith(" CLEANUP-HUNG") for ln in h_all)
    if unfinished != "-" or hung:
        return [("hang", "the store hangs: %s" % ("calls that never return: " + unfinished if unfinished != "-"
                                                  else "stop() does not complete"))]
    return []


def run_free(rep, scens, family, monitor):
    """no model in the loop: the harness runs each scenario on real threads at full speed, the
    property's monitor judges the global log. Returns the number of rejected histories."""
    import monitors as _m
    shards = vlib.chunks(scens, vlib.CORES)

    # with a divergence or violation already in hand the search is cut off after a time budget (a
    # change that makes the store hang turns every run into a time-out)
    import time as _time
    t0 = _time.time()
    budget = 900 if rep.tier == "thorough" else 150
    in_hand = bool(rep.violations or rep.deferred)

    def one(part):
        blocks = []
        for k in range(0, len(part), 8):
            if in_hand and _time.time() - t0 > budget:
                break
            todo = list(part[k:k + 8])
            guard, limit = 0, len(todo) + 2
            while todo and guard < limit:
                guard += 1
                hrc, hout, herr = vlib.run_tool([vlib.HARNESS, "free"], "\n---\n".join(todo) + "\n---\n", 900)
                hb = split_blocks(hout)
                done = 0
                for b in hb:
                    if b and b[0].startswith("BATCH-ABORTED"):
                        break
                    blocks.append(b)
                    done += 1
                if hrc not in (0, 3) or done == 0:
                    return part, blocks, "harness rc=%s after %d blocks: %s" % (hrc, len(blocks), herr[-1500:])
                todo = todo[done:]
            if todo:
                break    # keep scenario / log alignment
        return part[:len(blocks)], blocks, None

    from concurrent.futures import ThreadPoolExecutor
    with ThreadPoolExecutor(max_workers=len(shards) or 1) as ex:
        results = list(ex.map(one, shards))
    rejected = 0
    for part, blocks, err in results:
        if err:
            rep.violation("family %s (engine F) could not run: %s" % (family, err),
                          "obligation: engine F family %s could not run\n%s\n" % (family, err), no_input=True)
            rejected += 1
            continue
        for sc, h_all in zip(part, blocks):
            rep.coverage["evaluations"] += 1
            rep.coverage["free_runs"] = rep.coverage.get("free_runs", 0) + 1
            if any("SLOWSTOP" in ln for ln in h_all):
                rep.coverage["inconclusive"] = rep.coverage.get("inconclusive", 0) + 1
                continue
            rep.distinct.add((family, hash(tuple(ln for ln in h_all if ln.startswith("L ")))))
            bad, known = run_monitor(monitor, h_all, sc)
            hang = hang_clause(h_all, sc)
            if hang and not bad:
                # a watchdog expiry may be the machine, not the store: the scenario is run again on
                # its own, and the hang is reported only if it shows again
                again = False
                for _ in range(3):
                    _rc, _out, _err = vlib.run_tool([vlib.HARNESS, "free"], sc + "\n---\n", 120)
                    _b = split_blocks(_out)
                    if _b and hang_clause(_b[0], sc):
                        again = True
                        h_all = _b[0]
                        break
                if not again:
                    rep.coverage["hangs_not_reproduced"] = rep.coverage.get("hangs_not_reproduced", 0) + 1
                    hang = []
            bad = list(bad) + hang
            for kf in known:
                rep.known_hits[kf.split(" (")[0]] = rep.known_hits.get(kf.split(" (")[0], 0) + 1
            if bad:
                rejected += 1
                if rejected <= 3:
                    rep.violation(
                        "family %s (engine F): the observed execution violates %s: %s" %
                        (family, rep.prop, "; ".join("%s: %s" % b for b in bad[:3])),
                        "family: %s\nmode: free\nclauses: %s\n--- scenario\n%s\n--- impl\n%s\n" %
                        (family, bad[:5], sc, "\n".join(h_all)))
    rep.coverage["disagreements_checked"] += rejected
    return rejected


# --------------------------------------------------------------------------------------------------
# C19: two stores in one process (engine F on pairs) + each store alone through engine L
# --------------------------------------------------------------------------------------------------
def run_free2(rep, pairs, family, monitor):
    shards = vlib.chunks(pairs, vlib.CORES)

    def one(part):
        blocks = []
        todo = list(part)
        guard = 0
        while todo and guard < len(part) + 2:
            guard += 1
            text = "".join(a + "\n===\n" + b + "\n---\n" for a, b in todo)
            hrc, hout, herr = vlib.run_tool([vlib.HARNESS, "free2"], text, 900)
            hb = split_blocks(hout)
            done = 0
            k = 0
            while k + 1 < len(hb) + 1:
                if k < len(hb) and hb[k] and hb[k][0].startswith("BATCH-ABORTED"):
                    break
                if k + 1 >= len(hb):
                    break
                blocks.append((hb[k], hb[k + 1]))
                done += 1
                k += 2
            if hrc not in (0, 3) or done == 0:
                return part, blocks, "harness rc=%s after %d pairs: %s" % (hrc, len(blocks), herr[-1500:])
            todo = todo[done:]
        return part, blocks, None

    from concurrent.futures import ThreadPoolExecutor
    with ThreadPoolExecutor(max_workers=len(shards) or 1) as ex:
        results = list(ex.map(one, shards))
    rejected = 0
    for part, blocks, err in results:
        if err:
            rep.violation("family %s (engine F, pairs) could not run: %s" % (family, err),
                          "obligation: engine F family %s could not run\n%s\n" % (family, err), no_input=True)
            rejected += 1
            continue
        for (sa, sb), (ha, hb) in zip(part, blocks):
            rep.coverage["evaluations"] += 1
            rep.coverage["free_runs"] = rep.coverage.get("free_runs", 0) + 1
            if any("SLOWSTOP" in ln for ln in ha + hb):
                rep.coverage["inconclusive"] = rep.coverage.get("inconclusive", 0) + 1
                continue
            rep.distinct.add((family, hash(tuple(ln for ln in ha + hb if ln.startswith("L ")))))
            for which, sc, h in (("A", sa, ha), ("B", sb, hb)):
                bad, _ = run_monitor(monitor, h, sc)
                bad = list(bad) + hang_clause(h, sc)
                if bad:
                    rejected += 1
                    if rejected <= 3:
                        rep.violation(
                            "family %s (engine F): store %s of a pair violates %s: %s" %
                            (family, which, rep.prop, "; ".join("%s: %s" % b for b in bad[:3])),
                            "family: %s\nmode: free2\nclauses: %s\n--- scenario A\n%s\n--- scenario B\n%s\n"
                            "--- impl A\n%s\n--- impl B\n%s\n" % (family, bad[:5], sa, sb, "\n".join(ha), "\n".join(hb)))
    rep.coverage["disagreements_checked"] += rejected
    return rejected


@check("C19")
def check_c19(rep):
    import monitors
    n = 4000 if rep.tier == "thorough" else 240
    rng = rng_for(rep, "pairs")
    ga = Gen(rng, policies=["block"], caps=[1, 2, 16], directs=(0, 2), reducers=(1, 2), keep=0.1,
             ops={"d": 12, "gs": 1}, max_ops=6, mws=(0, 1), max_threads=3)
    gb = Gen(rng, policies=ALLPOL, caps=[1, 2], directs=(0, 2), reducers=(1, 2), keep=0.1,
             ops={"d": 10, "gs": 1, "gm": 1}, max_ops=5, mws=(0, 1), max_threads=2)
    pairs = []
    for i in range(n):
        a, b = ga.scenario(), gb.scenario()
        if i % 2 == 0:
            a += "\nforward 90"
            # B must be BlockOnFull (a forwarded dispatch may block, never fail) and slow
            b = "\n".join(ln for ln in b.split("\n") if not ln.startswith("pol ")) + "\npol block\ndelay reduce 0 0 %d" % rng.choice([200, 1000, 3000])
        if i % 3 == 0:
            # equal explicit names ("s7"); otherwise both keep the default name, or differ
            a += "\nname 7"
            b += "\nname 7"
        elif i % 3 == 1:
            b += "\nname 8"
        if i % 4 == 1:
            # one SelectorSubscriber object registered with both stores, with a slow callback
            a += "\nsharedsel 95 %d %d" % (rng.choice([1, 2, 3]), rng.choice([0, 200, 1000]))
        pairs.append((a, b))
    rep.coverage["programs"] = len(pairs)
    run_free2(rep, pairs, "two_stores", monitors.mon_c19)
    rule_pairs = ("engine F on pairs: two real stores in one process (same name, same reducer and subscriber "
                  "types; in every second pair a direct subscriber of store A dispatches into store B from inside "
                  "on_notify while B is slow and small), %d pairs; each store's history is judged on its own by the "
                  "per-store monitors (C01 C03 C04 C05 C06 C18) plus: an open store never rejects a dispatch" % n)
    # each store alone, through the lockstep engine (the projection theorem says that is all there is)
    mon = monitors.MONITORS.get("C01")
    g = Gen(rng_for(rep, "solo"), **FAMILIES["mp_policies"][0])
    scens = [g.scenario() for _ in range(2000 if rep.tier == "thorough" else 100)]
    run_lock(rep, scens, "mp_policies", probe_pct=25, monitor=None)
    rep.coverage["rule"] = rule_pairs + "; engine L: mp_policies x%d (one store of the pair alone)" % len(scens)
