(* World.v — the interleaving transition system of one store.
   Threads: client threads running arbitrary programs over the public API, pool workers running
   effect bodies, the reducer loop, one thread per channeled subscriber. Mutexes are not separate
   state: a lock is held exactly by the threads whose program counter says so (TX: inside a
   dispatch-queue send or the Exit send of close; SUBS: inside unsubscribe / clear_subscribers;
   CTX of a channeled subscriber: the reducer inside the forwarding send).
   One call of `step w t` executes thread t from the park point it stands at to its next park
   point (DESIGN.md 2.3); `None` means t is blocked there or has finished.
   User code is a parameter (config): reducers, middlewares and selectors are functions of ids. *)
From RS Require Import Base Channel Pipeline Selector Script.

Section World.
Context {State : Type}.

Record wconfig := mkWConfig {
  cfg_reducer : N -> reducer State aid eff;
  cfg_mw : N -> middleware State aid eff;
  cfg_sel : N -> State -> N;
  cfg_init : State;
  cfg_cap : nat;
  cfg_pol : policy }.

Variable cfg : wconfig.

(* ---------------- subscribers ---------------- *)
Inductive subkind := SKDirect | SKSelector (sel : N) | SKChan | SKIter.
Record subentry := mkSub { se_id : N; se_kind : subkind }.

(* ---------------- API calls ---------------- *)
Inductive call :=
| CDispatch (e : entry) (a : aid)
| CThunk (k : N) (body : list bop) | CTask (k : N) (body : list bop)
| CGetState | CGetMetrics
| CAddReducer (id : N) | CAddMiddleware (id : N)
| CAddSubscriber (sid : N) | CSubscribeSelector (sid sel : N)
| CSubscribed (sid : N) (capacity : nat) (p : policy)
| CUnsubscribe (sid : N)
| CIter (sid : N) (capacity : nat) (p : policy)
| CNext (sid : N) | CDropIter (sid : N)
| CDrain (sid : N)             (* `for x in iter`: next() until it returns None *)
| CClose | CStop | CDropStore
| CPanic.                       (* effect bodies only: the task ends here *)

Record metrics := mkMetrics {
  m_received : N; m_dropped : N; m_reduced : N; m_issued : N; m_executed : N; m_mw : N;
  m_state_notified : N; m_sub_notified : N; m_errors : N }.
Definition metrics0 := mkMetrics 0 0 0 0 0 0 0 0 0.

Inductive result :=
| ROk | RErr | RUnit | RState (s : State) | RMetrics (m : metrics)
| RItem (x : option (State * aid)).

Inductive ctx := XReducer | XThread (t : N) | XChan (sid : N).

Inductive event :=
| EInv (t : N) (c : call) | ERet (t : N) (c : call) (r : result)
| ECb (x : ctx) (c : cb State aid)
(* internal (ghost) events *)
| EEnq (a : aid) | EEnqExit | EDeq (i : item aid) | EDisc | EDrop (a : aid) | EReject (a : aid)
| ESubNew (sid : N) | ESubDrop (sid : N) | ESubSend (sid : N) (a : aid) | ESubRecv (sid : N) (a : aid)
| EWrite (a : aid) (s : State) | ESnapshot (a : aid) (s : State) (snap : list subentry)
| EReduced (a : aid) | ESpawn (k : N) (t : N) | ESpawnSkipped (k : N) | ETakePool | EPanic (t : N).

(* ---------------- program counters ---------------- *)
Inductive cpc :=
| PIdle                                    (* client.op: about to invoke the head of the program *)
| PCall                                    (* client.call: invoked an atomic call *)
| PTaskStart (k : N) (visible : bool)      (* task.start *)
| PDispatchTx (e : entry) (a : aid)        (* dispatch.tx / dispatcher.tx *)
| PSending (e : entry) (a : aid) (ph : sphase)       (* holds TX *)
| PCloseTx (stop : bool)                   (* close.tx *)
| PCloseSending (stop : bool) (ph : sphase)          (* holds TX *)
| PStopTake | PStopJoin                    (* stop.take, stop.join *)
| PSubsAdd (se : subentry)                 (* subs.add *)
| PUnsubLock (sid : N)                     (* subs.unsub *)
| PUnsubCtx (sid : N)                      (* ctx.clear, holds SUBS *)
| PUnsubJoin (sid : N)                     (* ch.join, holds SUBS *)
| PUnsubIterSend (sid : N) (ph : sphase)   (* holds SUBS *)
| PNextRecv (sid : N).                     (* chan.recv of an iterator *)

Inductive rpc :=
| RRecv
| RBeforeReduce (a : aid)
| RReduce (a : aid) (go : bool)
| RWrite (a : aid) (s : State) (effs : list eff) (nd : bool)
| RBeforeEffect (a : aid) (s : State) (effs : list eff) (nd : bool)
| RSpawn (a : aid) (s : State) (effs : list eff) (nd : bool)
| RBeforeDispatch (a : aid) (s : State)
| RSnapshot (a : aid) (s : State)
| RNotify (a : aid) (s : State) (rest : list subentry) (n : nat)
| RNotifySend (a : aid) (s : State) (cur : subentry) (rest : list subentry) (n : nat) (ph : sphase)
| RClearLock
| RClear (rest : list subentry)                                  (* holds SUBS *)
| RClearCtx (sid : N) (rest : list subentry)                     (* holds SUBS *)
| RClearJoin (sid : N) (rest : list subentry)                    (* holds SUBS *)
| RClearIterSend (sid : N) (rest : list subentry) (ph : sphase)  (* holds SUBS *)
| RDone.

Inductive role := Client | Worker (k : N).

Inductive thread :=
| TClient (r : role) (prog : list call) (pc : cpc)
| TReducer (pc : rpc)
| TChan (sid : N) (finished : bool).

Record world := mkWorld {
  w_state : State;
  w_dq : chan aid;
  w_tx_open : bool;
  w_reducers : list N;
  w_mws : list N;
  w_subs : list subentry;
  w_chans : list (N * chan (State * aid));
  w_lasts : list (N * N);
  w_iter_done : list N;
  w_pool : bool;
  w_threads : list (N * thread);
  w_next_tid : N;
  w_metrics : metrics;
  w_hist : list event }.      (* newest first *)

(* ---------------- field updates ---------------- *)
Definition set_state (w : world) x := mkWorld x (w_dq w) (w_tx_open w) (w_reducers w) (w_mws w) (w_subs w) (w_chans w) (w_lasts w) (w_iter_done w) (w_pool w) (w_threads w) (w_next_tid w) (w_metrics w) (w_hist w).
Definition set_dq (w : world) x := mkWorld (w_state w) x (w_tx_open w) (w_reducers w) (w_mws w) (w_subs w) (w_chans w) (w_lasts w) (w_iter_done w) (w_pool w) (w_threads w) (w_next_tid w) (w_metrics w) (w_hist w).
Definition set_tx_open (w : world) x := mkWorld (w_state w) (w_dq w) x (w_reducers w) (w_mws w) (w_subs w) (w_chans w) (w_lasts w) (w_iter_done w) (w_pool w) (w_threads w) (w_next_tid w) (w_metrics w) (w_hist w).
Definition set_reducers (w : world) x := mkWorld (w_state w) (w_dq w) (w_tx_open w) x (w_mws w) (w_subs w) (w_chans w) (w_lasts w) (w_iter_done w) (w_pool w) (w_threads w) (w_next_tid w) (w_metrics w) (w_hist w).
Definition set_mws (w : world) x := mkWorld (w_state w) (w_dq w) (w_tx_open w) (w_reducers w) x (w_subs w) (w_chans w) (w_lasts w) (w_iter_done w) (w_pool w) (w_threads w) (w_next_tid w) (w_metrics w) (w_hist w).
Definition set_subs (w : world) x := mkWorld (w_state w) (w_dq w) (w_tx_open w) (w_reducers w) (w_mws w) x (w_chans w) (w_lasts w) (w_iter_done w) (w_pool w) (w_threads w) (w_next_tid w) (w_metrics w) (w_hist w).
Definition set_chans (w : world) x := mkWorld (w_state w) (w_dq w) (w_tx_open w) (w_reducers w) (w_mws w) (w_subs w) x (w_lasts w) (w_iter_done w) (w_pool w) (w_threads w) (w_next_tid w) (w_metrics w) (w_hist w).
Definition set_lasts (w : world) x := mkWorld (w_state w) (w_dq w) (w_tx_open w) (w_reducers w) (w_mws w) (w_subs w) (w_chans w) x (w_iter_done w) (w_pool w) (w_threads w) (w_next_tid w) (w_metrics w) (w_hist w).
Definition set_iter_done (w : world) x := mkWorld (w_state w) (w_dq w) (w_tx_open w) (w_reducers w) (w_mws w) (w_subs w) (w_chans w) (w_lasts w) x (w_pool w) (w_threads w) (w_next_tid w) (w_metrics w) (w_hist w).
Definition set_pool (w : world) x := mkWorld (w_state w) (w_dq w) (w_tx_open w) (w_reducers w) (w_mws w) (w_subs w) (w_chans w) (w_lasts w) (w_iter_done w) x (w_threads w) (w_next_tid w) (w_metrics w) (w_hist w).
Definition set_threads (w : world) x := mkWorld (w_state w) (w_dq w) (w_tx_open w) (w_reducers w) (w_mws w) (w_subs w) (w_chans w) (w_lasts w) (w_iter_done w) (w_pool w) x (w_next_tid w) (w_metrics w) (w_hist w).
Definition set_next_tid (w : world) x := mkWorld (w_state w) (w_dq w) (w_tx_open w) (w_reducers w) (w_mws w) (w_subs w) (w_chans w) (w_lasts w) (w_iter_done w) (w_pool w) (w_threads w) x (w_metrics w) (w_hist w).
Definition set_metrics (w : world) x := mkWorld (w_state w) (w_dq w) (w_tx_open w) (w_reducers w) (w_mws w) (w_subs w) (w_chans w) (w_lasts w) (w_iter_done w) (w_pool w) (w_threads w) (w_next_tid w) x (w_hist w).
Definition set_hist (w : world) x := mkWorld (w_state w) (w_dq w) (w_tx_open w) (w_reducers w) (w_mws w) (w_subs w) (w_chans w) (w_lasts w) (w_iter_done w) (w_pool w) (w_threads w) (w_next_tid w) (w_metrics w) x.

Definition emit (w : world) (e : event) : world := set_hist w (e :: w_hist w).
Definition emits (w : world) (es : list event) : world := set_hist w (rev es ++ w_hist w).  (* es oldest first *)

Definition m_add_received (m : metrics) n := mkMetrics (m_received m + n) (m_dropped m) (m_reduced m) (m_issued m) (m_executed m) (m_mw m) (m_state_notified m) (m_sub_notified m) (m_errors m).
Definition m_add_dropped (m : metrics) n := mkMetrics (m_received m) (m_dropped m + n) (m_reduced m) (m_issued m) (m_executed m) (m_mw m) (m_state_notified m) (m_sub_notified m) (m_errors m).
Definition m_add_reduced (m : metrics) n := mkMetrics (m_received m) (m_dropped m) (m_reduced m + n) (m_issued m) (m_executed m) (m_mw m) (m_state_notified m) (m_sub_notified m) (m_errors m).
Definition m_add_issued (m : metrics) n := mkMetrics (m_received m) (m_dropped m) (m_reduced m) (m_issued m + n) (m_executed m) (m_mw m) (m_state_notified m) (m_sub_notified m) (m_errors m).
Definition m_add_executed (m : metrics) n := mkMetrics (m_received m) (m_dropped m) (m_reduced m) (m_issued m) (m_executed m + n) (m_mw m) (m_state_notified m) (m_sub_notified m) (m_errors m).
Definition m_add_mw (m : metrics) n := mkMetrics (m_received m) (m_dropped m) (m_reduced m) (m_issued m) (m_executed m) (m_mw m + n) (m_state_notified m) (m_sub_notified m) (m_errors m).
Definition m_add_state_notified (m : metrics) n := mkMetrics (m_received m) (m_dropped m) (m_reduced m) (m_issued m) (m_executed m) (m_mw m) (m_state_notified m + n) (m_sub_notified m) (m_errors m).
Definition m_add_sub_notified (m : metrics) n := mkMetrics (m_received m) (m_dropped m) (m_reduced m) (m_issued m) (m_executed m) (m_mw m) (m_state_notified m) (m_sub_notified m + n) (m_errors m).
Definition m_add_errors (m : metrics) n := mkMetrics (m_received m) (m_dropped m) (m_reduced m) (m_issued m) (m_executed m) (m_mw m) (m_state_notified m) (m_sub_notified m) (m_errors m + n).
Definition upd_metrics (w : world) (f : metrics -> metrics) : world := set_metrics w (f (w_metrics w)).

(* ---------------- threads ---------------- *)
Fixpoint get_thread (l : list (N * thread)) (t : N) : option thread :=
  match l with
  | [] => None
  | (t', th) :: r => if N.eqb t t' then Some th else get_thread r t
  end.
Fixpoint put_thread (l : list (N * thread)) (t : N) (th : thread) : list (N * thread) :=
  match l with
  | [] => [(t, th)]
  | (t', th') :: r => if N.eqb t t' then (t, th) :: r else (t', th') :: put_thread r t th
  end.
Definition set_thread (w : world) (t : N) (th : thread) : world :=
  set_threads w (put_thread (w_threads w) t th).

Definition reducer_tid : N := 100.
(* tid namespaces never collide: clients < 100, the reducer is 100, channeled threads are odd
   (201 + 2 sid), pool workers are even and >= 1000 *)
Definition chan_tid (sid : N) : N := 201 + 2 * sid.
Definition first_worker_tid : N := 1000.

(* ---------------- locks, derived from program counters ---------------- *)
Definition holds_tx (th : thread) : bool :=
  match th with
  | TClient _ _ (PSending _ _ _) | TClient _ _ (PCloseSending _ _) => true
  | _ => false
  end.
Definition holds_subs (th : thread) : bool :=
  match th with
  | TClient _ _ (PUnsubCtx _) | TClient _ _ (PUnsubJoin _) | TClient _ _ (PUnsubIterSend _ _) => true
  | TReducer (RClear _) | TReducer (RClearCtx _ _) | TReducer (RClearJoin _ _)
  | TReducer (RClearIterSend _ _ _) => true
  | _ => false
  end.
Definition is_chan_kind (k : subkind) : bool := match k with SKChan => true | _ => false end.
Definition holds_ctx (sid : N) (th : thread) : bool :=
  match th with
  | TReducer (RNotifySend _ _ cur _ _ _) => is_chan_kind (se_kind cur) && N.eqb (se_id cur) sid
  | _ => false
  end.
Definition tx_free (w : world) : bool := negb (existsb (fun p => holds_tx (snd p)) (w_threads w)).
Definition subs_free (w : world) : bool := negb (existsb (fun p => holds_subs (snd p)) (w_threads w)).
Definition ctx_free (w : world) (sid : N) : bool :=
  negb (existsb (fun p => holds_ctx sid (snd p)) (w_threads w)).

Definition thread_finished (th : thread) : bool :=
  match th with
  | TClient _ [] PIdle => true
  | TClient _ _ _ => false
  | TReducer RDone => true
  | TReducer _ => false
  | TChan _ f => f
  end.
Definition is_pool_thread (th : thread) : bool :=
  match th with
  | TClient (Worker _) _ _ => true
  | TReducer _ => true
  | _ => false
  end.
(* the pool join: every task submitted to the pool (the reducer loop, the effect tasks) is over *)
Definition pool_idle (w : world) : bool :=
  forallb (fun p => negb (is_pool_thread (snd p)) || thread_finished (snd p)) (w_threads w).
Definition chan_thread_finished (w : world) (sid : N) : bool :=
  match get_thread (w_threads w) (chan_tid sid) with
  | Some (TChan _ f) => f
  | _ => true
  end.

(* ---------------- subscription channels ---------------- *)
Fixpoint get_chan (l : list (N * chan (State * aid))) (sid : N) : option (chan (State * aid)) :=
  match l with
  | [] => None
  | (k, c) :: r => if N.eqb sid k then Some c else get_chan r sid
  end.
Fixpoint put_chan (l : list (N * chan (State * aid))) (sid : N) (c : chan (State * aid)) :=
  match l with
  | [] => [(sid, c)]
  | (k, c') :: r => if N.eqb sid k then (sid, c) :: r else (k, c') :: put_chan r sid c
  end.
Definition set_chan (w : world) (sid : N) (c : chan (State * aid)) : world :=
  set_chans w (put_chan (w_chans w) sid c).

Fixpoint find_sub (l : list subentry) (sid : N) : option subentry :=
  match l with
  | [] => None
  | x :: r => if N.eqb (se_id x) sid then Some x else find_sub r sid
  end.
Definition remove_sub (l : list subentry) (sid : N) : list subentry :=
  filter (fun x => negb (N.eqb (se_id x) sid)) l.

(* ---------------- effect bodies as programs ---------------- *)
Fixpoint calls_of_body (b : list bop) : list call :=
  match b with
  | [] => []
  | BDispatch e a :: r => CDispatch e a :: calls_of_body r
  | BPanic :: _ => [CPanic]
  | BNop :: r => calls_of_body r
  end.
Definition prog_of_eff (e : eff) : list call :=
  match e_kind e with
  | KAction a => [CDispatch EDispatcher a]      (* `expect`: a failed dispatch panics the task, which ends it anyway *)
  | _ => calls_of_body (e_body e)
  end.
Definition eff_visible (e : eff) : bool := match e_kind e with KAction _ => false | _ => true end.

Definition spawn_worker (w : world) (k : N) (prog : list call) (visible : bool) : world :=
  let t := w_next_tid w in
  emit (set_next_tid (set_thread w t (TClient (Worker k) prog (PTaskStart k visible))) (t + 2))
       (ESpawn k t).

(* ================= client steps ================= *)
Definition cb_events (x : ctx) (l : list (cb State aid)) : list event := map (ECb x) l.

(* the call at the head of the program returns r *)
Definition ret (w : world) (t : N) (r : role) (prog : list call) (res : result) : world :=
  match prog with
  | [] => set_thread w t (TClient r [] PIdle)   (* unreachable: a thread inside a call has that call at the head *)
  | c :: rest => emit (set_thread w t (TClient r rest PIdle)) (ERet t c res)
  end.

Definition dispatch_result (e : entry) (ok : bool) : result :=
  match e with
  | EDispatcher => if ok then ROk else RErr
  | _ => ROk        (* StoreImpl::dispatch ignores the send result (unwrap_or(0)) *)
  end.

(* bookkeeping of one phase of a dispatch-queue send of item x *)
(* EDrop: an action evicted from the queue (DropOldest); EReject: an action that never entered it
   (DropLatest); both count in the dropped-actions metric *)
Definition dq_events (x : item aid) (sr : sresult) (dropped : list aid) : list event :=
  map (match sr with SDone false => EReject | _ => EDrop end) dropped ++
  match sr, x with
  | SDone true, IAct a => [EEnq a]
  | SDone true, IExit => [EEnqExit]
  | _, _ => []
  end.

Definition dq_phase (w : world) (x : item aid) (ph : sphase) : option (world * sresult) :=
  match send_phase (w_dq w) x ph with
  | None => None
  | Some (dq', sr, dropped) =>
      Some (emits (upd_metrics (set_dq w dq') (fun m => m_add_dropped m (N.of_nat (length dropped))))
                  (dq_events x sr dropped), sr)
  end.

(* a send on the subscription channel of sid *)
Definition sub_events (sid : N) (x : item (State * aid)) (sr : sresult) (dropped : list (State * aid))
  : list event :=
  map (fun _ => ESubDrop sid) dropped ++
  match sr, x with
  | SDone true, IAct (_, a) => [ESubSend sid a]
  | _, _ => []
  end.

Definition sub_phase (w : world) (sid : N) (x : item (State * aid)) (ph : sphase)
  : option (world * sresult) :=
  match get_chan (w_chans w) sid with
  | None => Some (w, SDone false)
  | Some c =>
      match send_phase c x ph with
      | None => None
      | Some (c', sr, dropped) =>
          Some (emits (upd_metrics (set_chan w sid c') (fun m => m_add_dropped m (N.of_nat (length dropped))))
                      (sub_events sid x sr dropped), sr)
      end
  end.

(* after close has sent (or lost) the Exit marker: drop the sender, go on with stop or return *)
Definition after_close (w : world) (t : N) (r : role) (prog : list call) (stop : bool) : world :=
  let w1 := emit (set_dq w (disconnect (w_dq w))) EDisc in
  if stop then set_thread w1 t (TClient r prog PStopTake) else ret w1 t r prog RUnit.

(* the end of an unsubscribe: which call it completes *)
Definition finish_unsub (w : world) (t : N) (r : role) (prog : list call) (sid : N) : world :=
  match prog with
  | CNext _ :: _ | CDrain _ :: _ => ret (set_iter_done w (sid :: w_iter_done w)) t r prog (RItem None)
  | CDropIter _ :: _ => ret (set_iter_done w (sid :: w_iter_done w)) t r prog RUnit
  | _ => ret w t r prog RUnit
  end.

(* the thread invokes the call at the head of its program (silent: the dispatch an Effect::Action
   task performs, which no user code observes) *)
Definition invoke (w : world) (t : N) (r : role) (prog : list call) (silent : bool) : option world :=
      match prog with
      | [] => None
      | CPanic :: _ => Some (emit (set_thread w t (TClient r [] PIdle)) (EPanic t))
      | c :: rest =>
          let w1 := if silent then w else emit w (EInv t c) in
          let go pc' := Some (set_thread w1 t (TClient r prog pc')) in
          match c with
          | CDispatch e a => go (PDispatchTx e a)
          | CClose => go (PCloseTx false)
          | CStop | CDropStore => go (PCloseTx true)
          | CAddSubscriber sid => go (PSubsAdd (mkSub sid SKDirect))
          | CSubscribeSelector sid sel => go (PSubsAdd (mkSub sid (SKSelector sel)))
          | CSubscribed sid c0 p =>
              let w2 := emit (set_chan w1 sid (chan_new c0 p)) (ESubNew sid) in
              let w3 := set_thread w2 (chan_tid sid) (TChan sid false) in
              Some (set_thread w3 t (TClient r prog (PSubsAdd (mkSub sid SKChan))))
          | CIter sid c0 p =>
              let w2 := emit (set_chan w1 sid (chan_new c0 p)) (ESubNew sid) in
              Some (set_thread w2 t (TClient r prog (PSubsAdd (mkSub sid SKIter))))
          | CUnsubscribe sid => go (PUnsubLock sid)
          | CNext sid | CDrain sid => if memN sid (w_iter_done w) then go PCall else go (PNextRecv sid)
          | CDropIter sid => if memN sid (w_iter_done w) then go PCall else go (PUnsubLock sid)
          | _ => go PCall
          end
      end.

Definition step_client (w : world) (t : N) (r : role) (prog : list call) (pc : cpc) : option world :=
  match pc with
  | PIdle => invoke w t r prog false
  | PCall =>
      match prog with
      | CGetState :: _ => Some (ret w t r prog (RState (w_state w)))
      | CGetMetrics :: _ => Some (ret w t r prog (RMetrics (w_metrics w)))
      | CAddReducer id :: _ => Some (ret (set_reducers w (w_reducers w ++ [id])) t r prog RUnit)
      | CAddMiddleware id :: _ => Some (ret (set_mws w (w_mws w ++ [id])) t r prog RUnit)
      | CThunk k body :: _ | CTask k body :: _ =>
          if w_pool w then Some (ret (spawn_worker w k (calls_of_body body) true) t r prog RUnit)
          else Some (ret (emit w (ESpawnSkipped k)) t r prog RUnit)
      | CNext _ :: _ | CDrain _ :: _ => Some (ret w t r prog (RItem None))
      | _ => Some (ret w t r prog RUnit)
      end
  | PTaskStart k visible =>
      match r with
      | Worker _ =>
          if visible then Some (set_thread (emit w (ECb (XThread t) (CbEffectRun k))) t (TClient r prog PIdle))
          else invoke w t r prog false   (* the invocation is recorded; no user code observes it *)
      | Client => Some (set_thread w t (TClient r prog PIdle))   (* unreachable: only pool tasks start here *)
      end
  | PDispatchTx e a =>
      if tx_free w then
        if w_tx_open w then
          match dq_phase w (IAct a) SStart with
          | None => None
          | Some (w1, SMore ph) => Some (set_thread w1 t (TClient r prog (PSending e a ph)))
          | Some (w1, SDone ok) => Some (ret w1 t r prog (dispatch_result e ok))
          end
        else
          let w1 := match e with
                    | EDispatcher => w
                    | _ => upd_metrics w (fun m => m_add_errors m 1)
                    end in
          Some (ret w1 t r prog RErr)
      else None
  | PSending e a ph =>
      match dq_phase w (IAct a) ph with
      | None => None
      | Some (w1, SMore ph') => Some (set_thread w1 t (TClient r prog (PSending e a ph')))
      | Some (w1, SDone ok) => Some (ret w1 t r prog (dispatch_result e ok))
      end
  | PCloseTx stop =>
      if tx_free w then
        if w_tx_open w then
          match dq_phase (set_tx_open w false) IExit SStart with
          | None => None
          | Some (w1, SMore ph) => Some (set_thread w1 t (TClient r prog (PCloseSending stop ph)))
          | Some (w1, SDone _) => Some (after_close w1 t r prog stop)
          end
        else if stop then Some (set_thread w t (TClient r prog PStopTake))
        else Some (ret w t r prog RUnit)
      else None
  | PCloseSending stop ph =>
      match dq_phase w IExit ph with
      | None => None
      | Some (w1, SMore ph') => Some (set_thread w1 t (TClient r prog (PCloseSending stop ph')))
      | Some (w1, SDone _) => Some (after_close w1 t r prog stop)
      end
  | PStopTake =>
      if w_pool w then Some (set_thread (emit (set_pool w false) ETakePool) t (TClient r prog PStopJoin))
      else Some (ret w t r prog RUnit)
  | PStopJoin =>
      if pool_idle w then Some (ret w t r prog RUnit) else None
  | PSubsAdd se =>
      if subs_free w then Some (ret (set_subs w (w_subs w ++ [se])) t r prog RUnit) else None
  | PUnsubLock sid =>
      if subs_free w then
        match find_sub (w_subs w) sid with
        | None => Some (finish_unsub w t r prog sid)
        | Some se =>
            let w1 := set_subs w (remove_sub (w_subs w) sid) in
            match se_kind se with
            | SKDirect => Some (finish_unsub (emit w1 (ECb (XThread t) (CbOnUnsub sid))) t r prog sid)
            | SKSelector _ => Some (finish_unsub w1 t r prog sid)
            | SKChan => Some (set_thread w1 t (TClient r prog (PUnsubCtx sid)))
            | SKIter =>
                match sub_phase w1 sid IExit SStart with
                | None => None
                | Some (w2, SMore ph) => Some (set_thread w2 t (TClient r prog (PUnsubIterSend sid ph)))
                | Some (w2, SDone _) => Some (finish_unsub w2 t r prog sid)
                end
            end
        end
      else None
  | PUnsubCtx sid =>
      if ctx_free w sid then
        let w1 := match get_chan (w_chans w) sid with
                  | Some c => set_chan w sid (disconnect c)
                  | None => w
                  end in
        Some (set_thread w1 t (TClient r prog (PUnsubJoin sid)))
      else None
  | PUnsubJoin sid =>
      if chan_thread_finished w sid then Some (finish_unsub w t r prog sid) else None
  | PUnsubIterSend sid ph =>
      match sub_phase w sid IExit ph with
      | None => None
      | Some (w1, SMore ph') => Some (set_thread w1 t (TClient r prog (PUnsubIterSend sid ph')))
      | Some (w1, SDone _) => Some (finish_unsub w1 t r prog sid)
      end
  | PNextRecv sid =>
      match get_chan (w_chans w) sid with
      | None => Some (set_thread w t (TClient r prog (PUnsubLock sid)))
      | Some c =>
          match recv c with
          | None => None
          | Some (Some (IAct x), c') =>
              let w1 := ret (emit (set_chan w sid c') (ESubRecv sid (snd x))) t r prog (RItem (Some x)) in
              match prog with
              | CDrain _ :: _ => Some (set_thread w1 t (TClient r prog PIdle))
              | _ => Some w1
              end
          | Some (Some IExit, c') => Some (set_thread (set_chan w sid c') t (TClient r prog (PUnsubLock sid)))
          | Some (None, _) => Some (set_thread w t (TClient r prog (PUnsubLock sid)))
          end
      end
  end.

(* ================= reducer steps ================= *)
Definition mws_of (w : world) := map (cfg_mw cfg) (w_mws w).
Definition reducers_of (w : world) := map (cfg_reducer cfg) (w_reducers w).

Definition set_rpc (w : world) (pc : rpc) : world := set_thread w reducer_tid (TReducer pc).

(* the action is over: back to recv *)
Definition action_done (w : world) : world := set_rpc w RRecv.

Definition after_spawn (w : world) (a : aid) (s : State) (nd : bool) : world :=
  if nd then set_rpc w (RBeforeDispatch a s) else action_done w.

Definition after_notify (w : world) (a : aid) (s : State) (rest : list subentry) (n : nat) : world :=
  match rest with
  | [] => action_done (upd_metrics w (fun m => m_add_sub_notified m (N.of_nat n)))
  | _ => set_rpc w (RNotify a s rest n)
  end.

Definition after_clear (w : world) (rest : list subentry) : world :=
  match rest with
  | [] => set_rpc (set_subs w []) RDone
  | _ => set_rpc w (RClear rest)
  end.

Definition step_reducer (w : world) (pc : rpc) : option world :=
  match pc with
  | RRecv =>
      match recv (w_dq w) with
      | None => None
      | Some (Some (IAct a), dq') =>
          Some (set_rpc (emit (upd_metrics (set_dq w dq') (fun m => m_add_received m 1)) (EDeq (IAct a)))
                        (RBeforeReduce a))
      | Some (Some IExit, dq') =>
          Some (set_rpc (emit (upd_metrics (set_dq w dq') (fun m => m_add_received m 1)) (EDeq IExit))
                        RClearLock)
      | Some (None, _) => Some (set_rpc w RClearLock)
      end
  | RBeforeReduce a =>
      let '(go, n, evs) := br_phase 0 (mws_of w) a (w_state w) true in
      Some (set_rpc (emits (upd_metrics w (fun m => m_add_mw m (N.of_nat n))) (cb_events XReducer evs))
                    (RReduce a go))
  | RReduce a go =>
      if go then
        let '(s', effs, nd, evs) := run_reducers e_id 0 (reducers_of w) (w_state w) a [] true in
        Some (set_rpc (emit (emits (upd_metrics w (fun m => m_add_reduced m 1)) (cb_events XReducer evs))
                            (EReduced a))
                      (RWrite a s' effs nd))
      else Some (set_rpc w (RWrite a (w_state w) [] true))
  | RWrite a s effs nd =>
      Some (set_rpc (emit (set_state w s) (EWrite a s)) (RBeforeEffect a s effs nd))
  | RBeforeEffect a s effs nd =>
      let '(effs', n, evs) := be_phase e_id 0 (mws_of w) a s effs in
      let w1 := emits (upd_metrics w (fun m => m_add_mw (m_add_issued m (N.of_nat (length effs))) (N.of_nat n)))
                      (cb_events XReducer evs) in
      match effs' with
      | [] => Some (after_spawn w1 a s nd)
      | _ => Some (set_rpc w1 (RSpawn a s effs' nd))
      end
  | RSpawn a s effs nd =>
      match effs with
      | [] => Some (after_spawn w a s nd)
      | e :: rest =>
          let w1 := if w_pool w then spawn_worker w (e_id e) (prog_of_eff e) (eff_visible e)
                    else emit w (ESpawnSkipped (e_id e)) in
          let w2 := upd_metrics w1 (fun m => m_add_executed m 1) in
          match rest with
          | [] => Some (after_spawn w2 a s nd)
          | _ => Some (set_rpc w2 (RSpawn a s rest nd))
          end
      end
  | RBeforeDispatch a s =>
      let '(nn, n, evs) := bd_phase 0 (mws_of w) a s true in
      let w1 := emits (upd_metrics w (fun m => m_add_mw (m_add_state_notified m 1) (N.of_nat n)))
                      (cb_events XReducer evs) in
      if nn then Some (set_rpc w1 (RSnapshot a s)) else Some (action_done w1)
  | RSnapshot a s =>
      if subs_free w then
        let snap := w_subs w in
        Some (after_notify (emit w (ESnapshot a s snap)) a s snap (length snap))
      else None
  | RNotify a s rest n =>
      match rest with
      | [] => Some (after_notify w a s [] n)
      | x :: rest' =>
          match se_kind x with
          | SKDirect =>
              Some (after_notify (emit w (ECb XReducer (CbNotify (se_id x) s a))) a s rest' n)
          | SKSelector sel =>
              let v := cfg_sel cfg sel s in
              let '(last', fired) := sel_notify N.eqb (get_assoc (se_id x) (w_lasts w)) v in
              let w1 := match last' with
                        | Some l => set_lasts w (set_assoc (se_id x) l (w_lasts w))
                        | None => w
                        end in
              let w2 := if fired then emit w1 (ECb XReducer (CbOnChange (se_id x) v a)) else w1 in
              Some (after_notify w2 a s rest' n)
          | SKChan | SKIter =>
              match get_chan (w_chans w) (se_id x) with
              | None => Some (after_notify w a s rest' n)
              | Some c =>
                  if tx_alive c then
                    match sub_phase w (se_id x) (IAct (s, a)) SStart with
                    | None => None
                    | Some (w1, SMore ph) => Some (set_rpc w1 (RNotifySend a s x rest' n ph))
                    | Some (w1, SDone _) => Some (after_notify w1 a s rest' n)
                    end
                  else Some (after_notify w a s rest' n)
              end
          end
      end
  | RNotifySend a s x rest n ph =>
      match sub_phase w (se_id x) (IAct (s, a)) ph with
      | None => None
      | Some (w1, SMore ph') => Some (set_rpc w1 (RNotifySend a s x rest n ph'))
      | Some (w1, SDone _) => Some (after_notify w1 a s rest n)
      end
  | RClearLock =>
      if subs_free w then Some (after_clear w (w_subs w)) else None
  | RClear rest =>
      match rest with
      | [] => Some (after_clear w [])
      | x :: rest' =>
          match se_kind x with
          | SKDirect => Some (after_clear (emit w (ECb XReducer (CbOnUnsub (se_id x)))) rest')
          | SKSelector _ => Some (after_clear w rest')
          | SKChan => Some (set_rpc w (RClearCtx (se_id x) rest'))
          | SKIter =>
              match sub_phase w (se_id x) IExit SStart with
              | None => None
              | Some (w1, SMore ph) => Some (set_rpc w1 (RClearIterSend (se_id x) rest' ph))
              | Some (w1, SDone _) => Some (after_clear w1 rest')
              end
          end
      end
  | RClearCtx sid rest =>
      let w1 := match get_chan (w_chans w) sid with
                | Some c => set_chan w sid (disconnect c)
                | None => w
                end in
      Some (set_rpc w1 (RClearJoin sid rest))
  | RClearJoin sid rest =>
      if chan_thread_finished w sid then Some (after_clear w rest) else None
  | RClearIterSend sid rest ph =>
      match sub_phase w sid IExit ph with
      | None => None
      | Some (w1, SMore ph') => Some (set_rpc w1 (RClearIterSend sid rest ph'))
      | Some (w1, SDone _) => Some (after_clear w1 rest)
      end
  | RDone => None
  end.

(* ================= channeled thread ================= *)
Definition step_chan (w : world) (t : N) (sid : N) (fin : bool) : option world :=
  if fin then None else
  match get_chan (w_chans w) sid with
  | None => None
  | Some c =>
      match recv c with
      | None => None
      | Some (Some (IAct (s, a)), c') =>
          Some (emit (emit (upd_metrics (set_chan w sid c') (fun m => m_add_sub_notified m 1))
                           (ESubRecv sid a))
                     (ECb (XChan sid) (CbNotify sid s a)))
      | Some (Some IExit, c') =>
          Some (set_thread (emit (set_chan w sid c') (ECb (XChan sid) (CbOnUnsub sid))) t (TChan sid true))
      | Some (None, _) =>
          Some (set_thread (emit w (ECb (XChan sid) (CbOnUnsub sid))) t (TChan sid true))
      end
  end.

(* ================= the step function ================= *)
Definition step (w : world) (t : N) : option world :=
  match get_thread (w_threads w) t with
  | None => None
  | Some (TClient r prog pc) => step_client w t r prog pc
  | Some (TReducer pc) => if N.eqb t reducer_tid then step_reducer w pc else None
  | Some (TChan sid fin) => step_chan w t sid fin
  end.

Definition enabled (w : world) (t : N) : bool :=
  match step w t with Some _ => true | None => false end.

Fixpoint run (w : world) (sched : list N) : option world :=
  match sched with
  | [] => Some w
  | t :: r => match step w t with Some w' => run w' r | None => None end
  end.

(* the initial world of a program: client threads 0..n-1 *)
Fixpoint client_threads (i : N) (progs : list (list call)) : list (N * thread) :=
  match progs with
  | [] => []
  | p :: r => (i, TClient Client p PIdle) :: client_threads (i + 1) r
  end.

Definition init_world (reducers mws : list N) (progs : list (list call)) : world :=
  mkWorld (cfg_init cfg) (chan_new (cfg_cap cfg) (cfg_pol cfg)) true reducers mws [] [] [] [] true
          (client_threads 0 progs ++ [(reducer_tid, TReducer RRecv)]) first_worker_tid metrics0 [].

Definition reachable (reducers mws : list N) (progs : list (list call)) (w : world) : Prop :=
  exists sched, run (init_world reducers mws progs) sched = Some w.

(* ---------------- the label of the park point a thread stands at (engine L) ---------------- *)
Inductive label :=
| LClientOp | LClientCall | LTaskStart | LDispatchTx | LDispatcherTx | LChanSend | LChanDo2 | LChanDo3
| LCloseTx | LStopTake | LStopJoin | LSubsAdd | LSubsUnsub | LCtxClear | LChJoin | LChanRecv
| LMwsReduce | LRed | LWrite | LMwsEffect | LSpawn | LMwsDispatch | LSnapshot | LNotify
| LClear | LClearItem | LFinished.

Definition label_of_phase (ph : sphase) : label :=
  match ph with
  | SStart => LChanSend      (* never parked here *)
  | SBlockWait => LChanSend
  | SDo2 => LChanDo2
  | SDo3 => LChanDo3
  end.

Definition label_of_thread (th : thread) : label :=
  match th with
  | TClient _ [] PIdle => LFinished
  | TClient _ _ pc =>
      match pc with
      | PIdle => LClientOp
      | PCall => LClientCall
      | PTaskStart _ _ => LTaskStart
      | PDispatchTx EDispatcher _ => LDispatcherTx
      | PDispatchTx _ _ => LDispatchTx
      | PSending _ _ ph | PCloseSending _ ph | PUnsubIterSend _ ph => label_of_phase ph
      | PCloseTx _ => LCloseTx
      | PStopTake => LStopTake
      | PStopJoin => LStopJoin
      | PSubsAdd _ => LSubsAdd
      | PUnsubLock _ => LSubsUnsub
      | PUnsubCtx _ => LCtxClear
      | PUnsubJoin _ => LChJoin
      | PNextRecv _ => LChanRecv
      end
  | TReducer pc =>
      match pc with
      | RRecv => LChanRecv
      | RBeforeReduce _ => LMwsReduce
      | RReduce _ _ => LRed
      | RWrite _ _ _ _ => LWrite
      | RBeforeEffect _ _ _ _ => LMwsEffect
      | RSpawn _ _ _ _ => LSpawn
      | RBeforeDispatch _ _ => LMwsDispatch
      | RSnapshot _ _ => LSnapshot
      | RNotify _ _ _ _ => LNotify
      | RNotifySend _ _ _ _ _ ph | RClearIterSend _ _ ph => label_of_phase ph
      | RClearLock => LClear
      | RClear _ => LClearItem
      | RClearCtx _ _ => LCtxClear
      | RClearJoin _ _ => LChJoin
      | RDone => LFinished
      end
  | TChan _ true => LFinished
  | TChan _ false => LChanRecv
  end.

End World.
