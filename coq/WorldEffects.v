(* WorldEffects.v — every pool task runs its effect at most once (C11). *)
From RS Require Import Base Channel ChannelProofs Pipeline PipelineProofs Selector Script World WorldTactics Hist WorldProofs WorldInv WorldQueue WorldStop WorldMetrics.

Section WorldEffects.
Context {State : Type}.
Variable cfg : wconfig (State := State).
Variable t0 : N.                    (* the thread we look at *)
Notation world := (world (State := State)).
Notation step := (step cfg).
Notation event := (event (State := State)).
Notation thread := (thread (State := State)).
Implicit Types w : World.world (State := State).
Implicit Types h : list event.

(* effect runs logged by thread t0 *)
Definition c_run (e : event) : N :=
  match e with ECb (XThread t) (CbEffectRun _) => if N.eqb t t0 then 1 else 0 | _ => 0 end.
Definition runs h : N := total c_run h.

Definition eff_ok w : Prop :=
  match get_thread (w_threads w) t0 with
  | Some (TClient _ _ (PTaskStart _ _)) => runs (w_hist w) = 0%N
  | Some _ => (runs (w_hist w) <= 1)%N
  | None => runs (w_hist w) = 0%N
  end.

(* worker ids are fresh: nothing lives at or above the next worker id on the even side *)
Definition fresh_ok w : Prop :=
  N.even (w_next_tid w) = true /\ (1000 <= w_next_tid w)%N /\
  forall t, (w_next_tid w <= t)%N -> N.even t = true -> get_thread (w_threads w) t = None.

Definition inv_eff w : Prop := fresh_ok w /\ eff_ok w.

Lemma runs_dq_events x sr dr : runs (rev (dq_events (State := State) x sr dr)) = 0%N.
Proof. unfold runs. rewrite (total_dq_events c_run 0) by reflexivity. lia. Qed.
Lemma runs_sub_events sid x sr dr : runs (rev (sub_events (State := State) sid x sr dr)) = 0%N.
Proof. unfold runs. rewrite (total_sub_events c_run) by reflexivity. cbn. lia. Qed.
Lemma runs_cb_reducer (l : list (cb State aid)) : runs (rev (map (ECb XReducer) l)) = 0%N.
Proof. unfold runs. rewrite total_rev. apply total_cb_zero. reflexivity. Qed.

Lemma dq_phase_eff w x ph w1 sr : dq_phase w x ph = Some (w1, sr) ->
  runs (w_hist w1) = runs (w_hist w) /\ w_threads w1 = w_threads w /\ w_next_tid w1 = w_next_tid w.
Proof.
  unfold dq_phase. destruct (send_phase (w_dq w) x ph) as [[[dq' sr'] dr]|]; [|discriminate].
  intros H; injection H as <- <-. cbn. unfold runs. rewrite total_app. fold (runs (rev (dq_events x sr' dr))).
  rewrite runs_dq_events. repeat split.
Qed.
Lemma sub_phase_eff w sid x ph w1 sr : sub_phase w sid x ph = Some (w1, sr) ->
  runs (w_hist w1) = runs (w_hist w) /\ w_threads w1 = w_threads w /\ w_next_tid w1 = w_next_tid w.
Proof.
  unfold sub_phase. destruct (get_chan (w_chans w) sid) as [c|]; [|intros H; injection H as <- <-; repeat split].
  destruct (send_phase c x ph) as [[[c' sr'] dr]|]; [|discriminate].
  intros H; injection H as <- <-. cbn. unfold runs. rewrite total_app. fold (runs (rev (sub_events sid x sr' dr))).
  rewrite runs_sub_events. repeat split.
Qed.


Ltac eff_phases :=
  repeat match goal with
  | HH : dq_phase _ _ _ = Some (_, _) |- _ => apply dq_phase_eff in HH; destruct HH as (? & ? & ?)
  | HH : sub_phase _ _ _ _ = Some (_, _) |- _ => apply sub_phase_eff in HH; destruct HH as (? & ? & ?)
  end;
  cbn [w_threads w_next_tid w_hist set_tx_open set_subs] in *.

Ltac rew_eff :=
  simp_world;
  repeat match goal with
  | E : w_threads ?w1 = w_threads _ |- context [w_threads ?w1] => rewrite E
  | E : w_next_tid ?w1 = w_next_tid _ |- context [w_next_tid ?w1] => rewrite E
  | E : runs (w_hist ?w1) = runs (w_hist _) |- context [runs (w_hist ?w1)] => rewrite E
  end.

Lemma even_add2 n : N.even (n + 2) = N.even n.
Proof. replace (n + 2)%N with (n + 2 * 1)%N by lia. apply N.even_add_mul_2. Qed.

(* looking up a tid in a table after some puts: the put at the looked-up tid wins *)
Ltac lookup_put :=
  repeat match goal with
  | |- context [get_thread (put_thread _ ?t1 _) ?t2] =>
      let EQ := fresh "EQ" in let NEQ := fresh "NEQ" in
      destruct (N.eq_dec t2 t1) as [EQ|NEQ];
      [rewrite EQ, get_put_same | rewrite (get_put_other _ t1 t2) by exact NEQ]
  end.

Theorem step_fresh w t w' : fresh_ok w -> step w t = Some w' -> fresh_ok w'.
Proof.
  intros (EV & GE & FR) H. step_cases H; eff_phases.
  all: unfold fresh_ok; rew_eff; rewrite ?even_add2.
  all: split; [exact EV|split; [lia|]].
  all: intros t1 LE EV1.
  all: lookup_put.
  all: try (apply FR; [lia|exact EV1]).
  (* the looked-up tid cannot be one of the tids written by this step *)
  all: exfalso.
  all: try lia.
  all: try (match goal with
            | EQ : ?t1 = ?tt, G : get_thread (w_threads _) ?tt = Some _ |- _ =>
                rewrite <- EQ in G; rewrite FR in G by (first [lia|exact EV1]); discriminate G
            end).
  all: try (match goal with EQ : ?t1 = chan_tid ?sid |- _ =>
              rewrite EQ in EV1; unfold chan_tid in EV1;
              replace (201 + 2 * sid)%N with (1 + 2 * (100 + sid))%N in EV1 by lia;
              rewrite N.even_add_mul_2 in EV1; discriminate EV1 end).
  all: try (unfold reducer_tid in *; lia).
Qed.

Lemma runs_cons e h : runs (e :: h) = (c_run e + runs h)%N.
Proof. reflexivity. Qed.
Lemma runs_app h1 h2 : runs (h1 ++ h2) = (runs h1 + runs h2)%N.
Proof. apply total_app. Qed.

Ltac simp_runs :=
  rew_eff; unfold cb_events;
  repeat (progress (rewrite ?runs_cons, ?runs_app, ?runs_cb_reducer; cbn [c_run])).

Theorem step_eff w t w' : inv_eff w -> step w t = Some w' -> inv_eff w'.
Proof.
  intros [FRESH EFF] H. split; [eapply step_fresh; eauto|].
  destruct FRESH as (EV & GE & FR). unfold eff_ok in *.
  step_cases H; eff_phases.
  all: simp_runs.
  all: lookup_put.
  (* the effect-run event of the stepping thread counts for t0 iff t0 is that thread *)
  all: repeat match goal with
       | EQ : t0 = ?tt |- context [N.eqb ?tt t0] => rewrite <- EQ, N.eqb_refl
       | NEQ : t0 <> ?tt |- context [N.eqb ?tt t0] =>
           replace (N.eqb tt t0) with false by (symmetry; apply N.eqb_neq; congruence)
       end.
  all: rewrite ?N.eqb_refl.
  (* t0 is the stepping thread: its old entry is known *)
  all: try (match goal with
            | EQ : t0 = ?tt, G : get_thread (w_threads _) ?tt = Some _ |- _ =>
                rewrite EQ in EFF; rewrite G in EFF; cbn in EFF; lia
            end).
  (* t0 is a freshly created worker: it had no entry, hence no runs *)
  all: try (match goal with
            | EQ : t0 = w_next_tid _ |- _ =>
                rewrite EQ in EFF; rewrite FR in EFF by (first [lia|exact EV]); lia
            end).
  (* t0 is untouched, or becomes a channeled thread *)
  all: try (destruct (get_thread (w_threads w) t0) as [[? ? []| |]|]; lia).
Qed.

Lemma init_eff reducers mws progs : (length progs <= 100)%nat ->
  inv_eff (init_world cfg reducers mws progs).
Proof.
  intros L. split.
  - split; [reflexivity|split; [unfold init_world; cbn; unfold first_worker_tid; lia|]].
    intros t LE EV. unfold init_world in *. cbn [w_threads w_next_tid] in *.
    destruct (get_thread (client_threads 0 progs ++ [(reducer_tid, TReducer RRecv)]) t) as [th|] eqn:G; [|reflexivity].
    exfalso. apply client_threads_get in G. unfold first_worker_tid, reducer_tid in *. destruct G as [G|[G _]]; lia.
  - unfold eff_ok. cbn [w_hist init_world]. unfold runs. cbn.
    destruct (get_thread _ t0) as [[? ? []| |]|]; lia.
Qed.

End WorldEffects.

(* every thread logs at most one effect run, in every reachable world *)
Theorem effect_runs_at_most_once {State : Type} (cfg : wconfig (State := State)) reducers mws progs w t0 :
  (length progs <= 100)%nat -> reachable cfg reducers mws progs w ->
  (runs t0 (w_hist w) <= 1)%N.
Proof.
  intros L [sched H].
  assert (I : inv_eff t0 w).
  { eapply (run_invariant cfg (inv_eff t0)); [|apply init_eff; exact L|exact H].
    intros; eapply step_eff; eauto. }
  destruct I as [_ E]. unfold eff_ok in E.
  destruct (get_thread (w_threads w) t0) as [[? ? []| |]|]; lia.
Qed.
