(* Selector.v — SelectorSubscriber::on_notify (subscriber.rs:102-113): compare the selected value
   with the last delivered one; deliver and store it iff it differs (or nothing was delivered). *)
From RS Require Import Base.

Section Selector.
Context {V : Type}.
Variable veq : V -> V -> bool.

(* returns the new `last_value` and whether on_change was called *)
Definition sel_notify (last : option V) (v : V) : option V * bool :=
  match last with
  | Some l => if veq l v then (last, false) else (Some v, true)
  | None => (Some v, true)
  end.

(* a stream of (selected value, tag): the delivered (value, tag) pairs and the final last_value *)
Fixpoint sel_stream {T} (last : option V) (l : list (V * T)) : list (V * T) * option V :=
  match l with
  | [] => ([], last)
  | (v, t) :: r =>
      let '(last', fired) := sel_notify last v in
      let '(out, fin) := sel_stream last' r in
      ((if fired then [(v, t)] else []) ++ out, fin)
  end.

(* the specification: remove consecutive duplicates, given the previously delivered value *)
Fixpoint dedup {T} (prev : option V) (l : list (V * T)) : list (V * T) :=
  match l with
  | [] => []
  | (v, t) :: r =>
      match prev with
      | Some p => if veq p v then dedup prev r else (v, t) :: dedup (Some v) r
      | None => (v, t) :: dedup (Some v) r
      end
  end.

End Selector.
