(* WorldProofs.v — invariants of the interleaving model, by induction over the schedule. *)
From RS Require Import Base Channel ChannelProofs Pipeline Selector Script World WorldTactics.

Section WorldProofs.
Context {State : Type}.
Variable cfg : wconfig (State := State).
Notation world := (world (State := State)).
Notation step := (step cfg).
Notation run := (run cfg).
Implicit Types w : World.world (State := State).

(* ---------- generic: an invariant of every step holds along every run ---------- *)
Lemma run_invariant (I : world -> Prop) :
  (forall w t w', I w -> step w t = Some w' -> I w') ->
  forall sched w w', I w -> run w sched = Some w' -> I w'.
Proof.
  intros Hstep. induction sched as [|t r IH]; intros w w' Hw H; cbn in H.
  - now injection H as <-.
  - destruct (step w t) as [w1|] eqn:E; [|discriminate]. eapply IH; [|exact H]. eapply Hstep; eauto.
Qed.

Lemma run_app sched1 sched2 w :
  run w (sched1 ++ sched2) = match run w sched1 with Some w1 => run w1 sched2 | None => None end.
Proof.
  revert w. induction sched1 as [|t r IH]; intros w; cbn; [reflexivity|].
  destruct (step w t); [apply IH|reflexivity].
Qed.

(* ---------- I1: every queue respects its capacity; the dispatch queue keeps its configuration --- *)
Definition chans_bounded (l : list (N * chan (State * aid))) : Prop :=
  forall sid c, get_chan l sid = Some c -> bounded c.

Definition inv_bound (w : world) : Prop :=
  bounded (w_dq w) /\ cap (w_dq w) = cfg_cap cfg /\ pol (w_dq w) = cfg_pol cfg /\
  chans_bounded (w_chans w).

Lemma chans_bounded_put l sid c : chans_bounded l -> bounded c -> chans_bounded (put_chan l sid c).
Proof.
  intros H B s c' G. destruct (N.eq_dec s sid) as [->|Hne].
  - rewrite get_put_chan_same in G. now injection G as <-.
  - rewrite get_put_chan_other in G by assumption. eapply H; eauto.
Qed.

Lemma bounded_new {A} n p : bounded (chan_new (A := A) n p).
Proof. unfold bounded; cbn. lia. Qed.

Lemma bounded_disconnect {A} (c : chan A) : bounded c -> bounded (disconnect c).
Proof. unfold bounded; cbn. auto. Qed.

Lemma bounded_recv {A} (c : chan A) o c' : recv c = Some (o, c') -> bounded c -> bounded c'.
Proof.
  intros R B. apply recv_some in R. destruct R as (C & _ & _ & Q). unfold bounded in *. rewrite C.
  destruct o as [x|]; [rewrite Q in B; cbn in B; lia|]. destruct Q as (_ & -> & _). exact B.
Qed.

Lemma dq_phase_bound w x ph w' sr : dq_phase w x ph = Some (w', sr) -> inv_bound w -> inv_bound w'.
Proof.
  unfold dq_phase. destruct (send_phase (w_dq w) x ph) as [[[dq' sr'] dr]|] eqn:E; [|discriminate].
  intros H; injection H as <- <-. intros (B & C & P & CH).
  apply send_phase_inv in E. destruct E as (C' & P' & _ & B').
  unfold inv_bound; cbn. repeat split; auto; congruence.
Qed.

Lemma sub_phase_bound w sid x ph w' sr : sub_phase w sid x ph = Some (w', sr) -> inv_bound w -> inv_bound w'.
Proof.
  unfold sub_phase. destruct (get_chan (w_chans w) sid) as [c|] eqn:G.
  - destruct (send_phase c x ph) as [[[c' sr'] dr]|] eqn:E; [|discriminate].
    intros H; injection H as <- <-. intros (B & C & P & CH).
    apply send_phase_inv in E. destruct E as (_ & _ & _ & B').
    unfold inv_bound; cbn. repeat split; auto. apply chans_bounded_put; auto. apply B'. eapply CH; eauto.
  - intros H; injection H as <- <-. auto.
Qed.

(* inv_bound only looks at w_dq and w_chans *)
Lemma inv_bound_ext w w' : w_dq w' = w_dq w -> w_chans w' = w_chans w -> inv_bound w -> inv_bound w'.
Proof. unfold inv_bound. intros -> ->. auto. Qed.

Ltac bound_frame :=
  match goal with
  | |- inv_bound _ => first [ assumption | (eapply inv_bound_ext; [| |eassumption]; reflexivity) ]
  end.

Lemma ret_dq w t r prog res : w_dq (ret w t r prog res) = w_dq w /\ w_chans (ret w t r prog res) = w_chans w.
Proof. unfold ret. destruct prog; auto. Qed.

Lemma finish_unsub_dq w t r prog sid :
  w_dq (finish_unsub w t r prog sid) = w_dq w /\ w_chans (finish_unsub w t r prog sid) = w_chans w.
Proof.
  unfold finish_unsub. destruct prog as [|c rest]; [cbn; auto|].
  destruct c; cbn; auto.
Qed.

Lemma inv_bound_ret w t r prog res : inv_bound w -> inv_bound (ret w t r prog res).
Proof. intros H. destruct (ret_dq w t r prog res) as [A B]. eapply inv_bound_ext; eauto. Qed.
Lemma inv_bound_finish_unsub w t r prog sid : inv_bound w -> inv_bound (finish_unsub w t r prog sid).
Proof. intros H. destruct (finish_unsub_dq w t r prog sid) as [A B]. eapply inv_bound_ext; eauto. Qed.


(* how the leaves of the case analysis are closed: the queues are those of w, or went through
   one of the phase lemmas above *)
Ltac bound_leaf :=
  repeat match goal with
  | H : dq_phase _ _ _ = Some _ |- _ => apply dq_phase_bound in H; [|try bound_frame]
  | H : sub_phase _ _ _ _ = Some _ |- _ => apply sub_phase_bound in H; [|try bound_frame]
  end.

Ltac unfold_setters :=
  unfold set_chan, spawn_worker, emit, emits, upd_metrics, set_thread, set_state, set_dq, set_tx_open,
    set_reducers, set_mws, set_subs, set_chans, set_lasts, set_iter_done, set_pool, set_threads,
    set_next_tid, set_metrics, set_hist, set_rpc, action_done in *.

Ltac finish_bound :=
  repeat first [ apply inv_bound_ret | apply inv_bound_finish_unsub ];
  bound_leaf;
  first
  [ assumption
  | (eapply inv_bound_ext; [| |eassumption]; reflexivity)
  | (match goal with I : inv_bound _ |- _ => destruct I as (? & ? & ? & ?) end;
     unfold inv_bound; unfold_setters; cbn in *;
     repeat match goal with
     | H : recv ?c = Some (?o, ?c') |- _ =>
         let R := fresh "R" in
         pose proof (bounded_recv _ _ _ H) as R; apply recv_some in H; destruct H as (? & ? & ? & _)
     end;
     repeat split; eauto using chans_bounded_put, bounded_new, bounded_disconnect; try congruence) ].

Lemma step_client_bound w t r prog pc w' :
  inv_bound w -> step_client w t r prog pc = Some w' -> inv_bound w'.
Proof.
  intros I H. unfold step_client, invoke, after_close in H.
  explode H; inv_some H; finish_bound.
Qed.

Lemma after_spawn_dq w a s nd :
  w_dq (after_spawn w a s nd) = w_dq w /\ w_chans (after_spawn w a s nd) = w_chans w.
Proof. unfold after_spawn. destruct nd; auto. Qed.
Lemma after_notify_dq w a s rest n :
  w_dq (after_notify w a s rest n) = w_dq w /\ w_chans (after_notify w a s rest n) = w_chans w.
Proof. unfold after_notify. destruct rest; auto. Qed.
Lemma after_clear_dq w rest :
  w_dq (after_clear w rest) = w_dq w /\ w_chans (after_clear w rest) = w_chans w.
Proof. unfold after_clear. destruct rest; auto. Qed.
Lemma inv_bound_after_spawn w a s nd : inv_bound w -> inv_bound (after_spawn w a s nd).
Proof. intros H. destruct (after_spawn_dq w a s nd). eapply inv_bound_ext; eauto. Qed.
Lemma inv_bound_after_notify w a s rest n : inv_bound w -> inv_bound (after_notify w a s rest n).
Proof. intros H. destruct (after_notify_dq w a s rest n). eapply inv_bound_ext; eauto. Qed.
Lemma inv_bound_after_clear w rest : inv_bound w -> inv_bound (after_clear w rest).
Proof. intros H. destruct (after_clear_dq w rest). eapply inv_bound_ext; eauto. Qed.

Ltac finish_bound_r :=
  repeat first [ apply inv_bound_after_spawn | apply inv_bound_after_notify | apply inv_bound_after_clear ];
  finish_bound.

Lemma step_reducer_bound w pc w' :
  inv_bound w -> step_reducer cfg w pc = Some w' -> inv_bound w'.
Proof.
  intros I H. unfold step_reducer in H.
  explode H; inv_some H; finish_bound_r.
Qed.

Lemma step_chan_bound w t sid fin w' :
  inv_bound w -> step_chan w t sid fin = Some w' -> inv_bound w'.
Proof.
  intros I H. unfold step_chan in H.
  explode H; inv_some H; finish_bound.
Qed.

Theorem step_bound w t w' : inv_bound w -> step w t = Some w' -> inv_bound w'.
Proof.
  intros I H. unfold World.step in H.
  destruct (get_thread (w_threads w) t) as [[r prog pc|pc|sid fin]|]; [| | |discriminate].
  - eapply step_client_bound; eauto.
  - destruct (N.eqb t reducer_tid); [|discriminate]. eapply step_reducer_bound; eauto.
  - eapply step_chan_bound; eauto.
Qed.

Lemma init_bound reducers mws progs : inv_bound (init_world cfg reducers mws progs).
Proof.
  unfold inv_bound, init_world; cbn. repeat split; try apply bounded_new.
  intros sid c G. discriminate.
Qed.

(* in every reachable world every queue respects its capacity *)
Theorem reachable_bound reducers mws progs w :
  reachable cfg reducers mws progs w -> inv_bound w.
Proof.
  intros [sched H]. eapply (run_invariant inv_bound); [|apply init_bound|exact H].
  intros; eapply step_bound; eauto.
Qed.

End WorldProofs.
