(* WorldSpawn.v — causality of tasks (C11 "after the action that produced it", "on a worker"):
   whatever a pool worker does - running its effect, invoking and returning from the dispatches of
   a thunk body or of an Effect::Action, panicking - it does after the event that handed it to
   the pool (ESpawn); and the reducer hands out the effects of an action only while it is
   processing that action, i.e. after it took it from the queue. Every program, every schedule. *)
From RS Require Import Base Channel ChannelProofs Pipeline PipelineProofs Selector Script World WorldTactics Hist WorldProofs WorldInv WorldQueue WorldStop WorldMetrics WorldEffects.

Section WorldSpawn.
Context {State : Type}.
Variable cfg : wconfig (State := State).
Notation world := (world (State := State)).
Notation step := (step cfg).
Notation event := (event (State := State)).
Notation thread := (thread (State := State)).
Implicit Types w : World.world (State := State).
Implicit Types h : list event.

(* pool workers live at the even identifiers from 1000 on *)
Definition wid (t : N) : bool := N.leb 1000 t && N.even t.

(* the thread an API-level event belongs to (reducer-context and channeled callbacks: none) *)
Definition ev_by (e : event) : option N :=
  match e with
  | EInv t _ | ERet t _ _ | EPanic t => Some t
  | ECb (XThread t) _ => Some t
  | _ => None
  end.
Definition is_spawn (t : N) (e : event) : bool :=
  match e with ESpawn _ t' => N.eqb t' t | _ => false end.
Definition spawned (t : N) h : bool := existsb (is_spawn t) h.

(* every event of a worker is newer than the event that spawned that worker *)
Fixpoint acts_after_spawn h : Prop :=
  match h with
  | [] => True
  | e :: r =>
      match ev_by e with
      | Some t => wid t = true -> spawned t r = true
      | None => True
      end /\ acts_after_spawn r
  end.

Definition thr_spawned w : Prop :=
  forall t th, get_thread (w_threads w) t = Some th -> wid t = true -> spawned t (w_hist w) = true.

(* the action the reducer is processing *)
Definition rpc_action (pc : rpc (State := State)) : option aid :=
  match pc with
  | RBeforeReduce a | RReduce a _ | RWrite a _ _ _ | RBeforeEffect a _ _ _ | RSpawn a _ _ _
  | RBeforeDispatch a _ | RSnapshot a _ | RNotify a _ _ _ | RNotifySend a _ _ _ _ _ => Some a
  | _ => None
  end.
Definition taken_ok w : Prop :=
  forall pc a, get_thread (w_threads w) reducer_tid = Some (TReducer pc) -> rpc_action pc = Some a ->
    In (EDeq (IAct a)) (w_hist w).

Definition inv_sp w : Prop := acts_after_spawn (w_hist w) /\ thr_spawned w /\ taken_ok w.

(* ---------- lists of new events ---------- *)
Definition by_ok (t : N) (e : event) : bool :=
  match ev_by e with Some t' => N.eqb t' t | None => true end.

Lemma spawned_app t l h : spawned t h = true -> spawned t (l ++ h) = true.
Proof. unfold spawned. intros E. rewrite existsb_app, E. apply orb_true_r. Qed.

Lemma aas_ext h l t : forallb (by_ok t) l = true -> (wid t = true -> spawned t h = true) ->
  acts_after_spawn h -> acts_after_spawn (l ++ h).
Proof.
  intros Q S A. induction l as [|e r IH]; [exact A|]. cbn [forallb] in Q. apply andb_true_iff in Q.
  destruct Q as [Q1 Q2]. cbn [app acts_after_spawn]. split; [|auto].
  unfold by_ok in Q1. destruct (ev_by e) as [t'|]; [|exact I]. apply N.eqb_eq in Q1. subst t'.
  intros W. apply spawned_app. auto.
Qed.

Lemma by_ok_cb t x (l : list (cb State aid)) : (match x with XThread t' => N.eqb t' t | _ => true end) = true ->
  forallb (by_ok t) (rev (map (ECb x) l)) = true.
Proof.
  intros X. induction l as [|c r IH]; [reflexivity|]. cbn. rewrite forallb_app, IH. cbn.
  unfold by_ok. destruct x; cbn; try reflexivity. now rewrite X.
Qed.
Lemma by_ok_none t (l : list event) : (forall e, In e l -> ev_by e = None) -> forallb (by_ok t) l = true.
Proof.
  induction l as [|e r IH]; [reflexivity|]. intros H. cbn [forallb]. rewrite IH by (intros; apply H; now right).
  unfold by_ok. rewrite (H e (or_introl eq_refl)). reflexivity.
Qed.
Lemma by_ok_dq t x sr dr : forallb (by_ok t) (rev (dq_events (State := State) x sr dr)) = true.
Proof.
  apply by_ok_none. intros e I. apply in_rev in I. unfold dq_events in I. apply in_app_or in I.
  destruct I as [I|I].
  - apply in_map_iff in I. destruct I as (? & <- & _). destruct sr as [?|[|]]; reflexivity.
  - destruct sr as [?|[|]]; try destruct x; cbn in I; try contradiction; destruct I as [<-|[]]; reflexivity.
Qed.
Lemma by_ok_sub t s x sr dr : forallb (by_ok t) (rev (sub_events (State := State) s x sr dr)) = true.
Proof.
  apply by_ok_none. intros e I. apply in_rev in I. unfold sub_events in I. apply in_app_or in I.
  destruct I as [I|I].
  - apply in_map_iff in I. destruct I as (? & <- & _). reflexivity.
  - destruct sr as [?|[|]]; try destruct x as [[? ?]|]; cbn in I; try contradiction; destruct I as [<-|[]]; reflexivity.
Qed.

(* ---------- the generic step of thread t ---------- *)
Lemma sp_ext w0 w1 l t th0 : get_thread (w_threads w0) t = Some th0 ->
  w_hist w1 = l ++ w_hist w0 -> forallb (by_ok t) l = true ->
  (forall t' th', get_thread (w_threads w1) t' = Some th' ->
     (exists th'', get_thread (w_threads w0) t' = Some th'') \/ wid t' = false \/ spawned t' l = true) ->
  (forall pc a, get_thread (w_threads w1) reducer_tid = Some (TReducer pc) -> rpc_action pc = Some a ->
     In (EDeq (IAct a)) l \/
     exists pc0, get_thread (w_threads w0) reducer_tid = Some (TReducer pc0) /\ rpc_action pc0 = Some a) ->
  inv_sp w0 -> inv_sp w1.
Proof.
  intros G E Q TH RD (A & S & K). unfold inv_sp. rewrite E. split; [|split].
  - apply (aas_ext _ l t Q); [intros W; exact (S t th0 G W)|exact A].
  - intros t' th' G' W. unfold thr_spawned in S. rewrite E.
    destruct (TH t' th' G') as [(th'' & G0)|[F|SP]].
    + apply spawned_app. eapply S; eauto.
    + congruence.
    + unfold spawned in *. rewrite existsb_app, SP. reflexivity.
  - intros pc a G' RA. rewrite E. apply in_or_app. destruct (RD pc a G' RA) as [X|(pc0 & G0 & R0)]; [now left|right].
    eapply K; eauto.
Qed.

Lemma dq_phase_sp w x ph w1 sr t th0 : get_thread (w_threads w) t = Some th0 ->
  dq_phase w x ph = Some (w1, sr) -> inv_sp w -> inv_sp w1.
Proof.
  intros G. unfold dq_phase. destruct (send_phase (w_dq w) x ph) as [[[dq' sr'] dr]|]; [|discriminate].
  intros H; injection H as <- <-. apply (sp_ext w _ (rev (dq_events x sr' dr)) t th0 G); [reflexivity|apply by_ok_dq| |].
  - intros t' th' G'. left. eauto.
  - intros pc a G' RA. right. eauto.
Qed.
Lemma sub_phase_sp w s x ph w1 sr t th0 : get_thread (w_threads w) t = Some th0 ->
  sub_phase w s x ph = Some (w1, sr) -> inv_sp w -> inv_sp w1.
Proof.
  intros G. unfold sub_phase. destruct (get_chan (w_chans w) s) as [c|]; [|intros H; injection H as <- <-; auto].
  destruct (send_phase c x ph) as [[[c' sr'] dr]|]; [|discriminate].
  intros H; injection H as <- <-. apply (sp_ext w _ (rev (sub_events s x sr' dr)) t th0 G); [reflexivity|apply by_ok_sub| |].
  - intros t' th' G'. left. eauto.
  - intros pc a G' RA. right. eauto.
Qed.


Lemma wid_chan s : wid (chan_tid s) = false.
Proof.
  unfold wid, chan_tid. replace (201 + 2 * s)%N with (1 + 2 * (100 + s))%N by lia.
  rewrite N.even_add_mul_2. cbn. apply andb_false_r.
Qed.
Lemma wid_reducer : wid reducer_tid = false.
Proof. reflexivity. Qed.

Ltac hist_prefix h base :=
  lazymatch h with
  | base => constr:(@nil (World.event (State := State)))
  | ?e :: ?r => let p := hist_prefix r base in constr:(e :: p)
  | ?l ++ ?r => let p := hist_prefix r base in constr:(l ++ p)
  end.
Ltac hist_eq := cbn [app]; rewrite ?app_nil_r, <- ?app_assoc; reflexivity.
Ltac whist w1 :=
  let h := eval cbn [w_hist set_chan spawn_worker emit emits upd_metrics set_thread set_state set_dq
                     set_tx_open set_reducers set_mws set_subs set_chans set_lasts set_iter_done
                     set_pool set_threads set_next_tid set_metrics set_hist set_rpc] in (w_hist w1) in
  let hh := eval unfold cb_events in h in hh.

Ltac by_side :=
  cbn [forallb by_ok ev_by andb app]; rewrite ?forallb_app, ?N.eqb_refl;
  repeat (rewrite by_ok_cb by (cbn; rewrite ?N.eqb_refl; reflexivity));
  cbn [forallb by_ok ev_by andb app]; rewrite ?N.eqb_refl; reflexivity.

Ltac threads_side :=
  let t' := fresh "t'" in let th' := fresh "th'" in let G' := fresh "G'" in
  intros t' th' G'; revert G'; rew_frames; intros G';
  repeat match type of G' with
  | get_thread (put_thread _ ?k _) ?t0 = _ =>
      let EQ := fresh "EQ" in
      destruct (N.eq_dec t0 k) as [EQ|EQ];
      [ rewrite EQ in G' |- *;
        first [ (left; eexists; eassumption)
              | (right; left; first [apply wid_chan | apply wid_reducer])
              | (right; right; cbn [spawned existsb is_spawn app]; rewrite ?existsb_app; cbn [existsb is_spawn];
                 rewrite ?N.eqb_refl, ?orb_true_r; reflexivity) ]
      | rewrite get_put_other in G' by exact EQ ]
  end;
  try (left; eexists; exact G').

Ltac reducer_side :=
  let pc := fresh "pc" in let a := fresh "a" in let G' := fresh "G'" in let RA := fresh "RA" in
  intros pc a G' RA; revert G'; rew_frames; intros G';
  first
  [ (* the reducer's own step *)
    (rewrite get_put_same in G'; injection G' as <-; cbn [rpc_action] in RA;
     first [ discriminate RA
           | (injection RA as <-;
              first [ (left; cbn [In app]; rewrite ?in_app_iff; cbn [In]; tauto)
                    | (right; eexists; split; [eassumption|reflexivity]) ]) ])
  | (* a step of another thread *)
    (right; exists pc; split; [|exact RA];
     repeat match type of G' with
       | get_thread (put_thread _ ?t' _) reducer_tid = _ =>
           let EQ := fresh "EQ" in
           destruct (N.eq_dec reducer_tid t') as [EQ|EQ];
           [ rewrite <- EQ in G'; rewrite get_put_same in G'; discriminate G'
           | rewrite get_put_other in G' by exact EQ ]
       end; exact G') ].

Theorem step_sp w t w' : inv_sp w -> step w t = Some w' -> inv_sp w'.
Proof.
  intros IV H. step_cases H.
  all: try (match goal with HB : (_ =? reducer_tid)%N = true |- _ => apply N.eqb_eq in HB; subst end).
  all: repeat match goal with
       | HH : dq_phase ?w0 _ _ = Some (?w1, _), I0 : inv_sp _, G : get_thread (w_threads _) _ = Some _ |- _ =>
           let J := fresh "J" in
           assert (J : inv_sp w1) by (eapply dq_phase_sp; [|exact HH|exact I0]; first [exact G | (cbn [w_threads set_tx_open set_subs]; exact G)]);
           clear I0
       | HH : sub_phase ?w0 _ _ _ = Some (?w1, _), I0 : inv_sp _, G : get_thread (w_threads _) _ = Some _ |- _ =>
           let J := fresh "J" in
           assert (J : inv_sp w1) by (eapply sub_phase_sp; [|exact HH|exact I0]; first [exact G | (cbn [w_threads set_tx_open set_subs]; exact G)]);
           clear I0
       end.
  all: use_frames.
  all: try (match goal with
            | J : inv_sp ?w0, G : get_thread (w_threads _) ?t0 = Some ?th0 |- inv_sp ?w1 =>
                let hh := whist w1 in
                let p := hist_prefix hh (w_hist w0) in
                apply (sp_ext w0 w1 p t0 th0);
                [ rew_frames; exact G | unfold cb_events; simp_world; hist_eq | by_side | threads_side
                | reducer_side | exact J ]
            end; fail).
Qed.


Lemma init_sp reducers mws progs : (length progs <= 100)%nat -> inv_sp (init_world cfg reducers mws progs).
Proof.
  intros L. split; [exact I|split].
  - intros t th G W. exfalso. unfold init_world in G. cbn [w_threads] in G.
    apply client_threads_get in G. unfold wid in W. apply andb_true_iff in W. destruct W as [W _].
    apply N.leb_le in W. unfold reducer_tid in *. destruct G as [G|[G _]]; lia.
  - intros pc a G RA. unfold init_world in G. cbn [w_threads] in G.
    rewrite client_threads_reducer in G by (unfold reducer_tid; lia). injection G as <-. discriminate RA.
Qed.

Theorem reachable_sp reducers mws progs w : (length progs <= 100)%nat ->
  reachable cfg reducers mws progs w -> inv_sp w.
Proof.
  intros L [sched H]. eapply (run_invariant cfg inv_sp); [|apply init_sp; exact L|exact H].
  intros; eapply step_sp; eauto.
Qed.

(* whatever a pool worker does, it does after it was handed to the pool *)
Theorem worker_acts_after_spawn reducers mws progs w h2 e h1 t : (length progs <= 100)%nat ->
  reachable cfg reducers mws progs w -> w_hist w = h2 ++ e :: h1 -> ev_by e = Some t -> wid t = true ->
  spawned t h1 = true.
Proof.
  intros L R E B W. destruct (reachable_sp _ _ _ _ L R) as (A & _ & _). rewrite E in A. clear E.
  induction h2 as [|x r IH]; cbn [app acts_after_spawn] in A; [|exact (IH (proj2 A))].
  destruct A as [A _]. rewrite B in A. auto.
Qed.

(* the reducer hands out effects (and does everything else it does for an action) only after it
   took that action from the queue *)
Theorem reducer_works_on_taken_action reducers mws progs w pc a : (length progs <= 100)%nat ->
  reachable cfg reducers mws progs w ->
  get_thread (w_threads w) reducer_tid = Some (TReducer pc) -> rpc_action pc = Some a ->
  In (EDeq (IAct a)) (w_hist w).
Proof. intros L R G RA. destruct (reachable_sp _ _ _ _ L R) as (_ & _ & K). eapply K; eauto. Qed.

End WorldSpawn.
