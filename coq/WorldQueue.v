(* WorldQueue.v — the dispatch queue: conservation, FIFO, losslessness under BlockOnFull
   (C01 exactly-once, C02 order of survivors, C05 lossless, C06 conservation). *)
From Coq Require Import Permutation.
From RS Require Import Base Channel ChannelProofs Pipeline PipelineProofs Selector Script World WorldTactics Hist WorldProofs WorldInv.

Section WorldQueue.
Context {State : Type}.
Variable cfg : wconfig (State := State).
Notation world := (world (State := State)).
Notation step := (step cfg).
Notation event := (event (State := State)).
Notation thread := (thread (State := State)).
Implicit Types w : World.world (State := State).
Implicit Types h : list event.

(* ---------- list facts ---------- *)
Lemma subseq_refl {A} (l : list A) : subseq l l.
Proof. induction l; [constructor|apply subseq_take; auto]. Qed.
Lemma subseq_nil_l {A} (l : list A) : subseq [] l.
Proof. induction l; [constructor|apply subseq_skip; auto]. Qed.
Lemma subseq_app {A} (a b c d : list A) : subseq a b -> subseq c d -> subseq (a ++ c) (b ++ d).
Proof.
  induction 1; cbn; intros; auto; [apply subseq_skip|apply subseq_take]; auto.
Qed.
Lemma subseq_remove_mid {A} (l1 l2 l : list A) x : subseq (l1 ++ x :: l2) l -> subseq (l1 ++ l2) l.
Proof.
  remember (l1 ++ x :: l2) as m eqn:E. intros S. revert l1 E.
  induction S as [|y m l S IH|y m l S IH]; intros l1 E.
  - destruct l1; discriminate.
  - constructor. apply IH. exact E.
  - destruct l1 as [|z l1]; cbn in E.
    + injection E as -> ->. constructor. exact S.
    + injection E as -> ->. cbn. apply subseq_take. apply IH. reflexivity.
Qed.
Lemma subseq_length {A} (l1 l2 : list A) : subseq l1 l2 -> length l1 <= length l2.
Proof. induction 1; cbn; lia. Qed.
Lemma subseq_same_length {A} (l1 l2 : list A) : subseq l1 l2 -> length l1 = length l2 -> l1 = l2.
Proof.
  induction 1 as [|x l1 l2 S IH|x l1 l2 S IH]; cbn; intros L; auto.
  - apply subseq_length in S. lia.
  - f_equal. apply IH. lia.
Qed.
Lemma acts_app {A} (l1 l2 : list (item A)) : acts (l1 ++ l2) = acts l1 ++ acts l2.
Proof. induction l1 as [|[a|] r IH]; cbn; auto. now rewrite IH. Qed.

(* ---------- invariants over the thread table ---------- *)
Definition threads_all (P : thread -> Prop) (l : list (N * thread)) : Prop :=
  forall t th, get_thread l t = Some th -> P th.

Lemma threads_all_put P l t th : threads_all P l -> P th -> threads_all P (put_thread l t th).
Proof.
  intros H Hp t0 th0 G. destruct (N.eq_dec t0 t) as [->|Hne].
  - rewrite get_put_same in G. now injection G as <-.
  - rewrite get_put_other in G by assumption. eapply H; eauto.
Qed.

(* the phase a dispatch-queue sender is parked in fits the policy *)
Definition ph_ok (p : policy) (ph : sphase) : Prop :=
  match p with
  | Block => ph = SBlockWait
  | DropOldest => ph = SDo2 \/ ph = SDo3
  | DropLatest => False
  end.
Definition dq_phase_ok (th : thread) : Prop :=
  match th with
  | TClient _ _ (PSending _ _ ph) | TClient _ _ (PCloseSending _ ph) => ph_ok (cfg_pol cfg) ph
  | _ => True
  end.

Lemma send_phase_next_ok (c : chan aid) x ph c' ph' dr :
  (ph = SStart \/ ph_ok (pol c) ph) -> send_phase c x ph = Some (c', SMore ph', dr) -> ph_ok (pol c) ph'.
Proof.
  destruct ph; cbn.
  - intros _. destruct (pol c); [|destruct (try_send c x)..]; intros H; inversion H; subst; cbn; auto.
  - unfold send_block. destruct (try_send c x); discriminate.
  - intros [E|Hok]; [discriminate|].
    destruct (pol c) eqn:PC; cbn in *; try discriminate; try contradiction.
    destruct (try_recv c). intros H; inversion H; subst. auto.
  - destruct (try_send c x); discriminate.
Qed.

(* ---------- I2: the dispatch queue ---------- *)
(* projections of the events of a dispatch-queue phase *)
Lemma proj_map_const {X} (f : event -> list X) (g : aid -> event) l :
  (forall a, f (g a) = []) -> flat_map f (rev (map g l)) = [].
Proof.
  intros H. induction l as [|c r IH]; [reflexivity|]. cbn. rewrite flat_map_app, IH. cbn. now rewrite H.
Qed.

Lemma dq_events_done_true (x : item aid) : 
  rev (dq_events (State := State) x (SDone true) []) = match x with IAct a => [EEnq a] | IExit => [EEnqExit] end.
Proof. destruct x; reflexivity. Qed.


Definition inv_q_lists w : Prop :=
  let h := w_hist w in
  let qa := rev (acts (q (w_dq w))) in
  pol (w_dq w) = cfg_pol cfg /\
  Permutation (enqs h) (qa ++ deqs h ++ drops h) /\
  subseq (qa ++ deqs h) (enqs h) /\
  (cfg_pol cfg = Block -> drops h = [] /\ rejects h = []).

Lemma dq_phase_lists w x ph w1 sr :
  dq_phase w x ph = Some (w1, sr) -> (ph = SStart \/ ph_ok (cfg_pol cfg) ph) -> inv_q_lists w ->
  inv_q_lists w1 /\ w_threads w1 = w_threads w /\ (forall ph', sr = SMore ph' -> ph_ok (cfg_pol cfg) ph').
Proof.
  unfold dq_phase. destruct (send_phase (w_dq w) x ph) as [[[dq' sr'] dr]|] eqn:E; [|discriminate].
  intros H; injection H as <- <-. intros Hph (P & PERM & SUB & BLK).
  pose proof (send_phase_inv _ _ _ _ _ _ E) as (_ & P' & _ & _).
  split; [|split; [reflexivity|]].
  2:{ intros ph' ->. rewrite <- P. eapply send_phase_next_ok; [|exact E]. now rewrite P. }
  unfold inv_q_lists, emits, upd_metrics, set_dq, set_hist, set_metrics. cbn [w_hist w_dq].
  unfold enqs, deqs, drops, rejects in *. rewrite !flat_map_app.
  split; [congruence|].
  apply send_phase_contents in E. destruct E as [(Q & -> & ->)|[(old & Q & -> & -> & -> & PO)|(Q & NT & D)]].
  - (* the item was appended *)
    rewrite Q, acts_app, rev_app_distr. destruct x as [a|]; cbn.
    + split; [now apply perm_skip|split; [now apply subseq_take|exact BLK]].
    + split; [exact PERM|split; [exact SUB|exact BLK]].
  - (* DropOldest evicted the head *)
    rewrite Q in PERM, SUB. destruct old as [b|]; cbn in *.
    + rewrite <- !app_assoc in *. cbn in *. split; [|split].
      * etransitivity; [exact PERM|].
        apply Permutation_app_head. apply Permutation_middle.
      * eapply subseq_remove_mid. exact SUB.
      * intros B. destruct Hph as [HH|HH]; [discriminate|]. rewrite B in HH. discriminate.
    + split; [exact PERM|split; [exact SUB|exact BLK]].
  - (* the queue is unchanged *)
    rewrite Q. destruct D as [->|(-> & PL & -> & ->)].
    + assert (EV : dq_events (State := State) x sr' [] = []).
      { unfold dq_events. destruct sr' as [?|[|]]; [reflexivity| |reflexivity]. exfalso. now apply NT. }
      rewrite EV. cbn. split; [exact PERM|split; [exact SUB|exact BLK]].
    + destruct x as [a|]; cbn; (split; [exact PERM|split; [exact SUB|]]);
        intros B; rewrite P, B in PL; discriminate.
Qed.


Lemma sub_phase_lists w sid x ph w1 sr :
  sub_phase w sid x ph = Some (w1, sr) -> inv_q_lists w -> inv_q_lists w1 /\ w_threads w1 = w_threads w.
Proof.
  unfold sub_phase. destruct (get_chan (w_chans w) sid) as [c|].
  - destruct (send_phase c x ph) as [[[c' sr'] dr]|]; [|discriminate].
    intros H; injection H as <- <-. intros I. split; [|reflexivity].
    unfold inv_q_lists, emits, upd_metrics, set_chan, set_chans, set_hist, set_metrics in *. cbn [w_hist w_dq] in *.
    unfold enqs, deqs, drops, rejects in *. rewrite !flat_map_app.
    assert (Z : forall {X} (f : event -> list X), (forall s, f (ESubDrop s) = []) -> (forall s a, f (ESubSend s a) = []) ->
                flat_map f (rev (sub_events sid x sr' dr)) = []).
    { intros X f H1 H2. unfold sub_events. rewrite rev_app_distr, flat_map_app.
      rewrite (proj_subdrop f sid dr) by exact H1. rewrite app_nil_r.
      destruct sr' as [?|[|]]; [|destruct x as [[s0 a0]|]|]; cbn; rewrite ?H2; reflexivity. }
    rewrite !Z by reflexivity. exact I.
  - intros H; injection H as <- <-. auto.
Qed.

Definition inv_queue w : Prop := threads_all dq_phase_ok (w_threads w) /\ inv_q_lists w.

Ltac q_phases T :=
  repeat match goal with
  | H : dq_phase ?w0 ?x SStart = Some (?w1, ?sr), I : inv_q_lists _ |- _ =>
      apply dq_phase_lists in H; [destruct H as (? & ? & ?); clear I|left; reflexivity|exact I]
  | H : dq_phase ?w0 ?x ?ph = Some (?w1, ?sr), I : inv_q_lists _, G : get_thread _ _ = Some _ |- _ =>
      apply dq_phase_lists in H;
      [destruct H as (? & ? & ?); clear I|right; exact (T _ _ G)|exact I]
  | H : sub_phase ?w0 _ _ _ = Some (?w1, ?sr), I : inv_q_lists _ |- _ =>
      apply sub_phase_lists in H; [destruct H as (? & ?); clear I|exact I]
  end.

Ltac simp_lists :=
  unfold inv_q_lists, enqs, deqs, drops, rejects in *; simp_world; unfold cb_events;
  repeat (progress (repeat first [ rewrite flat_map_app | rewrite (proj_cb ev_enq) by reflexivity
               | rewrite (proj_cb ev_deq) by reflexivity | rewrite (proj_cb ev_drop) by reflexivity
               | rewrite (proj_cb ev_reject) by reflexivity ];
  cbn [flat_map ev_enq ev_deq ev_drop ev_reject app q pol disconnect])).

Ltac solve_threads T :=
  simp_world;
  repeat match goal with
  | E : w_threads ?w1 = w_threads ?w0 |- context [w_threads ?w1] => rewrite E
  end;
  repeat (apply threads_all_put; [|cbn; auto]); try exact T.


Lemma recv_lists w w1 x c :
  recv (w_dq w) = Some (Some x, c) -> w_dq w1 = c -> w_hist w1 = EDeq x :: w_hist w ->
  inv_q_lists w -> inv_q_lists w1.
Proof.
  intros R D Hh (P & PERM & SUB & BLK). apply recv_some in R. destruct R as (_ & P' & _ & Q).
  unfold inv_q_lists. rewrite D, Hh. unfold enqs, deqs, drops, rejects in *.
  rewrite Q in PERM, SUB. split; [congruence|].
  destruct x as [a|]; cbn in *.
  - rewrite <- !app_assoc in *. cbn in *. split; [exact PERM|split; [exact SUB|exact BLK]].
  - split; [exact PERM|split; [exact SUB|exact BLK]].
Qed.

Theorem step_queue w t w' : inv_queue w -> step w t = Some w' -> inv_queue w'.
Proof.
  intros [T I] H. step_cases H; q_phases T; (split; [solve_threads T|]).
  all: try (simp_lists; first [exact I | assumption]).
  all: eapply recv_lists; [eassumption|reflexivity|reflexivity|exact I].
Qed.

Lemma init_queue reducers mws progs : inv_queue (init_world cfg reducers mws progs).
Proof.
  split.
  - intros t th G. unfold init_world in G. cbn in G.
    assert (A : forall l i, get_thread (client_threads (State := State) i l ++ [(reducer_tid, TReducer RRecv)]) t = Some th ->
                dq_phase_ok th).
    { induction l as [|p r IH]; intros i; cbn.
      - destruct (N.eqb t reducer_tid); [|discriminate]. intros E; injection E as <-. exact I.
      - destruct (N.eqb t i); [intros E; injection E as <-; exact I|apply IH]. }
    eapply A; eauto.
  - unfold inv_q_lists, init_world; cbn. repeat split; auto; constructor.
Qed.

Theorem reachable_queue reducers mws progs w :
  reachable cfg reducers mws progs w -> inv_queue w.
Proof.
  intros [sched H]. eapply (run_invariant cfg inv_queue); [|apply init_queue|exact H].
  intros; eapply step_queue; eauto.
Qed.

(* under BlockOnFull nothing is ever dropped or rejected and the queue is exactly what was
   enqueued and not yet taken, in order *)
Corollary block_lossless w : inv_queue w -> cfg_pol cfg = Block ->
  drops (w_hist w) = [] /\ rejects (w_hist w) = [] /\
  rev (enqs (w_hist w)) = rev (deqs (w_hist w)) ++ acts (q (w_dq w)).
Proof.
  intros [_ (P & PERM & SUB & BLK)] B. destruct (BLK B) as [D R]. split; [exact D|split; [exact R|]].
  rewrite D, app_nil_r in PERM.
  assert (E : rev (acts (q (w_dq w))) ++ deqs (w_hist w) = enqs (w_hist w)).
  { apply subseq_same_length; [exact SUB|]. symmetry. apply Permutation_length. exact PERM. }
  rewrite <- E, rev_app_distr, rev_involutive. reflexivity.
Qed.

(* every policy: what the reducer takes is an order-preserving subsequence of what entered *)
Corollary taken_in_enqueue_order w : inv_queue w ->
  subseq (deqs (w_hist w)) (enqs (w_hist w)).
Proof.
  intros [_ (_ & _ & SUB & _)].
  replace (deqs (w_hist w)) with ([] ++ deqs (w_hist w)) by reflexivity.
  remember (rev (acts (q (w_dq w)))) as l. clear Heql.
  induction l as [|x l IH]; [exact SUB|]. apply IH. apply (subseq_remove_mid [] _ _ x). exact SUB.
Qed.

End WorldQueue.

