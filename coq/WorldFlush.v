(* WorldFlush.v — channeled subscribers (C10, C04): when the thread of a channeled subscriber has
   ended, its channel is disconnected and EMPTY: everything that was queued for it has been
   delivered. unsubscribe() and the shutdown release return only after that thread has ended
   (PUnsubJoin / RClearJoin), hence only after the flush. Proved for programs without state
   iterators (whose early release is the known finding F5). *)
From RS Require Import Base Channel ChannelProofs Pipeline PipelineProofs Selector Script World WorldTactics Hist WorldProofs WorldInv WorldQueue WorldStop WorldSubs.

Section WorldFlush.
Context {State : Type}.
Variable cfg : wconfig (State := State).
Notation world := (world (State := State)).
Notation step := (step cfg).
Notation event := (event (State := State)).
Notation thread := (thread (State := State)).
Implicit Types w : World.world (State := State).

(* ---------- the fragment: no state iterators ---------- *)
Definition cf_call (c : call) : Prop :=
  match c with CIter _ _ _ | CNext _ | CDropIter _ | CDrain _ => False | _ => True end.
Definition noiter_kind (k : subkind) : bool := match k with SKIter => false | _ => true end.
Definition noiter (l : list subentry) : Prop := forallb (fun s => noiter_kind (se_kind s)) l = true.
Definition cf_cpc (pc : cpc) : Prop :=
  match pc with
  | PUnsubIterSend _ _ | PNextRecv _ => False
  | PSubsAdd se => noiter_kind (se_kind se) = true
  | _ => True
  end.
Definition cf_rpc (pc : rpc (State := State)) : Prop :=
  match pc with
  | RNotify _ _ rest _ => noiter rest
  | RNotifySend _ _ cur rest _ _ => se_kind cur = SKChan /\ noiter rest
  | RClear rest | RClearCtx _ rest | RClearJoin _ rest => noiter rest
  | RClearIterSend _ _ _ => False
  | _ => True
  end.
Definition cf_thread (th : thread) : Prop :=
  match th with
  | TClient _ prog pc => Forall cf_call prog /\ cf_cpc pc
  | TReducer pc => cf_rpc pc
  | TChan _ _ => True
  end.
Definition inv_cf w : Prop := threads_all cf_thread (w_threads w) /\ noiter (w_subs w).

Lemma cf_body b : Forall cf_call (calls_of_body b).
Proof. induction b as [|[e a| |] r IH]; cbn; auto; constructor; cbn; auto. Qed.
Lemma cf_eff e : Forall cf_call (prog_of_eff e).
Proof. unfold prog_of_eff. destruct (e_kind e); try apply cf_body. constructor; cbn; auto. Qed.

Lemma noiter_app l x : noiter l -> noiter_kind (se_kind x) = true -> noiter (l ++ [x]).
Proof. unfold noiter. intros H K. rewrite forallb_app, H. cbn. now rewrite K. Qed.
Lemma noiter_remove l sid : noiter l -> noiter (remove_sub l sid).
Proof.
  unfold noiter, remove_sub. induction l as [|x r IH]; cbn; auto. intros H.
  apply andb_true_iff in H. destruct H as [H1 H2]. destruct (negb _); cbn; [rewrite H1|]; auto.
Qed.
Lemma noiter_find l sid se : noiter l -> find_sub l sid = Some se -> noiter_kind (se_kind se) = true.
Proof.
  unfold noiter. induction l as [|x r IH]; cbn; [discriminate|]. intros H.
  apply andb_true_iff in H. destruct H as [H1 H2]. destruct (N.eqb (se_id x) sid); [intros E; injection E as <-; exact H1|auto].
Qed.
Lemma noiter_tail x l : noiter (x :: l) -> noiter_kind (se_kind x) = true /\ noiter l.
Proof. unfold noiter. cbn. intros H. apply andb_true_iff in H. exact H. Qed.

Theorem step_cf w t w' : inv_cf w -> step w t = Some w' -> inv_cf w'.
Proof.
  intros [T S] H. step_cases H; use_frames.
  all: match goal with G : get_thread (w_threads _) _ = Some ?th |- _ =>
         let F := fresh "FT" in pose proof (T _ _ G) as F; cbn [cf_thread cf_cpc cf_rpc] in F end.
  all: try contradiction.
  all: try (match goal with F : Forall cf_call _ /\ _ |- _ =>
              let FP := fresh "FP" in let FC := fresh "FC" in destruct F as [FP FC]; try contradiction;
              try (inversion FP; subst; match goal with HC : cf_call _ |- _ => cbn in HC; try contradiction end) end).
  all: try (match goal with F : _ = SKChan /\ noiter _ |- _ => destruct F as [FK FN] end).
  all: try (match goal with F : noiter (_ :: _) |- _ =>
              let FH := fresh "FH" in let FR := fresh "FR" in
              destruct (noiter_tail _ _ F) as [FH FR] end).
  all: try (match goal with
            | FH : noiter_kind (se_kind ?s0) = true, K : se_kind ?s0 = SKIter |- _ => rewrite K in FH; discriminate FH
            end).
  all: try (match goal with
            | F : find_sub (w_subs _) _ = Some ?s0, K : se_kind ?s0 = SKIter |- _ =>
                let Q := fresh in pose proof (noiter_find _ _ _ S F) as Q; rewrite K in Q; discriminate Q
            end).
  all: unfold inv_cf; split.
  all: try (match goal with |- noiter _ =>
              rew_frames;
              first [ exact S | (apply noiter_app; assumption) | (apply noiter_remove; exact S) | reflexivity ] end).
  all: try (match goal with |- threads_all cf_thread _ =>
              rew_frames;
              repeat (apply threads_all_put;
                      [|cbn [cf_thread cf_cpc cf_rpc];
                        first [ exact I | assumption
                              | (split; [first [assumption | apply cf_body | apply cf_eff | constructor]
                                        |first [exact I|reflexivity|assumption]])
                              | (eapply noiter_find; eassumption)
                              | (match goal with E : w_subs _ = _ |- _ => rewrite <- E; exact S end) ]]);
              exact T end).
Qed.

(* ---------- what a forwarding send does to the channel table ---------- *)
Lemma sub_phase_chans w sid x ph w1 sr : sub_phase w sid x ph = Some (w1, sr) ->
  (get_chan (w_chans w) sid = None /\ w_chans w1 = w_chans w) \/
  (exists c c' dr, get_chan (w_chans w) sid = Some c /\ send_phase c x ph = Some (c', sr, dr) /\
                   w_chans w1 = put_chan (w_chans w) sid c').
Proof.
  unfold sub_phase. destruct (get_chan (w_chans w) sid) as [c|] eqn:G.
  - destruct (send_phase c x ph) as [[[c' sr'] dr]|] eqn:E; [|discriminate].
    intros H; injection H as <- <-. right. exists c, c', dr. cbn. auto.
  - intros H; injection H as <- <-. left. auto.
Qed.

(* ---------- TChan threads live at their own tid ---------- *)
Definition inv_tc (ths : list (N * thread)) : Prop :=
  forall t sid f, get_thread ths t = Some (TChan sid f) -> t = chan_tid sid.
Lemma tc_put ths t th : inv_tc ths -> (forall sid f, th = TChan sid f -> t = chan_tid sid) ->
  inv_tc (put_thread ths t th).
Proof.
  intros I P t0 sid f G. destruct (N.eq_dec t0 t) as [->|NE].
  - rewrite get_put_same in G. injection G as ->. eauto.
  - rewrite get_put_other in G by exact NE. eauto.
Qed.

Theorem step_tc w t w' : inv_tc (w_threads w) -> step w t = Some w' -> inv_tc (w_threads w').
Proof.
  intros I H. step_cases H; use_frames; rew_frames.
  all: repeat (apply tc_put; [|intros ? ? E; first [discriminate E | injection E as <- <-; reflexivity | idtac]]).
  all: try exact I.
  all: injection E as <- _; eapply I; eauto.
Qed.

(* ---------- no exit marker is ever queued on a subscription channel ---------- *)
Definition no_exit (c : chan (State * aid)) : Prop := ~ In IExit (q c).
Definition chans_all (P : chan (State * aid) -> Prop) (l : list (N * chan (State * aid))) : Prop :=
  forall sid c, get_chan l sid = Some c -> P c.
Lemma chans_all_put P l sid c : chans_all P l -> P c -> chans_all P (put_chan l sid c).
Proof.
  intros H Pc s c' G. destruct (N.eq_dec s sid) as [->|NE].
  - rewrite get_put_chan_same in G. now injection G as <-.
  - rewrite get_put_chan_other in G by exact NE. eauto.
Qed.

Lemma send_act_no_exit (c : chan (State * aid)) x ph c' sr dr :
  send_phase c (IAct x) ph = Some (c', sr, dr) -> no_exit c -> no_exit c'.
Proof.
  intros H N. apply send_phase_contents in H. unfold no_exit in *.
  destruct H as [(Q & _)|[(old & Q & _)|(Q & _)]].
  - rewrite Q. intros I. apply in_app_or in I. destruct I as [I|[I|[]]]; [auto|discriminate I].
  - rewrite Q in N. intros I. apply N. now right.
  - now rewrite Q.
Qed.
Lemma recv_no_exit (c : chan (State * aid)) o c' : recv c = Some (o, c') -> no_exit c -> no_exit c'.
Proof.
  intros H N. apply recv_some in H. unfold no_exit in *. destruct H as (_ & _ & _ & Q).
  destruct o as [x|]; [rewrite Q in N; intros I; apply N; now right|destruct Q as (_ & -> & _); exact N].
Qed.

Ltac cf_exclude T S :=
  match goal with G : get_thread (w_threads _) _ = Some ?th |- _ =>
    let F := fresh "FT" in pose proof (T _ _ G) as F; cbn [cf_thread cf_cpc cf_rpc] in F end;
  try contradiction;
  try (match goal with F : Forall cf_call _ /\ _ |- _ =>
         let FP := fresh "FP" in let FC := fresh "FC" in destruct F as [FP FC]; try contradiction;
         try (inversion FP; subst; match goal with HC : cf_call _ |- _ => cbn in HC; try contradiction end) end);
  try (match goal with F : _ = SKChan /\ noiter _ |- _ => let FK := fresh "FK" in let FN := fresh "FN" in destruct F as [FK FN] end);
  try (match goal with F : noiter (_ :: _) |- _ =>
         let FH := fresh "FH" in let FR := fresh "FR" in
         destruct (noiter_tail _ _ F) as [FH FR] end);
  try (match goal with
       | FH : noiter_kind (se_kind ?s0) = true, K : se_kind ?s0 = SKIter |- _ => rewrite K in FH; discriminate FH
       end);
  try (match goal with
       | F : find_sub (w_subs _) _ = Some ?s0, K : se_kind ?s0 = SKIter |- _ =>
           let Q := fresh in pose proof (noiter_find _ _ _ S F) as Q; rewrite K in Q; discriminate Q
       end).

Definition inv_ne w : Prop := chans_all no_exit (w_chans w).

Theorem step_ne w t w' : inv_cf w -> inv_ne w -> step w t = Some w' -> inv_ne w'.
Proof.
  intros [T S] I H. unfold inv_ne in *. step_cases H.
  (* the fragment excludes the iterator branches *)
  all: match goal with G : get_thread (w_threads _) _ = Some ?th |- _ =>
         let F := fresh "FT" in pose proof (T _ _ G) as F; cbn [cf_thread cf_cpc cf_rpc] in F end.
  all: try contradiction.
  all: try (match goal with F : Forall cf_call _ /\ _ |- _ =>
              let FP := fresh "FP" in let FC := fresh "FC" in destruct F as [FP FC]; try contradiction;
              try (inversion FP; subst; match goal with HC : cf_call _ |- _ => cbn in HC; try contradiction end) end).
  all: try (match goal with F : _ = SKChan /\ noiter _ |- _ => destruct F as [FK FN] end).
  all: try (match goal with F : noiter (_ :: _) |- _ =>
              let FH := fresh "FH" in let FR := fresh "FR" in
              destruct (noiter_tail _ _ F) as [FH FR] end).
  all: try (match goal with
            | FH : noiter_kind (se_kind ?s0) = true, K : se_kind ?s0 = SKIter |- _ => rewrite K in FH; discriminate FH
            end).
  all: try (match goal with
            | F : find_sub (w_subs _) _ = Some ?s0, K : se_kind ?s0 = SKIter |- _ =>
                let Q := fresh in pose proof (noiter_find _ _ _ S F) as Q; rewrite K in Q; discriminate Q
            end).
  all: use_frames.
  all: repeat match goal with
       | HH : sub_phase _ _ _ _ = Some (_, _) |- _ =>
           apply sub_phase_chans in HH; destruct HH as [[? HH]|(? & ? & ? & ? & ? & HH)]
       end.
  all: simp_world; cbn [w_chans set_tx_open set_subs] in *;
       repeat match goal with E : w_chans ?w1 = _ |- context [w_chans ?w1] => rewrite E end.
  all: try exact I.
  all: repeat (apply chans_all_put; [|first [ (intros []; fail) | idtac ]]); try exact I.
  all: try (match goal with |- no_exit (disconnect ?c) => unfold no_exit, disconnect; cbn [q]; eapply I; eassumption end).
  all: try (match goal with HS : send_phase ?c (IAct _) _ = Some (?c', _, _) |- no_exit ?c' =>
              eapply send_act_no_exit; [exact HS|eapply I; eassumption] end).
  all: try (match goal with HR : recv ?c = Some (_, ?c') |- no_exit ?c' =>
              eapply recv_no_exit; [exact HR|eapply I; eassumption] end).
Qed.


(* ---------- the reducer forwards only into live channels ---------- *)
Definition inv_k w : Prop :=
  forall a s cur rest n ph,
    get_thread (w_threads w) reducer_tid = Some (TReducer (RNotifySend a s cur rest n ph)) ->
    exists c, get_chan (w_chans w) (se_id cur) = Some c /\ tx_alive c = true.

Lemma ctx_free_get w sid t th : ctx_free w sid = true -> get_thread (w_threads w) t = Some th -> holds_ctx sid th = false.
Proof. unfold ctx_free. intros E. apply negb_true_iff in E. now apply (existsb_get (holds_ctx sid)). Qed.

Lemma alive_put (l : list (N * chan (State * aid))) sid c sid0 :
  (exists c0, get_chan l sid0 = Some c0 /\ tx_alive c0 = true) ->
  (sid = sid0 -> tx_alive c = true) ->
  exists c0, get_chan (put_chan l sid c) sid0 = Some c0 /\ tx_alive c0 = true.
Proof.
  intros (c0 & G & A) H. destruct (N.eq_dec sid0 sid) as [->|NE].
  - exists c. rewrite get_put_chan_same. auto.
  - exists c0. rewrite get_put_chan_other by exact NE. auto.
Qed.

Theorem step_k w t w' : inv_cf w -> inv_k w -> step w t = Some w' -> inv_k w'.
Proof.
  intros [T S] I H. step_cases H; use_frames.
  all: cf_exclude T S.
  all: unfold inv_k in *.
  all: try (match goal with HB : (_ =? reducer_tid)%N = true |- _ => apply N.eqb_eq in HB; subst end).
  all: repeat match goal with
       | HH : sub_phase _ _ _ _ = Some (_, _) |- _ =>
           apply sub_phase_chans in HH; destruct HH as [[? HH]|(? & ? & ? & ? & ? & HH)]
       end.
  all: intros a' s' cur' rest' n' ph' G'; revert G'; simp_world; cbn [w_chans set_tx_open set_subs] in *;
       repeat match goal with E : w_chans ?w1 = _ |- context [w_chans ?w1] => rewrite E end;
       repeat match goal with E : w_threads ?w1 = _ |- context [w_threads ?w1] => rewrite E end; intros G'.
  (* steps of other threads leave the reducer's pc alone *)
  all: try (assert (GR : get_thread (w_threads w) reducer_tid = Some (TReducer (RNotifySend a' s' cur' rest' n' ph'))) by
        (repeat match type of G' with
           | get_thread (put_thread _ ?t' _) reducer_tid = _ =>
               let EQ := fresh "EQ" in
               destruct (N.eq_dec reducer_tid t') as [EQ|EQ];
               [ rewrite <- EQ in G'; rewrite get_put_same in G'; discriminate G'
               | rewrite get_put_other in G' by exact EQ ]
           end; exact G');
        specialize (I _ _ _ _ _ _ GR)).
  all: try exact I.
  all: try (apply alive_put; [exact I|intros; reflexivity]).
  (* a disconnect needs the subscriber's context lock, which the forwarding reducer holds *)
  all: try (match goal with HC : ctx_free _ ?sid = true, GR : get_thread _ reducer_tid = Some (TReducer (RNotifySend _ _ ?cur _ _ _)) |- _ =>
              let X := fresh "X" in let K := fresh "K" in
              pose proof (ctx_free_get _ _ _ _ HC GR) as X; pose proof (T _ _ GR) as K; cbn [cf_thread cf_rpc] in K;
              destruct K as [K _]; cbn [holds_ctx] in X; rewrite K in X; cbn [is_chan_kind andb] in X;
              apply N.eqb_neq in X; apply alive_put; [exact I|intros E; exfalso; apply X; now rewrite E] end).
  (* a receive keeps the channel alive *)
  all: try (match goal with HR : recv ?c = Some (_, ?c') |- context [put_chan _ ?sid ?c'] =>
              let A := fresh "A" in pose proof (recv_some _ _ _ HR) as (_ & _ & A & _);
              destruct I as (c9 & G9 & A9); destruct (N.eq_dec (se_id cur') sid) as [E9|E9];
              [ exists c'; rewrite E9, get_put_chan_same; split; [reflexivity|]; rewrite E9 in G9; congruence
              | exists c9; rewrite get_put_chan_other by exact E9; auto ] end).
  (* the reducer's own steps *)
  all: rewrite get_put_same in G'; try discriminate G'; injection G' as <- <- <- <- <- <-.
  - eauto.
  - match goal with HS : send_phase _ _ _ = Some (?c', _, _) |- _ =>
      apply send_phase_inv in HS; destruct HS as (_ & _ & A & _); exists c'; rewrite get_put_chan_same;
      split; [reflexivity|]; rewrite A end. congruence.
  - eauto.
  - destruct (I _ _ _ _ _ _ Heqo) as (c9 & G9 & A9).
    match goal with HS : send_phase _ _ _ = Some (?c', _, _) |- _ =>
      apply send_phase_inv in HS; destruct HS as (_ & _ & A & _); exists c'; rewrite get_put_chan_same;
      split; [reflexivity|]; rewrite A end. congruence.
Qed.


(* ---------- a channeled subscriber's thread ends only on a disconnected, empty channel ---------- *)
Definition inv_q w : Prop :=
  forall sid, get_thread (w_threads w) (chan_tid sid) = Some (TChan sid true) ->
  forall c, get_chan (w_chans w) sid = Some c -> q c = [] /\ tx_alive c = false.

Lemma chan_tid_inj s1 s2 : chan_tid s1 = chan_tid s2 -> s1 = s2.
Proof. unfold chan_tid. lia. Qed.

Theorem step_q w t w' : inv_cf w -> inv_tc (w_threads w) -> inv_ne w -> inv_k w -> inv_q w ->
  step w t = Some w' -> inv_q w'.
Proof.
  intros [T S] TC NE K I H. step_cases H; use_frames.
  all: cf_exclude T S.
  all: unfold inv_q in *.
  all: try (match goal with HB : (_ =? reducer_tid)%N = true |- _ => apply N.eqb_eq in HB; subst end).
  all: repeat match goal with
       | HH : sub_phase _ _ _ _ = Some (_, _) |- _ =>
           apply sub_phase_chans in HH; destruct HH as [[? HH]|(? & ? & ? & ? & ? & HH)]
       end.
  all: intros sid' G' c' GC'; revert G' GC'; simp_world; cbn [w_chans set_tx_open set_subs] in *;
       repeat match goal with E : w_chans ?w1 = _ |- context [w_chans ?w1] => rewrite E end;
       repeat match goal with E : w_threads ?w1 = _ |- context [w_threads ?w1] => rewrite E end; intros G' GC'.
  (* which thread sits at chan_tid sid' *)
  all: repeat match type of G' with
       | get_thread (put_thread _ ?t' _) ?k = _ =>
           let EQ := fresh "EQ" in
           destruct (N.eq_dec k t') as [EQ|EQ];
           [ rewrite EQ in G'; rewrite get_put_same in G'; try discriminate G'
           | rewrite get_put_other in G' by exact EQ ]
       end.
  all: try (eapply I; eassumption).
  (* which channel is sid' *)
  all: repeat match type of GC' with
       | get_chan (put_chan _ ?s0 _) ?k = _ =>
           let EQ := fresh "EC" in
           destruct (N.eq_dec k s0) as [EQ|EQ];
           [ rewrite EQ in GC'; rewrite get_put_chan_same in GC'; injection GC' as <-
           | rewrite get_put_chan_other in GC' by exact EQ ]
       end.
  all: try (eapply I; eassumption).
  all: try (exfalso; congruence).
  (* a disconnect keeps the queue *)
  all: try (match goal with |- q (disconnect ?c) = [] /\ _ => subst; split; [cbn; eapply I; eassumption|reflexivity] end).
  (* a forwarding send goes to a live channel, whose thread has therefore not ended *)
  all: try (match goal with A : tx_alive ?c = true, G : get_chan (w_chans _) (se_id _) = Some ?c |- _ =>
              subst sid'; destruct (I _ G' _ G) as [_ A']; congruence end).
  all: try (match goal with GR : get_thread (w_threads _) reducer_tid = Some (TReducer (RNotifySend _ _ _ _ _ _)) |- _ =>
              destruct (K _ _ _ _ _ _ GR) as (c9 & G9 & A9); subst sid'; destruct (I _ G' _ G9) as [_ A']; congruence end).
  (* the subscriber's own thread *)
  all: try (match goal with HR : recv ?c = Some (Some IExit, _), G : get_chan (w_chans _) _ = Some ?c |- _ =>
              exfalso; apply recv_some in HR; destruct HR as (_ & _ & _ & Q); apply (NE _ _ G); rewrite Q; now left end).
  - pose proof (TC _ _ _ Heqo) as E. subst t sid'. rewrite G' in Heqo. discriminate Heqo.
  - injection G' as <-. rewrite Heqo0 in GC'. injection GC' as <-.
    apply recv_some in Heqo1. destruct Heqo1 as (_ & _ & _ & Q & _ & A). auto.
Qed.


(* ---------- along every run ---------- *)
Definition inv_flush w : Prop :=
  inv_cf w /\ inv_tc (w_threads w) /\ inv_ne w /\ inv_k w /\ inv_q w.

Theorem step_flush w t w' : inv_flush w -> step w t = Some w' -> inv_flush w'.
Proof.
  intros (CF & TC & NE & K & Q) H. unfold inv_flush.
  split; [eapply step_cf; eauto|]. split; [eapply step_tc; eauto|].
  split; [eapply step_ne; eauto|]. split; [eapply step_k; eauto|eapply step_q; eauto].
Qed.

Lemma init_threads_shape (progs : list (list call)) : forall i t th,
  get_thread (client_threads (State := State) i progs ++ [(reducer_tid, TReducer RRecv)]) t = Some th ->
  (exists p, In p progs /\ th = TClient Client p PIdle) \/ th = TReducer RRecv.
Proof.
  induction progs as [|p r IH]; intros i t th; cbn [client_threads app get_thread].
  - destruct (N.eqb t reducer_tid); [|discriminate]. intros E; injection E as <-. now right.
  - destruct (N.eqb t i).
    + intros E; injection E as <-. left. exists p. split; [now left|reflexivity].
    + intros G. apply IH in G. destruct G as [(p' & I & E)|G]; [left; exists p'; split; [now right|exact E]|now right].
Qed.

Lemma init_flush reducers mws progs : Forall (Forall cf_call) progs ->
  inv_flush (init_world cfg reducers mws progs).
Proof.
  intros FP.
  assert (SH : forall t th, get_thread (w_threads (init_world cfg reducers mws progs)) t = Some th ->
          (exists p, In p progs /\ th = TClient Client p PIdle) \/ th = TReducer RRecv).
  { intros t th G. unfold init_world in G. cbn [w_threads] in G. eapply init_threads_shape; eauto. }
  unfold inv_flush. split; [|split; [|split; [|split]]].
  - split; [|reflexivity]. intros t th G. destruct (SH _ _ G) as [(p & I & ->)| ->]; cbn; auto.
    split; [|exact Logic.I]. rewrite Forall_forall in FP. auto.
  - intros t sid f G. destruct (SH _ _ G) as [(p & I & E)|E]; discriminate E.
  - intros sid c G. discriminate G.
  - intros a s cur rest n ph G. destruct (SH _ _ G) as [(p & I & E)|E]; discriminate E.
  - intros sid G. destruct (SH _ _ G) as [(p & I & E)|E]; discriminate E.
Qed.

Theorem reachable_flush reducers mws progs w : Forall (Forall cf_call) progs ->
  reachable cfg reducers mws progs w -> inv_flush w.
Proof.
  intros FP [sched H]. eapply (run_invariant cfg inv_flush); [|apply init_flush; exact FP|exact H].
  intros; eapply step_flush; eauto.
Qed.

(* C10: once the thread of a channeled subscriber has ended, its channel is disconnected and
   empty - nothing that was queued for it is left undelivered - and with the blocking policy what
   it received is exactly what the reducer forwarded to it *)
Theorem ended_means_flushed reducers mws progs w sid c : Forall (Forall cf_call) progs ->
  reachable cfg reducers mws progs w ->
  get_thread (w_threads w) (chan_tid sid) = Some (TChan sid true) ->
  get_chan (w_chans w) sid = Some c ->
  q c = [] /\ tx_alive c = false /\
  (pol c = Block -> subsends sid (w_hist w) = subrecvs sid (w_hist w)).
Proof.
  intros FP R G GC. destruct (reachable_flush _ _ _ _ FP R) as (_ & _ & _ & _ & Q).
  destruct (Q _ G _ GC) as [QE A]. split; [exact QE|split; [exact A|]].
  intros B. destruct (reachable_subq cfg reducers mws progs w R sid c GC) as [_ L].
  rewrite (L B). unfold qacts. rewrite QE. reflexivity.
Qed.

(* unsubscribe() of a channeled subscriber and the shutdown release get past their join only when
   that thread has ended *)
Lemma unsub_join_needs_end w t r prog sid f w' :
  get_thread (w_threads w) (chan_tid sid) = Some (TChan sid f) ->
  step_client w t r prog (PUnsubJoin sid) = Some w' -> f = true.
Proof. unfold step_client, chan_thread_finished. intros ->. destruct f; [reflexivity|discriminate]. Qed.
Lemma clear_join_needs_end w sid rest f w' :
  get_thread (w_threads w) (chan_tid sid) = Some (TChan sid f) ->
  step_reducer cfg w (RClearJoin sid rest) = Some w' -> f = true.
Proof. unfold step_reducer, chan_thread_finished. intros ->. destruct f; [reflexivity|discriminate]. Qed.
(* and a thread that has ended never runs again *)
Lemma ended_thread_silent w t sid : get_thread (w_threads w) t = Some (TChan sid true) -> step w t = None.
Proof. unfold World.step. intros ->. reflexivity. Qed.
End WorldFlush.
