(* Pipeline.v — the per-action pipeline of the reducer loop as pure functions
   (store_impl.rs: do_reduce l.287-364, do_effect l.366-433, do_notify l.435-485).
   User code is a parameter: reducers and middleware hooks are functions. *)
From RS Require Import Base.

Section Pipeline.
Context {State Action Eff : Type}.
Variable eid : Eff -> N.            (* identity of an effect, for the event log *)

Inductive dop := Dispatch (s : State) (e : option Eff) | Keep (s : State) (e : option Eff).
Definition reducer := State -> Action -> dop.

Record middleware := mkMw {
  mw_br : Action -> State -> verdict;                          (* before_reduce *)
  mw_be : Action -> State -> list Eff -> list Eff * verdict;   (* before_effect (may edit the list) *)
  mw_bd : Action -> State -> verdict }.                        (* before_dispatch *)

Inductive hook := HReduce | HEffect | HDispatch.

(* callback events (what user code can observe being called with) *)
Inductive cb :=
| CbBeforeReduce (i : nat) (a : Action) (s : State) (v : verdict)
| CbReduce (j : nat) (sin : State) (a : Action) (disp : bool) (sout : State) (e : option N)
| CbBeforeEffect (i : nat) (a : Action) (s : State) (ein eout : list N) (v : verdict)
| CbBeforeDispatch (i : nat) (a : Action) (s : State) (v : verdict)
| CbOnError (i : nat) (h : hook)
| CbNotify (sub : N) (s : State) (a : Action)
| CbOnChange (sub : N) (v : N) (a : Action)
| CbOnUnsub (sub : N)
| CbEffectRun (k : N).

Definition err_ev (i : nat) (h : hook) (v : verdict) : list cb :=
  match v with VErr => [CbOnError i h] | _ => [] end.

(* before_reduce phase: (reduce_action flag, hooks executed, events) *)
Fixpoint br_phase (i : nat) (mws : list middleware) (a : Action) (s : State) (flag : bool)
  : bool * nat * list cb :=
  match mws with
  | [] => (flag, 0, [])
  | m :: r =>
      let v := mw_br m a s in
      let ev := CbBeforeReduce i a s v :: err_ev i HReduce v in
      match v with
      | VBreak => (flag, 1, ev)
      | _ =>
          let '(f, n, es) := br_phase (S i) r a s (match v with VDone => false | _ => flag end) in
          (f, S n, ev ++ es)
      end
  end.

(* the reducer chain: each reducer gets the state returned by the previous one; the last answer
   decides need_dispatch; effects are collected in order *)
Definition dop_state (d : dop) : State := match d with Dispatch s _ | Keep s _ => s end.
Definition dop_eff (d : dop) : option Eff := match d with Dispatch _ e | Keep _ e => e end.
Definition dop_disp (d : dop) : bool := match d with Dispatch _ _ => true | Keep _ _ => false end.

Fixpoint run_reducers (j : nat) (rs : list reducer) (s : State) (a : Action)
         (effs : list Eff) (nd : bool) : State * list Eff * bool * list cb :=
  match rs with
  | [] => (s, effs, nd, [])
  | r :: rest =>
      let d := r s a in
      let ev := CbReduce j s a (dop_disp d) (dop_state d) (option_map eid (dop_eff d)) in
      let '(s', effs', nd', es) :=
        run_reducers (S j) rest (dop_state d) a (effs ++ opt_to_list (dop_eff d)) (dop_disp d) in
      (s', effs', nd', ev :: es)
  end.

(* before_effect phase: threads the effect list through the hooks *)
Fixpoint be_phase (i : nat) (mws : list middleware) (a : Action) (s : State) (effs : list Eff)
  : list Eff * nat * list cb :=
  match mws with
  | [] => (effs, 0, [])
  | m :: r =>
      let '(effs1, v) := mw_be m a s effs in
      let ev := CbBeforeEffect i a s (map eid effs) (map eid effs1) v :: err_ev i HEffect v in
      match v with
      | VBreak => (effs1, 1, ev)
      | _ => let '(effs2, n, es) := be_phase (S i) r a s effs1 in (effs2, S n, ev ++ es)
      end
  end.

(* before_dispatch phase: (need_notify flag, hooks executed, events) *)
Fixpoint bd_phase (i : nat) (mws : list middleware) (a : Action) (s : State) (flag : bool)
  : bool * nat * list cb :=
  match mws with
  | [] => (flag, 0, [])
  | m :: r =>
      let v := mw_bd m a s in
      let ev := CbBeforeDispatch i a s v :: err_ev i HDispatch v in
      match v with
      | VBreak => (flag, 1, ev)
      | _ =>
          let '(f, n, es) := bd_phase (S i) r a s (match v with VDone => false | _ => flag end) in
          (f, S n, ev ++ es)
      end
  end.

(* do_reduce: (need_dispatch, new state, effects, reduced?, hooks executed, events) *)
Definition do_reduce (mws : list middleware) (rs : list reducer) (s : State) (a : Action)
  : bool * State * list Eff * bool * nat * list cb :=
  let '(go, n, ev1) := br_phase 0 mws a s true in
  if go then
    let '(s', effs, nd, ev2) := run_reducers 0 rs s a [] true in
    (nd, s', effs, true, n, ev1 ++ ev2)
  else (true, s, [], false, n, ev1).

(* the result of processing one action with a given list of direct subscribers *)
Record outcome := mkOutcome {
  o_state : State;            (* the value written back *)
  o_spawn : list Eff;         (* effects handed to the pool, in order *)
  o_notified : bool;          (* subscribers were called *)
  o_events : list cb;         (* every callback, in call order *)
  o_reduced : bool;           (* action_reduced +1 *)
  o_issued : nat;             (* effect_issued *)
  o_mw : nat;                 (* middleware_executed *)
  o_state_notified : bool;    (* state_notified +1 (need_dispatch) *)
  o_sub_notified : nat }.     (* subscriber_notified *)

Definition process_action (mws : list middleware) (rs : list reducer) (subs : list N)
           (s : State) (a : Action) : outcome :=
  let '(nd, s', effs, red, n1, ev1) := do_reduce mws rs s a in
  let '(effs', n2, ev2) := be_phase 0 mws a s' effs in
  if nd then
    let '(nn, n3, ev3) := bd_phase 0 mws a s' true in
    if nn then
      mkOutcome s' effs' true (ev1 ++ ev2 ++ ev3 ++ map (fun i => CbNotify i s' a) subs)
                red (length effs) (n1 + n2 + n3) true (length subs)
    else mkOutcome s' effs' false (ev1 ++ ev2 ++ ev3) red (length effs) (n1 + n2 + n3) true 0
  else mkOutcome s' effs' false (ev1 ++ ev2) red (length effs) (n1 + n2) false 0.

(* a whole sequence of actions through a fixed configuration *)
Fixpoint process_all (mws : list middleware) (rs : list reducer) (subs : list N)
         (s : State) (l : list Action) : State * list (outcome) :=
  match l with
  | [] => (s, [])
  | a :: r =>
      let o := process_action mws rs subs s a in
      let '(s', os) := process_all mws rs subs (o_state o) r in
      (s', o :: os)
  end.

End Pipeline.
Arguments dop : clear implicits.
Arguments reducer : clear implicits.
Arguments middleware : clear implicits.
Arguments cb : clear implicits.
Arguments outcome : clear implicits.
