(* C12 — Middleware verdicts mean what they say. Statements only; proofs in PipelineProofs.v.
   For every state type, action type, effect type, every list of middlewares (any verdict
   functions), every reducer chain and every list of direct subscribers. *)
From RS Require Import Base Pipeline PipelineProofs.

Section C12.
Context {State Action Eff : Type}.
Variable eid : Eff -> N.
Notation reducer := (reducer State Action Eff).
Notation middleware := (middleware State Action Eff).

(* The complete behaviour of one action, in closed form: which hooks are called (those up to and
   including the first BreakChain of each phase), with which arguments (before_reduce: the state
   before the action; before_effect / before_dispatch: the state after it; before_effect hook k+1
   receives the effect list hook k left), what on_error calls happen (one per Err, right after
   the hook), whether the reducers run (no Done among the called before_reduce hooks), which
   effects are handed to the pool (the list the last called before_effect hook left) and whether
   the subscribers are called (need_dispatch and no Done among the called before_dispatch hooks). *)
Theorem C12_pipeline : forall (mws : list middleware) (rs : list reducer) (subs : list N) s a,
  let s' := post_state mws rs s a in
  let effs := returned_effs mws rs s a in
  let tr := be_trace mws a s' effs in
  let nd := need_dispatch mws rs s a in
  let bdv := bd_verdicts mws a s' in
  let notify := nd && negb (any_done bdv) in
  process_action eid mws rs subs s a =
  mkOutcome s' (be_final effs tr) notify
    (br_events 0 a s (br_verdicts mws a s) ++ reduce_events eid mws rs s a ++
     be_events eid 0 a s' tr ++
     (if nd then bd_events 0 a s' bdv else []) ++
     (if notify then map (fun i => CbNotify i s' a) subs else []))
    (negb (vetoed mws a s)) (length effs)
    (length (br_verdicts mws a s) + length tr + (if nd then length bdv else 0))
    nd (if notify then length subs else 0).
Proof. exact (process_action_spec eid). Qed.

(* DoneAction from before_reduce keeps the action away from every reducer, state unchanged *)
Theorem C12_done_before_reduce : forall (mws : list middleware) (rs : list reducer) subs s a,
  vetoed mws a s = true ->
  let o := process_action eid mws rs subs s a in
  o_state o = s /\ o_reduced o = false /\ (forall e, In e (o_events o) -> is_reduce e = false).
Proof. exact (veto_skips_reducers eid). Qed.

(* otherwise the whole chain runs, once, in order, and its result is the new state *)
Theorem C12_no_veto_reduces : forall (mws : list middleware) (rs : list reducer) subs s a,
  vetoed mws a s = false ->
  let o := process_action eid mws rs subs s a in
  let calls := chain_calls 0 rs s a in
  o_state o = chain_state s calls /\ o_reduced o = true /\
  filter is_reduce (o_events o) = map (call_event eid a) calls.
Proof. exact (no_veto_runs_chain eid). Qed.

(* DoneAction from before_dispatch suppresses the subscribers but keeps the new state *)
Theorem C12_done_before_dispatch : forall (mws : list middleware) (rs : list reducer) subs s a,
  any_done (bd_verdicts mws a (post_state mws rs s a)) = true ->
  let o := process_action eid mws rs subs s a in
  o_state o = post_state mws rs s a /\ o_notified o = false /\
  (forall e, In e (o_events o) -> is_notify e = false).
Proof. exact (done_dispatch_suppresses eid). Qed.

(* BreakChain skips only the remaining middlewares of that phase: a Break is always the last
   verdict among the called hooks, and the called hooks are a prefix of the registered ones *)
Theorem C12_break_chain : forall vs,
  (exists rest, vs = upto_break vs ++ rest) /\
  (forall l1 l2, upto_break vs = l1 ++ VBreak :: l2 -> l2 = []).
Proof. intros vs; split; [exact (upto_break_prefix vs) | exact (upto_break_break_last vs)]. Qed.

(* ContinueAction changes nothing *)
Theorem C12_continue : forall (mws : list middleware) (rs : list reducer) subs s a,
  Forall mw_identity mws ->
  let o := process_action eid mws rs subs s a in
  let o0 := process_action eid [] rs subs s a in
  o_state o = o_state o0 /\ o_spawn o = o_spawn o0 /\ o_notified o = o_notified o0 /\
  filter is_reduce (o_events o) = filter is_reduce (o_events o0) /\
  filter is_notify (o_events o) = filter is_notify (o_events o0).
Proof. exact (continue_changes_nothing eid). Qed.

(* an Err is handed once to that middleware's on_error and otherwise treated as ContinueAction *)
Theorem C12_err : forall vs i (a : Action) (s : State),
  length (filter is_on_error (br_events i a s vs)) = count_err vs /\
  length (filter is_on_error (bd_events i a s vs)) = count_err vs /\
  upto_break (map soften vs) = map soften (upto_break vs) /\
  any_done (map soften vs) = any_done vs.
Proof.
  intros; repeat split;
    [apply br_events_errors | apply bd_events_errors | apply upto_break_soften | apply any_done_soften].
Qed.

(* effects: hook k+1 receives what hook k left; the first receives what the reducers returned;
   the pool gets what the last called hook left (C12_pipeline: o_spawn = be_final effs tr) *)
Theorem C12_effect_lists : forall (mws : list middleware) a s effs,
  (forall x tr, be_trace mws a s effs = x :: tr -> fst (fst x) = effs) /\
  (forall tr1 x y tr2, be_trace mws a s effs = tr1 ++ x :: y :: tr2 -> fst (fst y) = snd (fst x)).
Proof. intros; split; [apply be_trace_head | apply be_trace_chain]. Qed.
End C12.

Print Assumptions C12_pipeline.
Print Assumptions C12_done_before_reduce.
Print Assumptions C12_no_veto_reduces.
Print Assumptions C12_done_before_dispatch.
Print Assumptions C12_break_chain.
Print Assumptions C12_continue.
Print Assumptions C12_err.
Print Assumptions C12_effect_lists.
