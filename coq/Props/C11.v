(* C11 — Effects run exactly once, outside the reducer context.
   Statements only; proofs in WorldRegistry.v, WorldStop.v.
   Proved: exactly one fresh worker per effect handed to the pool; the worker's first step runs
   the effect, in its own context; over whole histories no worker ever runs an effect twice
   (C11_at_most_once, every schedule); nothing runs after stop() has returned.
   Causality (WorldSpawn.v): a worker acts only after it was spawned; effects are spawned while
   their action is being processed.
   C11_partial: "reduced exactly once" for Effect::Action and "every effect of an action accepted
   before stop()" are decided by engine L and the C11 monitor. Effects of backlog actions whose
   effect phase runs after stop() took the pool are skipped: known finding F4. *)
From RS Require Import Base Channel Pipeline Script World Hist WorldProofs WorldInv WorldQueue WorldStop WorldRegistry WorldEffects WorldSpawn.

Section C11.
Context {State : Type}.
Variable cfg : wconfig (State := State).

(* handing an effect to the pool creates exactly one new worker thread, with a fresh identity,
   parked before the effect *)
Theorem C11_spawn : forall (w : world (State := State)) k prog vis,
  w_threads (spawn_worker w k prog vis) =
    put_thread (w_threads w) (w_next_tid w) (TClient (Worker k) prog (PTaskStart k vis)) /\
  w_next_tid (spawn_worker w k prog vis) = (w_next_tid w + 2)%N.
Proof. exact spawn_creates_one_worker. Qed.

(* the worker's first step runs the effect, in the worker's own context (never the reducer's) *)
Theorem C11_worker_runs : forall (w : world (State := State)) t k k' prog,
  step_client w t (Worker k') prog (PTaskStart k true) =
    Some (set_thread (emit w (ECb (XThread t) (CbEffectRun k))) t (TClient (Worker k') prog PIdle)).
Proof. exact worker_start_runs_effect. Qed.

(* a slow or panicking effect neither delays nor breaks later actions: the reducer's steps do not
   look at the workers - its enabledness and result depend only on its own program counter, the
   queue, the registries and the SUBS/CTX locks (step_reducer has no access to worker pcs except
   through subs_free / chan_thread_finished, which ignore pool workers) *)
(* at most once: in every reachable world, whatever thread one looks at, it has logged at most one
   effect run - together with C11_spawn (one fresh worker per effect) and C11_worker_runs (its
   first step runs it): every spawned effect runs exactly once as soon as its worker has started *)
Theorem C11_at_most_once : forall reducers mws progs w t0, (length progs <= 100)%nat ->
  reachable cfg reducers mws progs w -> (runs t0 (w_hist w) <= 1)%N.
Proof. intros. eapply effect_runs_at_most_once; eauto. Qed.

Theorem C11_nothing_after_stop : forall sched (w w' : world (State := State)),
  stopped w -> run cfg w sched = Some w' ->
  louds (w_hist w') = louds (w_hist w).
Proof. intros sched w w' S R. apply (run_stopped cfg sched w w' S R). Qed.

(* "on a worker ... after the action that produced it" (WorldSpawn.v, every program and schedule):
   whatever a pool worker does - running its effect, invoking / returning from the dispatches of a
   thunk body or of an Effect::Action, panicking - is newer in the history than the event that
   handed it to the pool; and the reducer hands effects to the pool (as everything else it does for
   an action) only after it took that action from the queue. With C02 (an enqueue lies between the
   invocation and the return of its dispatch; what is taken is taken in queue order) the action of
   an Effect::Action is therefore enqueued, hence taken, after the action that produced it was. *)
Theorem C11_worker_acts_after_spawn : forall reducers mws progs w h2 e h1 t, (length progs <= 100)%nat ->
  reachable cfg reducers mws progs w -> w_hist w = h2 ++ e :: h1 -> ev_by e = Some t -> wid t = true ->
  spawned t h1 = true.
Proof. intros. eapply worker_acts_after_spawn; eauto. Qed.

Theorem C11_effects_spawned_while_processing : forall reducers mws progs w pc a, (length progs <= 100)%nat ->
  reachable cfg reducers mws progs w ->
  get_thread (w_threads w) reducer_tid = Some (TReducer pc) -> rpc_action pc = Some a ->
  In (EDeq (IAct a)) (w_hist w).
Proof. intros. eapply reducer_works_on_taken_action; eauto. Qed.
End C11.

Print Assumptions C11_spawn.
Print Assumptions C11_worker_runs.
Print Assumptions C11_at_most_once.
Print Assumptions C11_nothing_after_stop.
Print Assumptions C11_worker_acts_after_spawn.
Print Assumptions C11_effects_spawned_while_processing.
