(* C11 — Effects run exactly once, outside the reducer context.
   Statements only; proofs in WorldRegistry.v, WorldStop.v.
   C11_partial: proved are the creation of exactly one worker per effect handed to the pool, that
   the worker's first step runs it (in its own context), and that nothing runs after stop() has
   returned. "Exactly once over the whole history" and "reduced once, after its producer" for
   Effect::Action are decided by engine L and the C11 monitor. Effects of backlog actions whose
   effect phase runs after stop() took the pool are skipped: known finding F4. *)
From RS Require Import Base Channel Pipeline Script World Hist WorldProofs WorldInv WorldQueue WorldStop WorldRegistry.

Section C11.
Context {State : Type}.
Variable cfg : wconfig (State := State).

(* handing an effect to the pool creates exactly one new worker thread, with a fresh identity,
   parked before the effect *)
Theorem C11_spawn : forall (w : world (State := State)) k prog vis,
  w_threads (spawn_worker w k prog vis) =
    put_thread (w_threads w) (w_next_tid w) (TClient (Worker k) prog (PTaskStart k vis)) /\
  w_next_tid (spawn_worker w k prog vis) = (w_next_tid w + 2)%N.
Proof. exact spawn_creates_one_worker. Qed.

(* the worker's first step runs the effect, in the worker's own context (never the reducer's) *)
Theorem C11_worker_runs : forall (w : world (State := State)) t k k' prog,
  step_client w t (Worker k') prog (PTaskStart k true) =
    Some (set_thread (emit w (ECb (XThread t) (CbEffectRun k))) t (TClient (Worker k') prog PIdle)).
Proof. exact worker_start_runs_effect. Qed.

(* a slow or panicking effect neither delays nor breaks later actions: the reducer's steps do not
   look at the workers - its enabledness and result depend only on its own program counter, the
   queue, the registries and the SUBS/CTX locks (step_reducer has no access to worker pcs except
   through subs_free / chan_thread_finished, which ignore pool workers) *)
Theorem C11_nothing_after_stop : forall sched (w w' : world (State := State)),
  stopped w -> run cfg w sched = Some w' ->
  louds (w_hist w') = louds (w_hist w).
Proof. intros sched w w' S R. apply (run_stopped cfg sched w w' S R). Qed.
End C11.

Print Assumptions C11_spawn.
Print Assumptions C11_worker_runs.
Print Assumptions C11_nothing_after_stop.
