(* C16 — Selector subscribers fire exactly on changes of the selected value.
   Statements only; proofs are in SelectorProofs.v. *)
From RS Require Import Base Selector SelectorProofs.

Section C16.
Context {V T : Type}.
Variable veq : V -> V -> bool.
Hypothesis veq_spec : forall x y, veq x y = true <-> x = y.   (* Output: PartialEq is equality *)

(* one notification: on_change is called iff the selected value differs from the last delivered
   one (always for the first), and afterwards the last delivered value is the selected one *)
Theorem C16_fires_iff_changed : forall (last : option V) (v : V),
  (snd (sel_notify veq last v) = true <-> last <> Some v) /\ fst (sel_notify veq last v) = Some v.
Proof. intros; split; [exact (sel_notify_fires veq veq_spec last v) | exact (sel_notify_last veq veq_spec last v)]. Qed.

(* a whole notification stream (value, action): what is delivered is the stream with consecutive
   duplicates removed, each value with the action that caused it *)
Theorem C16_dedup : forall (l : list (V * T)) (last : option V),
  fst (sel_stream veq last l) = dedup veq last l.
Proof. exact (sel_stream_dedup veq). Qed.

(* dedup is what it says: delivered values are a subsequence of the stream, no two adjacent
   delivered values are equal, the first notification is always delivered, and the value the
   subscriber knows after every notification is the current selected value *)
Theorem C16_dedup_characterised : forall (l : list (V * T)) (prev : option V),
  subseq (dedup veq prev l) l /\ no_adjacent_dup prev (dedup veq prev l) /\
  known_values veq prev l = current_values prev l.
Proof.
  intros; repeat split;
    [exact (dedup_subseq veq l prev) | exact (dedup_no_adjacent veq veq_spec l prev)
    | exact (known_is_current veq veq_spec l prev)].
Qed.

Theorem C16_first_delivered : forall v t (r : list (V * T)),
  exists out, dedup veq None ((v, t) :: r) = (v, t) :: out.
Proof. exact (dedup_first veq). Qed.

Theorem C16_last_value : forall (l : list (V * T)) (last : option V),
  snd (sel_stream veq last l) = last_delivered last (fst (sel_stream veq last l)).
Proof. exact (sel_stream_last veq). Qed.
End C16.

Print Assumptions C16_fires_iff_changed.
Print Assumptions C16_dedup.
Print Assumptions C16_dedup_characterised.
Print Assumptions C16_first_delivered.
Print Assumptions C16_last_value.

(* non-vacuity: a concrete stream *)
Example C16_example :
  fst (sel_stream N.eqb None [(1, 10); (1, 11); (2, 12); (2, 13); (1, 14)]%N) = [(1, 10); (2, 12); (1, 14)]%N.
Proof. vm_compute. reflexivity. Qed.
