(* C10 — Channeled subscribers: same stream, own thread, own backpressure policy.
   Statements only; proofs in ChannelProofs.v, WorldSubs.v, WorldFlush.v. *)
From RS Require Import Base Channel ChannelProofs Pipeline Script World Hist WorldProofs WorldInv WorldQueue WorldStop WorldSubs WorldFlush WorldMetrics WorldEffects WorldSids WorldForward WorldFwdFinal WorldFwdSince.

Section C10.
Context {State : Type}.
Variable cfg : wconfig (State := State).

(* for every subscription channel, in every reachable world, since the channel was created: what
   its consumer has received so far is an in-order subsequence of what the reducer forwarded to it
   (every policy), and with BlockOnFull forwarded = received ++ still queued, exactly *)
Theorem C10_stream : forall reducers mws progs w sid c, reachable cfg reducers mws progs w ->
  get_chan (w_chans w) sid = Some c ->
  subseq (subrecvs sid (w_hist w)) (subsends sid (w_hist w)) /\
  (pol c = Block -> rev (subsends sid (w_hist w)) = rev (subrecvs sid (w_hist w)) ++ qacts c).
Proof.
  intros reducers mws progs w sid c R G. pose proof (reachable_subq cfg reducers mws progs w R) as I.
  split; [eapply received_subseq; eauto|intros B; eapply block_channel_lossless; eauto].
Qed.

(* a stalled subscriber with a drop policy never stalls reducing: every phase of the forwarding
   send is enabled *)
Theorem C10_never_stalls : forall (c : chan (State * aid)) x ph, pol c <> Block -> ph <> SBlockWait ->
  send_phase c x ph <> None.
Proof. exact drop_policy_never_waits. Qed.

(* under DropOldest the newest notification is always kept: after the send it is the last item *)
Theorem C10_newest_kept : forall (c : chan (State * aid)) x, pol c = DropOldest -> 0 < cap c -> bounded c ->
  exists c' ok d, send_seq c x = Some (c', ok, d) /\ q c' = lastn (cap c) (q c ++ [x]).
Proof.
  intros c x P C B. destruct (drop_oldest_one c x P C B) as (c' & ok & d & H & Q & _). eauto.
Qed.

(* "unsubscribe() and stop() return only after everything already queued for it has been
   delivered, and nothing is delivered afterwards" (programs without state iterators, every
   schedule): both joins wait for the subscriber's thread to end (C10_joins_wait); a thread that
   has ended left a disconnected, EMPTY channel behind - with the blocking policy it received
   exactly what was forwarded (C10_flush); and it never runs again (C10_silent_after). *)
Theorem C10_flush : forall reducers mws progs w sid c,
  Forall (Forall (fun c => match c with CIter _ _ _ | CNext _ | CDropIter _ | CDrain _ => False | _ => True end)) progs ->
  reachable cfg reducers mws progs w ->
  get_thread (w_threads w) (chan_tid sid) = Some (TChan sid true) ->
  get_chan (w_chans w) sid = Some c ->
  q c = [] /\ tx_alive c = false /\
  (pol c = Block -> subsends sid (w_hist w) = subrecvs sid (w_hist w)).
Proof. intros reducers mws progs w sid c FP R G GC. exact (ended_means_flushed cfg reducers mws progs w sid c FP R G GC). Qed.

Theorem C10_joins_wait : forall (w w' : world (State := State)) t r prog sid rest f,
  get_thread (w_threads w) (chan_tid sid) = Some (TChan sid f) ->
  (step_client w t r prog (PUnsubJoin sid) = Some w' -> f = true) /\
  (step_reducer cfg w (RClearJoin sid rest) = Some w' -> f = true).
Proof.
  intros w w' t r prog sid rest f G. split; [apply (unsub_join_needs_end w t r prog sid f w' G)|
  apply (clear_join_needs_end cfg w sid rest f w' G)].
Qed.

Theorem C10_silent_after : forall (w : world (State := State)) t sid,
  get_thread (w_threads w) t = Some (TChan sid true) -> step cfg w t = None.
Proof. intros w t sid G. exact (ended_thread_silent cfg w t sid G). Qed.

(* C10_partial: "called on its own thread" holds in the model by construction of step_chan (the
   callback event carries the context XChan sid); engine L and the C10 monitor decide it on the code. *)
(* "with the blocking policy it receives exactly the sequence a direct subscriber would"
   (WorldForward.v; programs whose registration calls carry pairwise distinct identifiers, every
   schedule): while the subscriber has not been released, one entry per snapshot that contains it,
   in snapshot order - which is what a direct subscriber in its place is called for
   (C03_stream) - is exactly what its thread has been handed so far, followed by what is still
   queued for it, followed by what the notification in progress has still to forward *)
Theorem C10_same_stream : forall reducers mws progs w sid c pc, distinct_regs progs ->
  reachable cfg reducers mws progs w ->
  get_chan (w_chans w) sid = Some c -> pol c = Block -> tx_alive c = true ->
  get_thread (w_threads w) reducer_tid = Some (TReducer pc) ->
  rev (fowed sid (w_hist w)) = rev (subrecvs sid (w_hist w)) ++ qacts c ++ pendingf sid pc.
Proof. intros. eapply consumed_is_owed; eauto. Qed.

(* "nothing is delivered afterwards": once the reducer has left its loop (shutdown release in
   progress or over) the stream forwarded to the subscriber's channel is final along every
   continuation (WorldFwdFinal.v, WorldFwdSince.v; distinct identifiers) - what the subscriber
   thread may still deliver was forwarded before, and the release waits until it has (C10_flush,
   C10_joins_wait) *)
Theorem C10_stream_final_after_release : forall reducers mws progs w sched w' sid,
  length progs <= 100 -> distinct_regs progs -> reachable cfg reducers mws progs w -> releasing w ->
  run cfg w sched = Some w' -> subsends sid (w_hist w') = subsends sid (w_hist w).
Proof. intros. eapply stream_is_final; eauto. Qed.
End C10.

Print Assumptions C10_stream.
Print Assumptions C10_never_stalls.
Print Assumptions C10_newest_kept.
Print Assumptions C10_flush.
Print Assumptions C10_joins_wait.
Print Assumptions C10_silent_after.
Print Assumptions C10_same_stream.
Print Assumptions C10_stream_final_after_release.
