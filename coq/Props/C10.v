(* C10 — Channeled subscribers: same stream, own thread, own backpressure policy.
   Statements only; proofs in ChannelProofs.v, WorldSubs.v. *)
From RS Require Import Base Channel ChannelProofs Pipeline Script World Hist WorldProofs WorldInv WorldQueue WorldStop WorldSubs.

Section C10.
Context {State : Type}.
Variable cfg : wconfig (State := State).

(* for every subscription channel, in every reachable world, since the channel was created: what
   its consumer has received so far is an in-order subsequence of what the reducer forwarded to it
   (every policy), and with BlockOnFull forwarded = received ++ still queued, exactly *)
Theorem C10_stream : forall reducers mws progs w sid c, reachable cfg reducers mws progs w ->
  get_chan (w_chans w) sid = Some c ->
  subseq (subrecvs sid (w_hist w)) (subsends sid (w_hist w)) /\
  (pol c = Block -> rev (subsends sid (w_hist w)) = rev (subrecvs sid (w_hist w)) ++ qacts c).
Proof.
  intros reducers mws progs w sid c R G. pose proof (reachable_subq cfg reducers mws progs w R) as I.
  split; [eapply received_subseq; eauto|intros B; eapply block_channel_lossless; eauto].
Qed.

(* a stalled subscriber with a drop policy never stalls reducing: every phase of the forwarding
   send is enabled *)
Theorem C10_never_stalls : forall (c : chan (State * aid)) x ph, pol c <> Block -> ph <> SBlockWait ->
  send_phase c x ph <> None.
Proof. exact drop_policy_never_waits. Qed.

(* under DropOldest the newest notification is always kept: after the send it is the last item *)
Theorem C10_newest_kept : forall (c : chan (State * aid)) x, pol c = DropOldest -> 0 < cap c -> bounded c ->
  exists c' ok d, send_seq c x = Some (c', ok, d) /\ q c' = lastn (cap c) (q c ++ [x]).
Proof.
  intros c x P C B. destruct (drop_oldest_one c x P C B) as (c' & ok & d & H & Q & _). eauto.
Qed.

(* C10_partial: "called on its own thread" and "unsubscribe()/stop() return only after everything
   queued has been delivered, and nothing is delivered afterwards" hold in the model by
   construction of step_chan / the join steps (PUnsubJoin, RClearJoin); they are decided by engine
   L (probe that unsubscribe waits while the subscriber is inside on_notify) and the C10 monitor,
   not yet stated as theorems over histories. *)
End C10.

Print Assumptions C10_stream.
Print Assumptions C10_never_stalls.
Print Assumptions C10_newest_kept.
