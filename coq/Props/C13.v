(* C13 — The public API never deadlocks under concurrent use.
   Statements only; proofs in WorldBlock.v, Witness.v.
   C13_partial: proved is the exact enabledness of every waiting step of the model (the wait-for
   edges: what a blocked thread waits for), the steps that never wait, and - by evaluation - that
   the full statement is FALSE of the code as it stands: releasing a state iterator before it has
   returned None reaches a world in which no thread can ever step (known finding F5). That every
   other reachable world of a well-formed program has an enabled thread is not yet a theorem; it
   is decided by engine L (probes on every blocking edge; a thread that does not arrive where the
   model says it can run is reported with its schedule) and the C13 monitor. *)
From RS Require Import Base Channel Pipeline Script World Instance Hist WorldBlock Witness.

Section C13.
Context {State : Type}.
Variable cfg : wconfig (State := State).
Implicit Types w : World.world (State := State).

Theorem C13_wait_for_edges_partial : forall w t r prog,
  (forall e a, step_client w t r prog (PDispatchTx e a) = None <-> tx_free w = false) /\
  (forall stop, step_client w t r prog (PCloseTx stop) = None <-> tx_free w = false) /\
  (forall e a, step_client w t r prog (PSending e a SBlockWait) = None <-> cap (w_dq w) <= length (q (w_dq w))) /\
  (step_client w t r prog PStopJoin = None <-> pool_idle w = false) /\
  (forall se, step_client w t r prog (PSubsAdd se) = None <-> subs_free w = false) /\
  (forall sid, step_client w t r prog (PUnsubJoin sid) = None <-> chan_thread_finished w sid = false) /\
  (step_reducer cfg w RRecv = None <-> q (w_dq w) = [] /\ tx_alive (w_dq w) = true) /\
  (forall a s, step_reducer cfg w (RSnapshot a s) = None <-> subs_free w = false) /\
  (step_reducer cfg w RClearLock = None <-> subs_free w = false).
Proof.
  intros w t r prog.
  split; [intros; apply dispatch_tx_blocked|].
  split; [intros; apply close_tx_blocked|].
  split; [intros; apply sending_blocked|].
  split; [apply stop_join_blocked|].
  split; [intros; apply subs_add_blocked|].
  split; [intros; apply unsub_join_blocked|].
  split; [apply reducer_recv_blocked|].
  split; [intros; apply snapshot_blocked|apply clear_blocked].
Qed.

Theorem C13_never_waits : forall w t r c l a go s effs nd,
  step_client w t r (c :: l) PCall <> None /\ step_client w t r (c :: l) PStopTake <> None /\
  step_reducer cfg w (RBeforeReduce a) <> None /\ step_reducer cfg w (RReduce a go) <> None /\
  step_reducer cfg w (RWrite a s effs nd) <> None /\ step_reducer cfg w (RBeforeEffect a s effs nd) <> None /\
  step_reducer cfg w (RSpawn a s effs nd) <> None /\ step_reducer cfg w (RBeforeDispatch a s) <> None.
Proof.
  intros. split; [apply never_blocked_client|split; [apply never_blocked_take|]].
  apply never_blocked_reducer_phases.
Qed.
End C13.

(* the known finding: a reachable world of the instantiated model in which thread 0 is parked
   inside the blocking Exit send of a dropped iterator, holding the subscribers lock, and no
   thread at all is enabled *)
Theorem C13_iter_drop_refuted :
  exists w, run0 w_f5 sched_f5 = Some w /\
    (forall t, In t (map fst (w_threads w)) -> step cfg0 w t = None) /\
    get_thread (w_threads w) 0%N =
      Some (TClient Client [CDropIter 1%N] (PUnsubIterSend 1%N SBlockWait)).
Proof. exact Witness.C13_iter_drop_refuted. Qed.

Print Assumptions C13_wait_for_edges_partial.
Print Assumptions C13_never_waits.
Print Assumptions C13_iter_drop_refuted.
