(* C13 — The public API never deadlocks under concurrent use.
   Statements only; proofs in WorldLive.v, WorldBlock.v, Witness.v.
   C13_core_deadlock_free: for the core of the API - dispatch through every entry point, thunks,
   tasks and effects of every kind, get_state / get_metrics, add_reducer / add_middleware, direct
   and selector subscribers with unsubscribe, close, stop and the drop of a DroppableStore - with
   any number of client threads, any reducers / middlewares / policy / capacity >= 1 and ANY
   schedule, a reachable world in which no thread can step is a world in which every call has
   returned and every effect task has ended; the reducer has left its loop or idles in recv on an
   open, empty queue. (Programs are the straight-line call sequences of the model; a callback that
   calls back into the store is an effect body, which is covered.)
   C13_channels_deadlock_free: the same for the whole API except state iterators, channeled
   subscribers with unsubscribe and the shutdown release included (WorldLive2.v).
   C13_iter_drop_refuted: the full statement is FALSE of the code as it stands: releasing a state
   iterator before it has returned None reaches a world in which no thread can ever step (known
   finding F5) - which is why channeled subscribers and iterators are outside the fragment. For
   them the proved part is C13_wait_for_edges_partial / C13_never_waits (what exactly every
   blocked thread waits for), and the decision on the code is engine L's (probes on every blocking
   edge; a thread that does not arrive where the model says it can run is reported with its
   schedule) plus the C13 monitor. *)
From RS Require Import Base Channel Pipeline Script World Instance Hist WorldBlock WorldLive WorldLocks WorldFlush WorldSids WorldLive2 Witness.

Section C13.
Context {State : Type}.
Variable cfg : wconfig (State := State).
Implicit Types w : World.world (State := State).

Theorem C13_wait_for_edges_partial : forall w t r prog,
  (forall e a, step_client w t r prog (PDispatchTx e a) = None <-> tx_free w = false) /\
  (forall stop, step_client w t r prog (PCloseTx stop) = None <-> tx_free w = false) /\
  (forall e a, step_client w t r prog (PSending e a SBlockWait) = None <-> cap (w_dq w) <= length (q (w_dq w))) /\
  (step_client w t r prog PStopJoin = None <-> pool_idle w = false) /\
  (forall se, step_client w t r prog (PSubsAdd se) = None <-> subs_free w = false) /\
  (forall sid, step_client w t r prog (PUnsubJoin sid) = None <-> chan_thread_finished w sid = false) /\
  (step_reducer cfg w RRecv = None <-> q (w_dq w) = [] /\ tx_alive (w_dq w) = true) /\
  (forall a s, step_reducer cfg w (RSnapshot a s) = None <-> subs_free w = false) /\
  (step_reducer cfg w RClearLock = None <-> subs_free w = false).
Proof.
  intros w t r prog.
  split; [intros; apply dispatch_tx_blocked|].
  split; [intros; apply close_tx_blocked|].
  split; [intros; apply sending_blocked|].
  split; [apply stop_join_blocked|].
  split; [intros; apply subs_add_blocked|].
  split; [intros; apply unsub_join_blocked|].
  split; [apply reducer_recv_blocked|].
  split; [intros; apply snapshot_blocked|apply clear_blocked].
Qed.

Theorem C13_never_waits : forall w t r c l a go s effs nd,
  step_client w t r (c :: l) PCall <> None /\ step_client w t r (c :: l) PStopTake <> None /\
  step_reducer cfg w (RBeforeReduce a) <> None /\ step_reducer cfg w (RReduce a go) <> None /\
  step_reducer cfg w (RWrite a s effs nd) <> None /\ step_reducer cfg w (RBeforeEffect a s effs nd) <> None /\
  step_reducer cfg w (RSpawn a s effs nd) <> None /\ step_reducer cfg w (RBeforeDispatch a s) <> None.
Proof.
  intros. split; [apply never_blocked_client|split; [apply never_blocked_take|]].
  apply never_blocked_reducer_phases.
Qed.

Theorem C13_core_deadlock_free : forall reducers mws progs w,
  0 < cfg_cap cfg -> length progs <= 100 ->
  Forall (Forall (fun c => match c with
                           | CSubscribed _ _ _ | CIter _ _ _ | CNext _ | CDropIter _ | CDrain _ => False
                           | _ => True
                           end)) progs ->
  reachable cfg reducers mws progs w ->
  (forall t, step cfg w t = None) ->
  forall t th, get_thread (w_threads w) t = Some th ->
    thread_finished th = true \/
    (t = reducer_tid /\ th = TReducer RRecv /\ q (w_dq w) = [] /\ tx_alive (w_dq w) = true).
Proof.
  intros reducers mws progs w C L F R B. exact (core_deadlock_free cfg C reducers mws progs w L F R B).
Qed.

(* the whole API except state iterators - channeled subscribers included: programs without
   iterator calls, whose registration calls carry pairwise distinct identifiers and whose
   subscription channels have capacity >= 1; any number of threads, any policy, any schedule.
   A reachable world in which no thread can step: every call has returned, every task has ended;
   the reducer is gone or idle on an open empty queue; every channeled subscriber's thread has
   ended or is idle on its open, empty channel *)
Theorem C13_channels_deadlock_free : forall reducers mws progs w,
  0 < cfg_cap cfg -> length progs <= 100 ->
  Forall (Forall (fun c => match c with CIter _ _ _ | CNext _ | CDropIter _ | CDrain _ => False | _ => True end)) progs ->
  Forall (Forall (fun c => match c with CSubscribed _ n _ | CIter _ n _ => 0 < n | _ => True end)) progs ->
  NoDup (flat_map (flat_map (fun c => match c with
                                      | CAddSubscriber s | CSubscribeSelector s _ | CSubscribed s _ _ | CIter s _ _ => [s]
                                      | _ => []
                                      end)) progs) ->
  reachable cfg reducers mws progs w ->
  (forall t, step cfg w t = None) ->
  forall t th, get_thread (w_threads w) t = Some th ->
    thread_finished th = true \/
    (t = reducer_tid /\ th = TReducer RRecv /\ q (w_dq w) = [] /\ tx_alive (w_dq w) = true) \/
    (exists sid c, th = TChan sid false /\ get_chan (w_chans w) sid = Some c /\ q c = [] /\ tx_alive c = true).
Proof.
  intros reducers mws progs w C L F1 F2 D R B.
  exact (channels_deadlock_free cfg C reducers mws progs w L (conj F1 (conj F2 D)) R B).
Qed.

(* the locks of the model are locks: in every reachable world the dispatch lock and the
   subscribers lock are each held by at most one thread *)
Theorem C13_locks_exclusive : forall reducers mws progs w, reachable cfg reducers mws progs w ->
  (forall t1 t2 th1 th2, get_thread (w_threads w) t1 = Some th1 -> get_thread (w_threads w) t2 = Some th2 ->
     holds_tx th1 = true -> holds_tx th2 = true -> t1 = t2) /\
  (forall t1 t2 th1 th2, get_thread (w_threads w) t1 = Some th1 -> get_thread (w_threads w) t2 = Some th2 ->
     holds_subs th1 = true -> holds_subs th2 = true -> t1 = t2).
Proof. intros reducers mws progs w R. exact (reachable_locks cfg reducers mws progs w R). Qed.
End C13.

(* the known finding: a reachable world of the instantiated model in which thread 0 is parked
   inside the blocking Exit send of a dropped iterator, holding the subscribers lock, and no
   thread at all is enabled *)
Theorem C13_iter_drop_refuted :
  exists w, run0 w_f5 sched_f5 = Some w /\
    (forall t, In t (map fst (w_threads w)) -> step cfg0 w t = None) /\
    get_thread (w_threads w) 0%N =
      Some (TClient Client [CDropIter 1%N] (PUnsubIterSend 1%N SBlockWait)).
Proof. exact Witness.C13_iter_drop_refuted. Qed.

Print Assumptions C13_wait_for_edges_partial.
Print Assumptions C13_never_waits.
Print Assumptions C13_core_deadlock_free.
Print Assumptions C13_channels_deadlock_free.
Print Assumptions C13_locks_exclusive.
Print Assumptions C13_iter_drop_refuted.
