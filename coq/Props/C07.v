(* C07 — One action at a time: pipeline phases are ordered and never overlap.
   Statements only; proofs in PipelineProofs.v.
   C07_partial: the order of the phases of one action is proved for every configuration; that the
   blocks of consecutive actions do not overlap holds in the model because the reducer is one
   sequential thread (World.step_reducer); it is checked by the lockstep correspondence and the
   C07 monitor, not yet stated as a theorem over histories. *)
From RS Require Import Base Channel Pipeline PipelineProofs Script World Hist WorldFoldDyn.

Section C07.
Context {State Action Eff : Type}.
Variable eid : Eff -> N.

(* the callbacks of one action, in call order: before_reduce hooks, reducers, before_effect
   hooks, before_dispatch hooks, subscribers - each group in registration order, truncated only
   by BreakChain / DoneAction / Keep as C12 says *)
Theorem C07_phase_order_partial : forall (mws : list (middleware State Action Eff))
    (rs : list (reducer State Action Eff)) (subs : list N) s a,
  let s' := post_state mws rs s a in
  let effs := returned_effs mws rs s a in
  let nd := need_dispatch mws rs s a in
  let notify := nd && negb (any_done (bd_verdicts mws a s')) in
  o_events (process_action eid mws rs subs s a) =
    br_events 0 a s (br_verdicts mws a s) ++ reduce_events eid mws rs s a ++
    be_events eid 0 a s' (be_trace mws a s' effs) ++
    (if nd then bd_events 0 a s' (bd_verdicts mws a s') else []) ++
    (if notify then map (fun i => CbNotify i s' a) subs else []).
Proof. intros. rewrite (process_action_spec eid). reflexivity. Qed.

(* every registered reducer is called exactly once per (non-vetoed) action, in registration order *)
Theorem C07_every_reducer_once : forall (rs : list (reducer State Action Eff)) j s a,
  length (chain_calls j rs s a) = length rs /\
  (forall k c, nth_error (chain_calls j rs s a) k = Some c -> fst (fst c) = j + k).
Proof. intros; split; [apply chain_calls_length|apply chain_calls_index]. Qed.
End C07.

Section C07_world.
Context {State : Type}.
Variable cfg : wconfig (State := State).
(* "a reducer or middleware registered (at build time or later) before an action is dispatched is
   never left out of that action's pipeline" (WorldFoldDyn.v, every program and schedule): the
   lists MS / RS1 the action's write-back was computed with extend the registries as they were
   when the reducer took the action (hence as they were when it was dispatched), in registration
   order, and contain nothing that was not registered by the time of the write-back *)
Theorem C07_registered_never_left_out : forall RS0 MS0 progs w h2 a s h1,
  reachable cfg RS0 MS0 progs w -> w_hist w = h2 ++ EWrite a s :: h1 ->
  exists MS RS1,
    between (mws_at_deq MS0 h1) MS (mws_all MS0 h1) /\ between (reds_at_deq RS0 h1) RS1 (reds_all RS0 h1) /\
    s = step_with cfg MS RS1 (last_written (cfg_init cfg) h1) a.
Proof. intros RS0 MS0 progs w h2 a s h1 R E. exact (write_back_is_pipeline_step cfg RS0 MS0 progs w h2 a s h1 R E). Qed.
End C07_world.

Print Assumptions C07_phase_order_partial.
Print Assumptions C07_every_reducer_once.
Print Assumptions C07_registered_never_left_out.
