(* C08 — get_state is a consistent, monotonic view published before notification.
   Statements only; proofs in WorldInv.v. *)
From RS Require Import Base Channel Pipeline Script World Hist WorldProofs WorldInv.

Section C08.
Context {State : Type}.
Variable cfg : wconfig (State := State).

(* in every reachable world the state is the value of the latest write-back (or the initial
   state), and every get_state that has returned, returned the latest write-back preceding its
   return in the history - never a partial or invented value (reads_ok walks the whole history) *)
Theorem C08_view : forall reducers mws progs w, reachable cfg reducers mws progs w ->
  w_state w = last_written (cfg_init cfg) (w_hist w) /\ reads_ok cfg (w_hist w).
Proof. exact (reachable_state cfg). Qed.

(* monotonic: the latest write-back seen from a later point of the history is the same or a later
   one - the list of write-backs only grows at its newest end *)
Theorem C08_monotonic : forall (h1 h2 : list (event (State := State))),
  exists newer, writes (h1 ++ h2) = newer ++ writes h2.
Proof. intros. exists (writes h1). apply writes_app. Qed.
End C08.

Print Assumptions C08_view.
Print Assumptions C08_monotonic.
