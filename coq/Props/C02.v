(* C02 — Dispatch order is preserved. Statements only; proofs in ChannelProofs.v, WorldQueue.v.
   C02_partial: proved here is the queue discipline for every policy and every schedule (what
   the reducer takes is an in-order subsequence of what entered the queue; a send appends at the
   tail, the reducer takes the head). That every dispatch's enqueue lies between its invocation
   and its return - which turns program order and real-time order of calls into enqueue order -
   holds in the model because the enqueue and the return are emitted by the same step; that
   step-level fact is checked by the lockstep correspondence, not yet stated as a theorem over
   histories. *)
From RS Require Import Base Channel ChannelProofs Pipeline Script World Hist WorldProofs WorldInv WorldQueue.

Section C02.
Context {State : Type}.
Variable cfg : wconfig (State := State).

Theorem C02_fifo_partial : forall reducers mws progs w, reachable cfg reducers mws progs w ->
  subseq (deqs (w_hist w)) (enqs (w_hist w)).
Proof.
  intros reducers mws progs w R. apply (taken_in_enqueue_order cfg).
  eapply reachable_queue; eauto.
Qed.

(* a phase of a send appends the item at the tail, removes the head (DropOldest eviction) or leaves
   the queue alone; the reducer's recv takes the head *)
Theorem C02_queue_discipline : forall (c c' : chan aid) x ph sr dr,
  send_phase c x ph = Some (c', sr, dr) ->
  (q c' = q c ++ [x] /\ sr = SDone true /\ dr = []) \/
  (exists old, q c = old :: q c' /\ ph = SDo2 /\ sr = SMore SDo3 /\ dr = dropped_action (Some old) /\
               pol c = DropOldest) \/
  (q c' = q c /\ (sr = SDone true -> False) /\
   (dr = [] \/ (ph = SStart /\ pol c = DropLatest /\ sr = SDone false /\ dr = dropped_action (Some x)))).
Proof. intros c c' x ph sr dr. apply send_phase_contents. Qed.

Theorem C02_recv_takes_head : forall (c c' : chan aid) o, recv c = Some (Some o, c') -> q c = o :: q c'.
Proof. intros c c' o R. apply recv_some in R. tauto. Qed.
End C02.

Print Assumptions C02_fifo_partial.
Print Assumptions C02_queue_discipline.
Print Assumptions C02_recv_takes_head.
