(* C02 — Dispatch order is preserved. Statements only; proofs in ChannelProofs.v, WorldQueue.v.
   Proved, for every policy, program and schedule: (1) what the reducer takes is an in-order
   subsequence of what entered the queue (a send appends at the tail, the reducer takes the head);
   (2) in every reachable history every enqueue of an action lies between the invocation and the
   return of a dispatch of that action: the return is the very next event and an invocation is
   older. Hence, if dispatch d1 returned before dispatch d2 was invoked (on any threads, through
   any entry point, effect workers and thunks included), d1's enqueue - directly below its return -
   is older than d2's invocation, which is older than d2's enqueue; by (1) d1 is taken before d2
   whenever both survive. Program order on one thread is the special case. *)
From RS Require Import Base Channel ChannelProofs Pipeline Script World Hist WorldProofs WorldInv WorldQueue WorldStop WorldMetrics WorldOrder.

Section C02.
Context {State : Type}.
Variable cfg : wconfig (State := State).

Theorem C02_fifo : forall reducers mws progs w, reachable cfg reducers mws progs w ->
  subseq (deqs (w_hist w)) (enqs (w_hist w)).
Proof.
  intros reducers mws progs w R. apply (taken_in_enqueue_order cfg).
  eapply reachable_queue; eauto.
Qed.

(* the enqueue of a dispatch lies between its invocation and its return *)
Theorem C02_enqueue_between_invoke_and_return : forall reducers mws progs w l1 a l3,
  reachable cfg reducers mws progs w -> w_hist w = l1 ++ EEnq a :: l3 ->
  (exists l1' t e r, l1 = l1' ++ [ERet t (CDispatch e a) r]) /\
  existsb (is_inv_of a) l3 = true.
Proof.
  intros reducers mws progs w l1 a l3 R E.
  destruct (reachable_order cfg reducers mws progs w R) as (A & B & _ & _).
  split; [eapply adj_positions; eauto|eapply enq_inv_positions; eauto].
Qed.

(* a phase of a send appends the item at the tail, removes the head (DropOldest eviction) or leaves
   the queue alone; the reducer's recv takes the head *)
Theorem C02_queue_discipline : forall (c c' : chan aid) x ph sr dr,
  send_phase c x ph = Some (c', sr, dr) ->
  (q c' = q c ++ [x] /\ sr = SDone true /\ dr = []) \/
  (exists old, q c = old :: q c' /\ ph = SDo2 /\ sr = SMore SDo3 /\ dr = dropped_action (Some old) /\
               pol c = DropOldest) \/
  (q c' = q c /\ (sr = SDone true -> False) /\
   (dr = [] \/ (ph = SStart /\ pol c = DropLatest /\ sr = SDone false /\ dr = dropped_action (Some x)))).
Proof. intros c c' x ph sr dr. apply send_phase_contents. Qed.

Theorem C02_recv_takes_head : forall (c c' : chan aid) o, recv c = Some (Some o, c') -> q c = o :: q c'.
Proof. intros c c' o R. apply recv_some in R. tauto. Qed.
End C02.

Print Assumptions C02_fifo.
Print Assumptions C02_enqueue_between_invoke_and_return.
Print Assumptions C02_queue_discipline.
Print Assumptions C02_recv_takes_head.
