(* C04 — stop() is a barrier and is final. Statements only; proofs in WorldStop.v, WorldQueue.v.
   `pool_idle w` is the condition under which the pool join of stop() returns in the model: the
   reducer loop and every effect task have finished (the 3 s timeout is not modelled). *)
From RS Require Import Base Channel Pipeline Script World Hist WorldProofs WorldInv WorldQueue WorldStop WorldSubs WorldMetrics WorldEffects WorldFwdFinal.

Section C04.
Context {State : Type}.
Variable cfg : wconfig (State := State).

(* the close protocol, in every reachable world: while the store is open no exit marker is queued;
   once close() has taken the sender no dispatcher is inside a send (so nothing is enqueued after
   the marker); the marker, if queued, is the last item; when the reducer has left its loop the
   queue is empty *)
Theorem C04_close_protocol : forall reducers mws progs w, reachable cfg reducers mws progs w ->
  close_state w.
Proof. exact (reachable_close cfg). Qed.

(* barrier: when the pool join of stop() can return, the reducer has left its loop, the store is
   closed, the queue is empty, and under BlockOnFull everything that was accepted into the queue
   has been taken by the reducer (and, the reducer being sequential and finished, processed) *)
Theorem C04_barrier : forall reducers mws progs w, (length progs <= 100)%nat ->
  reachable cfg reducers mws progs w -> pool_idle w = true ->
  get_thread (w_threads w) reducer_tid = Some (TReducer RDone) /\
  w_tx_open w = false /\ q (w_dq w) = [] /\
  (cfg_pol cfg = Block -> rev (enqs (w_hist w)) = rev (deqs (w_hist w))).
Proof. exact (stop_barrier cfg). Qed.

(* final: the world in which that stop() returns is `stopped`, and from then on, along every
   continuation of every schedule, it stays stopped: no reducer-context callback (reducer,
   middleware, direct subscriber), no effect run, no queue traffic, no write-back and no accepted
   dispatch is ever added to the history, and the state never changes *)
Theorem C04_stopped_at_return : forall reducers mws progs w, (length progs <= 100)%nat ->
  reachable cfg reducers mws progs w -> pool_idle w = true -> w_pool w = false -> stopped w.
Proof. exact (stop_return_stopped cfg). Qed.

Theorem C04_final : forall sched w w', stopped w -> run cfg w sched = Some w' ->
  stopped w' /\ louds (w_hist w') = louds (w_hist w) /\ w_state w' = w_state w.
Proof. exact (run_stopped cfg). Qed.

(* C04_partial: deliveries to channeled subscribers after stop() are not covered by C04_final
   (they are ECb (XChan _) events): nothing is *forwarded* any more (C04_forwarding_is_final
   below), and the release waited for the subscriber threads (C10_flush, C10_joins_wait); that no
   delivery happens after stop() returned is stated for the code by the C04/C10 monitors. *)
(* "channeled subscribers flushed ... from then on nothing changes" (WorldFwdFinal.v, every program
   and schedule): once the reducer has left its loop - the shutdown release is in progress or over,
   in particular once stop() has returned - nothing is forwarded to any subscription channel
   any more: along every continuation the forwarded stream of every channeled subscriber and
   iterator stays what it is (what they still receive was forwarded before; with C10_flush and
   C10_joins_wait the release has waited until the channeled subscribers had received it) *)
Theorem C04_stopped_is_releasing : forall (w : world (State := State)), stopped w -> releasing w.
Proof. exact (stopped_releasing). Qed.

Theorem C04_forwarding_is_final : forall reducers mws progs sched (w w' : world (State := State)),
  length progs <= 100 -> reachable cfg reducers mws progs w -> releasing w -> run cfg w sched = Some w' ->
  releasing w' /\ forall sid, fwd sid (w_hist w') = fwd sid (w_hist w).
Proof.
  intros reducers mws progs sched w w' L R RL H.
  exact (forwarded_is_final cfg sched w w' (reachable_fresh cfg reducers mws progs w L R) RL H).
Qed.
End C04.

Print Assumptions C04_close_protocol.
Print Assumptions C04_barrier.
Print Assumptions C04_stopped_at_return.
Print Assumptions C04_final.
Print Assumptions C04_stopped_is_releasing.
Print Assumptions C04_forwarding_is_final.
