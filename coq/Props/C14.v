(* C14 — State iterator yields the notification stream and then ends.
   Statements only; proofs in WorldSubs.v (an iterator is a subscription channel of capacity 1
   with the blocking policy whose consumer is the thread calling next()). *)
From RS Require Import Base Channel ChannelProofs Pipeline Script World Hist WorldProofs WorldInv WorldQueue WorldStop WorldSubs WorldMetrics WorldEffects WorldSids WorldForward WorldFwdFinal WorldFwdSince.

Section C14.
Context {State : Type}.
Variable cfg : wconfig (State := State).

(* what next() has yielded so far is exactly the prefix of what was forwarded to the iterator
   since it was created, in order, without gap or repeat (BlockOnFull: iter() uses it);
   for any policy (iter_with) an in-order subsequence *)
Theorem C14_stream : forall reducers mws progs w sid c, reachable cfg reducers mws progs w ->
  get_chan (w_chans w) sid = Some c ->
  subseq (subrecvs sid (w_hist w)) (subsends sid (w_hist w)) /\
  (pol c = Block -> rev (subsends sid (w_hist w)) = rev (subrecvs sid (w_hist w)) ++ qacts c).
Proof.
  intros reducers mws progs w sid c R G. pose proof (reachable_subq cfg reducers mws progs w R) as I.
  split; [eapply received_subseq; eauto|intros B; eapply block_channel_lossless; eauto].
Qed.

(* once next() has returned None it keeps returning None, without touching the store *)
Theorem C14_none_forever : forall (w : world (State := State)) t r sid l,
  memN sid (w_iter_done w) = true ->
  invoke w t r (CNext sid :: l) false =
    Some (set_thread (emit w (EInv t (CNext sid))) t (TClient r (CNext sid :: l) PCall)) /\
  step_client w t r (CNext sid :: l) PCall =
    Some (emit (set_thread w t (TClient r l PIdle)) (ERet t (CNext sid) (RItem None))).
Proof. intros w t r sid l D. unfold invoke. rewrite D. split; reflexivity. Qed.

(* every notification since the iterator was created reaches it (WorldForward.v; programs whose
   registration calls carry pairwise distinct identifiers, every schedule): as long as the
   iterator's channel (BlockOnFull: iter() uses it) has not been released, one entry per snapshot
   that contains the iterator, in snapshot order (`fowed`: the snapshots are the notifying
   actions, C03_snapshots), is exactly what next() has yielded so far, followed by what is still
   queued, followed by what the notification in progress has still to forward - no gap, no repeat,
   nothing else *)
Theorem C14_every_notification : forall reducers mws progs w sid c pc, distinct_regs progs ->
  reachable cfg reducers mws progs w ->
  get_chan (w_chans w) sid = Some c -> pol c = Block -> tx_alive c = true ->
  get_thread (w_threads w) reducer_tid = Some (TReducer pc) ->
  rev (fowed sid (w_hist w)) = rev (subrecvs sid (w_hist w)) ++ qacts c ++ pendingf sid pc.
Proof. intros. eapply consumed_is_owed; eauto. Qed.

(* "after the store is stopped it yields the remaining pairs" (WorldFwdFinal.v, WorldFwdSince.v;
   distinct identifiers, every schedule): once the reducer has left its loop - in particular once
   stop() has returned - at every later moment what next() has yielded so far followed by what is
   still queued is exactly what had been forwarded by then: nothing is added, nothing is lost *)
Theorem C14_remaining_pairs_after_stop : forall reducers mws progs w sched w' sid c',
  length progs <= 100 -> distinct_regs progs -> reachable cfg reducers mws progs w -> releasing w ->
  run cfg w sched = Some w' -> get_chan (w_chans w') sid = Some c' -> pol c' = Block ->
  rev (subsends sid (w_hist w)) = rev (subrecvs sid (w_hist w')) ++ qacts c'.
Proof.
  intros reducers mws progs w sched w' sid c' L D R RL H G P.
  rewrite <- (stream_is_final cfg reducers mws progs w sched w' sid L D R RL H).
  apply (block_channel_lossless w' sid c'); [|exact G|exact P].
  apply (reachable_subq cfg reducers mws progs). exact (reachable_run cfg _ _ _ _ _ _ R H).
Qed.

(* C14_partial: that None comes only after everything forwarded was yielded (the position of the
   end marker) is decided by engine L and the C14 monitor. Releasing an iterator early is the
   known finding F5 (see C13). *)
End C14.

Print Assumptions C14_stream.
Print Assumptions C14_none_forever.
Print Assumptions C14_every_notification.
Print Assumptions C14_remaining_pairs_after_stop.
