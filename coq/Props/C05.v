(* C05 — BlockOnFull is lossless and the queue never exceeds its capacity.
   Statements only; proofs in ChannelProofs.v, WorldProofs.v, WorldQueue.v.
   `reachable cfg reducers mws progs w`: w is reached by some schedule from the initial world of
   any configuration (any callbacks, capacity, policy), any initial reducers/middlewares and any
   client programs. *)
From Coq Require Import Permutation.
From RS Require Import Base Channel ChannelProofs Pipeline Script World Hist WorldProofs WorldInv WorldQueue.

Section C05.
Context {State : Type}.
Variable cfg : wconfig (State := State).

(* in every reachable world the dispatch queue and every subscription channel hold at most
   `capacity` items, and the dispatch queue keeps the configured capacity and policy *)
Theorem C05_bound : forall reducers mws progs w, reachable cfg reducers mws progs w ->
  length (q (w_dq w)) <= cfg_cap cfg /\ cap (w_dq w) = cfg_cap cfg /\ pol (w_dq w) = cfg_pol cfg /\
  (forall sid c, get_chan (w_chans w) sid = Some c -> length (q c) <= cap c).
Proof.
  intros reducers mws progs w R. destruct (reachable_bound cfg reducers mws progs w R) as (B & C & P & CH).
  unfold bounded in B. rewrite C in B. repeat split; auto.
Qed.

(* under BlockOnFull nothing is ever discarded: no action is evicted or rejected, and what was
   enqueued is exactly what the reducer has taken followed by what is still queued, in order *)
Theorem C05_lossless : forall reducers mws progs w, reachable cfg reducers mws progs w ->
  cfg_pol cfg = Block ->
  drops (w_hist w) = [] /\ rejects (w_hist w) = [] /\
  rev (enqs (w_hist w)) = rev (deqs (w_hist w)) ++ acts (q (w_dq w)).
Proof. intros. apply (block_lossless cfg); [eapply reachable_queue; eauto|assumption]. Qed.

(* the caller waits exactly when the queue is full: the blocking send is enabled iff there is room *)
Theorem C05_blocks_iff_full : forall (c : chan aid) x,
  send_phase c x SBlockWait <> None <-> length (q c) < cap c.
Proof. exact send_block_enabled. Qed.

(* ... and it resumes as soon as the reducer makes room: after a recv the send is enabled *)
Theorem C05_wakeup : forall (c c' : chan aid) o x, 0 < cap c -> length (q c) <= cap c ->
  recv c = Some (Some o, c') -> send_phase c' x SBlockWait <> None.
Proof.
  intros c c' o x C B R. apply send_block_enabled. apply recv_some in R.
  destruct R as (C' & _ & _ & Q). rewrite Q in B. cbn in B. lia.
Qed.
End C05.

Print Assumptions C05_bound.
Print Assumptions C05_lossless.
Print Assumptions C05_blocks_iff_full.
Print Assumptions C05_wakeup.
