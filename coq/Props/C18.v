(* C18 — Metrics counters add up. Statements only; proofs in WorldMetrics.v, WorldIssued.v.
   The counters are compared with totals over the ghost history: what they are supposed to count. *)
From RS Require Import Base Channel Pipeline Script World Hist WorldProofs WorldInv WorldQueue WorldStop WorldMetrics WorldIssued.

Section C18.
Context {State : Type}.
Variable cfg : wconfig (State := State).

(* event counters never decrease: every step of every thread *)
Theorem C18_monotone : forall (w w' : world (State := State)) t,
  step cfg w t = Some w' -> m_le (w_metrics w) (w_metrics w').
Proof. intros w w' t. apply (step_monotone cfg). Qed.

(* in every reachable world: action_received = items the reducer took (marker included);
   action_dropped = evictions + rejections (+ discarded notifications of subscription channels);
   action_reduced = actions that went through the reducers (not vetoed);
   middleware_executed = hook invocations; error_occurred = dispatches rejected by the store's
   own dispatch method (StoreImpl / Store trait) because it was closed *)
Theorem C18_counters : forall reducers mws progs w, reachable cfg reducers mws progs w ->
  counters_ok w.
Proof. intros reducers mws progs w R. apply (reachable_metrics cfg reducers mws progs w R). Qed.

(* balance whenever the queue is empty, in particular once the store has stopped:
   received (marker excluded) + dropped (subscription channels excluded) = actions that entered
   the queue or were rejected by DropLatest, i.e. the dispatches that found the store open *)
Theorem C18_balance : forall reducers mws progs w, reachable cfg reducers mws progs w ->
  q (w_dq w) = [] ->
  (m_received (w_metrics w) + m_dropped (w_metrics w) =
   N.of_nat (length (enqs (w_hist w)) + length (rejects (w_hist w))) +
   total c_exit (w_hist w) + total c_subdrop (w_hist w))%N.
Proof. exact (metrics_balance cfg). Qed.

(* C18_partial: effect_issued = effects the reducers returned is not yet a theorem (it needs the
   reducer's program counter invariant); it is decided by engines S and L (exact comparison of
   the counters with the model at every get_metrics and at the end) and by the C18 monitor. *)

(* effect_issued = the effects the reducer calls returned (one CbReduce event with an effect
   each), whenever the reducer is not between collecting the effects of an action and counting
   them - in particular while it waits in recv and once it has left its loop (after stop) *)
Theorem C18_effect_issued : forall reducers mws progs w pc, length progs <= 100 ->
  reachable cfg reducers mws progs w ->
  get_thread (w_threads w) reducer_tid = Some (TReducer pc) ->
  (forall a s effs nd, pc <> RWrite a s effs nd /\ pc <> RBeforeEffect a s effs nd) ->
  m_issued (w_metrics w) =
  total (fun e => match e with ECb XReducer (CbReduce _ _ _ _ _ (Some _)) => 1%N | _ => 0%N end) (w_hist w).
Proof. intros reducers mws progs w pc L R G NP. exact (issued_balance cfg reducers mws progs w pc L R G NP). Qed.
End C18.

Print Assumptions C18_monotone.
Print Assumptions C18_counters.
Print Assumptions C18_balance.
Print Assumptions C18_effect_issued.
