(* C06 — Drop policies discard exactly what they name, never block, and account for it.
   Statements only; proofs in ChannelProofs.v, WorldQueue.v. *)
From Coq Require Import Permutation.
From RS Require Import Base Channel ChannelProofs ChannelBursts Pipeline Script World Hist WorldProofs WorldInv WorldQueue.

Section C06.
Context {State : Type}.
Variable cfg : wconfig (State := State).

(* with a drop policy no phase of a send ever waits, and the blocking phase is never entered *)
Theorem C06_nonblocking : forall (c : chan aid) x ph, pol c <> Block -> ph <> SBlockWait ->
  send_phase c x ph <> None.
Proof. exact drop_policy_never_waits. Qed.

Theorem C06_never_parks_blocking : forall (c c' : chan aid) x ph ph' dr, pol c <> Block ->
  send_phase c x ph = Some (c', SMore ph', dr) -> ph' <> SBlockWait.
Proof. intros c c' x ph ph' dr. apply drop_policy_phases. Qed.

(* one send with no consumer in between: DropOldest keeps the newest `capacity` items of
   queue ++ [x], DropLatest the oldest `capacity` (and reports Err exactly when the queue was full) *)
Theorem C06_drop_oldest_one : forall (c : chan aid) x, pol c = DropOldest -> 0 < cap c -> bounded c ->
  exists c' ok d, send_seq c x = Some (c', ok, d) /\ q c' = lastn (cap c) (q c ++ [x]) /\
                  cap c' = cap c /\ pol c' = pol c /\ bounded c'.
Proof. exact drop_oldest_one. Qed.

Theorem C06_drop_latest_one : forall (c : chan aid) x, pol c = DropLatest -> bounded c ->
  exists c' ok d, send_seq c x = Some (c', ok, d) /\ q c' = firstn (cap c) (q c ++ [x]) /\
                  cap c' = cap c /\ pol c' = pol c /\ bounded c' /\
                  (ok = false <-> length (q c) = cap c).
Proof. exact drop_latest_one. Qed.

(* "after a burst of n > capacity actions exactly the newest (resp. oldest) `capacity` of them
   remain, in dispatch order": bursts of any length with no consumer running (ChannelBursts.v) *)
Theorem C06_burst_drop_oldest : forall (l : list (item aid)) (c : chan aid),
  pol c = DropOldest -> 0 < cap c -> bounded c ->
  q (fst (send_all c l)) = lastn (cap c) (q c ++ l) /\ cap (fst (send_all c l)) = cap c.
Proof. exact drop_oldest_burst. Qed.

Theorem C06_burst_drop_latest : forall (l : list (item aid)) (c : chan aid),
  pol c = DropLatest -> bounded c ->
  q (fst (send_all c l)) = firstn (cap c) (q c ++ l) /\ cap (fst (send_all c l)) = cap c.
Proof. exact drop_latest_burst. Qed.

Example C06_burst_example :
  q (fst (send_all (chan_new 2 DropOldest) [IAct 1%N; IAct 2%N; IAct 3%N; IAct 4%N; IAct 5%N])) = [IAct 4%N; IAct 5%N] /\
  q (fst (send_all (chan_new 2 DropLatest) [IAct 1%N; IAct 2%N; IAct 3%N; IAct 4%N; IAct 5%N])) = [IAct 1%N; IAct 2%N].
Proof. vm_compute. split; reflexivity. Qed.

(* conservation, in every reachable world and for every policy: the actions that entered the queue
   are, as a multiset, exactly those taken by the reducer, those evicted, and those still queued -
   never both, never neither; and what the reducer took is an in-order subsequence of what entered *)
Theorem C06_conservation : forall reducers mws progs w, reachable cfg reducers mws progs w ->
  Permutation (enqs (w_hist w))
              (rev (acts (q (w_dq w))) ++ deqs (w_hist w) ++ drops (w_hist w)) /\
  subseq (deqs (w_hist w)) (enqs (w_hist w)).
Proof.
  intros reducers mws progs w R. pose proof (reachable_queue cfg reducers mws progs w R) as I.
  split; [apply I|apply (taken_in_enqueue_order cfg); exact I].
Qed.
End C06.

Print Assumptions C06_nonblocking.
Print Assumptions C06_never_parks_blocking.
Print Assumptions C06_drop_oldest_one.
Print Assumptions C06_drop_latest_one.
Print Assumptions C06_conservation.
Print Assumptions C06_burst_drop_oldest.
Print Assumptions C06_burst_drop_latest.
