(* C17 — Builder: validation and option independence. Statements only; proofs in BuilderProofs.v. *)
From RS Require Import Base Builder BuilderProofs.

(* build() fails exactly when the capacity is zero, the name is empty, or there is no reducer and
   without_reducer() was not requested *)
Theorem C17_build_err_iff : forall b,
  (exists e, build b = inr e) <->
  (b_capacity b = 0 \/ b_name b = 0%N \/ (b_reducers b = [] /\ b_without b = false)).
Proof. exact build_err_iff. Qed.

Theorem C17_build_ok_iff : forall b,
  (exists c, build b = inl c) <->
  (b_capacity b <> 0 /\ b_name b <> 0%N /\ (b_reducers b <> [] \/ b_without b = true)).
Proof. exact build_ok_iff. Qed.

(* otherwise the store uses exactly the configured name, capacity, policy, reducers, middlewares *)
Theorem C17_config : forall b c, build b = inl c ->
  c_name c = b_name b /\ c_reducers c = b_reducers b /\ c_capacity c = b_capacity b /\
  c_policy c = b_policy b /\ c_mws c = b_mws b.
Proof. exact build_config. Qed.

(* options are independent: calls of different option groups commute, and two call sequences with
   the same per-group subsequences build the same store *)
Theorem C17_commute : forall b c1 c2, group_of c1 <> group_of c2 ->
  apply_bcall (apply_bcall b c1) c2 = apply_bcall (apply_bcall b c2) c1.
Proof. exact apply_commute. Qed.

Theorem C17_order_independent : forall b l1 l2,
  (forall g, filter (fun c => group_eqb (group_of c) g) l1 =
             filter (fun c => group_eqb (group_of c) g) l2) ->
  apply_bcalls b l1 = apply_bcalls b l2.
Proof. exact order_independent. Qed.

(* the last setting of an option wins *)
Theorem C17_last_wins : forall b l1 l2,
  (forall n, Forall (fun c => group_of c <> GName) l2 -> b_name (apply_bcalls b (l1 ++ BName n :: l2)) = n) /\
  (forall n, Forall (fun c => group_of c <> GCapacity) l2 -> b_capacity (apply_bcalls b (l1 ++ BCapacity n :: l2)) = n) /\
  (forall p, Forall (fun c => group_of c <> GPolicy) l2 -> b_policy (apply_bcalls b (l1 ++ BPolicy p :: l2)) = p).
Proof.
  intros; repeat split; intros;
    [now apply last_name_wins | now apply last_capacity_wins | now apply last_policy_wins].
Qed.

(* with_* replaces, add_* appends *)
Theorem C17_with_replaces_add_appends : forall b,
  (forall r, b_reducers (apply_bcall b (BWithReducer r)) = [r]) /\
  (forall rs, b_reducers (apply_bcall b (BWithReducers rs)) = rs) /\
  (forall m, b_mws (apply_bcall b (BWithMiddleware m)) = [m]) /\
  (forall ms, b_mws (apply_bcall b (BWithMiddlewares ms)) = ms) /\
  (forall r, b_reducers (apply_bcall b (BAddReducer r)) = b_reducers b ++ [r]) /\
  (forall m, b_mws (apply_bcall b (BAddMiddleware m)) = b_mws b ++ [m]).
Proof. intros; repeat split. Qed.

(* a without_reducer() request is not cancelled by any other option (what fix F1 restored) *)
Theorem C17_without_stands : forall b l,
  Forall (fun c => group_of c <> GReducers) l ->
  b_without (apply_bcalls (apply_bcall b BWithoutReducer) l) = true.
Proof. exact without_stands. Qed.

Print Assumptions C17_build_err_iff.
Print Assumptions C17_build_ok_iff.
Print Assumptions C17_config.
Print Assumptions C17_commute.
Print Assumptions C17_order_independent.
Print Assumptions C17_last_wins.
Print Assumptions C17_with_replaces_add_appends.
Print Assumptions C17_without_stands.

(* non-vacuity: the chain that failed before fix F1 *)
Example C17_example_f1 :
  build (apply_bcalls builder_new [BWithoutReducer; BCapacity 3]) =
  inl (mkConfig DEFAULT_NAME [] 3 Block []).
Proof. vm_compute. reflexivity. Qed.
