(* C01 — State is the sequential fold of the reducer chain over accepted actions.
   Statements only; proofs in PipelineProofs.v, WorldInv.v, WorldQueue.v.
   C01_partial: proved are (1) the chain of one action, (2) that the state is always the latest
   write-back, (3) that under BlockOnFull every enqueued action is taken exactly once, in order.
   That the sequence of write-backs is the fold of (1) over the taken actions is checked by the
   lockstep correspondence and the C01 monitor, not yet stated as a theorem over histories. *)
From RS Require Import Base Channel Pipeline PipelineProofs Script World Hist WorldProofs WorldInv WorldQueue.

Section C01_pure.
Context {State Action Eff : Type}.
Variable eid : Eff -> N.

(* the chain: reducer j+1 receives exactly what reducer j returned, the first receives the state
   the action started from, every reducer is called once with the reducer's own answer recorded,
   and whatever the last one returns is the result - whether it says Dispatch or Keep *)
Theorem C01_chain : forall (rs : list (reducer State Action Eff)) j s a,
  let calls := chain_calls j rs s a in
  length calls = length rs /\
  (forall x l, calls = x :: l -> snd (fst x) = s) /\
  (forall l1 x y l2, calls = l1 ++ x :: y :: l2 -> snd (fst y) = dop_state (snd x)) /\
  (forall k c, nth_error calls k = Some c -> exists r, nth_error rs k = Some r /\ snd c = r (snd (fst c)) a) /\
  fst (fst (fst (run_reducers eid j rs s a [] true))) = chain_state s calls.
Proof.
  intros rs j s a. cbn zeta. repeat split.
  - apply chain_calls_length.
  - apply chain_calls_head.
  - apply chain_calls_threading.
  - apply chain_calls_answer.
  - rewrite run_reducers_spec. reflexivity.
Qed.

(* a vetoed action leaves the state alone; otherwise the chain result is what gets written *)
Theorem C01_action_result : forall (mws : list (middleware State Action Eff))
    (rs : list (reducer State Action Eff)) subs s a,
  o_state (process_action eid mws rs subs s a) =
  if vetoed mws a s then s else chain_state s (chain_calls 0 rs s a).
Proof. intros. rewrite (process_action_spec eid). reflexivity. Qed.
End C01_pure.

Section C01_world.
Context {State : Type}.
Variable cfg : wconfig (State := State).

(* the state is always the latest write-back of the reducer loop (never anything else) *)
Theorem C01_state_is_last_write : forall reducers mws progs w, reachable cfg reducers mws progs w ->
  w_state w = last_written (cfg_init cfg) (w_hist w).
Proof. intros reducers mws progs w R. apply (reachable_state cfg reducers mws progs w R). Qed.

(* under BlockOnFull every accepted (enqueued) action is taken by the reducer exactly once, in
   the order it entered the queue: enqueued = taken ++ still queued, as lists *)
Theorem C01_exactly_once_partial : forall reducers mws progs w, reachable cfg reducers mws progs w ->
  cfg_pol cfg = Block ->
  rev (enqs (w_hist w)) = rev (deqs (w_hist w)) ++ acts (q (w_dq w)).
Proof. intros. apply (block_lossless cfg); [eapply reachable_queue; eauto|assumption]. Qed.
End C01_world.

Print Assumptions C01_chain.
Print Assumptions C01_action_result.
Print Assumptions C01_state_is_last_write.
Print Assumptions C01_exactly_once_partial.
