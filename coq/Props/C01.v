(* C01 — State is the sequential fold of the reducer chain over accepted actions.
   Statements only; proofs in PipelineProofs.v, WorldInv.v, WorldQueue.v.
   Proved: (1) the chain of one action, (2) the state is always the latest write-back, (3) under
   BlockOnFull every enqueued action is taken exactly once, in order, (4) for programs that do not
   register reducers or middlewares at run time, the sequence of write-backs is the sequential
   fold of the per-action pipeline over the taken actions, each starting from the state the
   previous one left (the first from the initial state). Runtime registration (add_reducer /
   add_middleware while actions flow) is C07's subject and is decided by engine L. *)
From RS Require Import Base Channel Pipeline PipelineProofs Script World Hist WorldProofs WorldInv WorldQueue WorldStop WorldFold WorldFoldDyn.

Section C01_pure.
Context {State Action Eff : Type}.
Variable eid : Eff -> N.

(* the chain: reducer j+1 receives exactly what reducer j returned, the first receives the state
   the action started from, every reducer is called once with the reducer's own answer recorded,
   and whatever the last one returns is the result - whether it says Dispatch or Keep *)
Theorem C01_chain : forall (rs : list (reducer State Action Eff)) j s a,
  let calls := chain_calls j rs s a in
  length calls = length rs /\
  (forall x l, calls = x :: l -> snd (fst x) = s) /\
  (forall l1 x y l2, calls = l1 ++ x :: y :: l2 -> snd (fst y) = dop_state (snd x)) /\
  (forall k c, nth_error calls k = Some c -> exists r, nth_error rs k = Some r /\ snd c = r (snd (fst c)) a) /\
  fst (fst (fst (run_reducers eid j rs s a [] true))) = chain_state s calls.
Proof.
  intros rs j s a. cbn zeta. repeat split.
  - apply chain_calls_length.
  - apply chain_calls_head.
  - apply chain_calls_threading.
  - apply chain_calls_answer.
  - rewrite run_reducers_spec. reflexivity.
Qed.

(* a vetoed action leaves the state alone; otherwise the chain result is what gets written *)
Theorem C01_action_result : forall (mws : list (middleware State Action Eff))
    (rs : list (reducer State Action Eff)) subs s a,
  o_state (process_action eid mws rs subs s a) =
  if vetoed mws a s then s else chain_state s (chain_calls 0 rs s a).
Proof. intros. rewrite (process_action_spec eid). reflexivity. Qed.
End C01_pure.

Section C01_world.
Context {State : Type}.
Variable cfg : wconfig (State := State).

(* the state is always the latest write-back of the reducer loop (never anything else) *)
Theorem C01_state_is_last_write : forall reducers mws progs w, reachable cfg reducers mws progs w ->
  w_state w = last_written (cfg_init cfg) (w_hist w).
Proof. intros reducers mws progs w R. apply (reachable_state cfg reducers mws progs w R). Qed.

(* under BlockOnFull every accepted (enqueued) action is taken by the reducer exactly once, in
   the order it entered the queue: enqueued = taken ++ still queued, as lists *)
Theorem C01_exactly_once_partial : forall reducers mws progs w, reachable cfg reducers mws progs w ->
  cfg_pol cfg = Block ->
  rev (enqs (w_hist w)) = rev (deqs (w_hist w)) ++ acts (q (w_dq w)).
Proof. intros. apply (block_lossless cfg); [eapply reachable_queue; eauto|assumption]. Qed.

(* the fold: for every schedule of every program without runtime registration, in every reachable
   world, with ws = the write-backs oldest first: their states are fold_states over their actions
   (each action's result computed by post_state = the veto decision + the reducer chain, from the
   state the previous action left; the first from the initial state); the current state is the
   last of them; and the actions written are exactly the actions taken by the reducer, in order,
   except possibly the one being processed right now *)
Theorem C01_fold : forall RS0 MS0 progs w, (length progs <= 100)%nat ->
  Forall (Forall static_call) progs -> reachable cfg RS0 MS0 progs w ->
  let ws := rev (writes (w_hist w)) in
  map snd ws = fold_states cfg RS0 MS0 (cfg_init cfg) (map fst ws) /\
  w_state w = prev_state (cfg_init cfg) (writes (w_hist w)) /\
  (rev (deqs (w_hist w)) = map fst ws \/ exists a, rev (deqs (w_hist w)) = map fst ws ++ [a]).
Proof.
  intros RS0 MS0 progs w L SP R. pose proof (reachable_fold cfg RS0 MS0 progs w SP R) as I.
  pose proof (reachable_tids cfg RS0 MS0 progs w L R) as TI.
  cbn zeta. split; [|split].
  - apply chain_ok_fold. apply I.
  - apply I.
  - apply (taken_vs_written cfg RS0 MS0 w I TI).
Qed.

(* the fold under runtime registration (WorldFoldDyn.v; every program - add_reducer and
   add_middleware calls included - and every schedule): every write-back (a, s) ever made is the
   pipeline of a applied to the previously written state, run with a middleware list MS and a
   reducer list RS1 that lie between the registry as it was when the reducer took a and the
   registry as it is at the write-back (registries only grow at the end: everything registered
   before the action was taken is in, in registration order; nothing unregistered is); and the
   state is the last write-back *)
Theorem C01_fold_runtime_registration : forall RS0 MS0 progs w h2 a s h1,
  reachable cfg RS0 MS0 progs w -> w_hist w = h2 ++ EWrite a s :: h1 ->
  exists MS RS1,
    between (mws_at_deq MS0 h1) MS (mws_all MS0 h1) /\ between (reds_at_deq RS0 h1) RS1 (reds_all RS0 h1) /\
    s = step_with cfg MS RS1 (last_written (cfg_init cfg) h1) a.
Proof. intros RS0 MS0 progs w h2 a s h1 R E. exact (write_back_is_pipeline_step cfg RS0 MS0 progs w h2 a s h1 R E). Qed.

Theorem C01_state_and_registries : forall RS0 MS0 progs w, reachable cfg RS0 MS0 progs w ->
  w_state w = last_written (cfg_init cfg) (w_hist w) /\
  w_mws w = mws_all MS0 (w_hist w) /\ w_reducers w = reds_all RS0 (w_hist w).
Proof. intros RS0 MS0 progs w R. destruct (writes_are_pipeline_steps cfg RS0 MS0 progs w R) as (_ & A & B & C). auto. Qed.
End C01_world.

Print Assumptions C01_chain.
Print Assumptions C01_action_result.
Print Assumptions C01_state_is_last_write.
Print Assumptions C01_exactly_once_partial.
Print Assumptions C01_fold.
Print Assumptions C01_fold_runtime_registration.
Print Assumptions C01_state_and_registries.
