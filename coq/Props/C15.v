(* C15 — Dropping a DroppableStore is stop(). Statements only.
   In the model the drop of a DroppableStore *is* the sequence of steps of stop(): the invocation
   differs only in the name of the call recorded in the history. All theorems of C04 quantify over
   arbitrary programs and therefore hold for programs that drop a DroppableStore; the substance
   of C15 is the correspondence (engine L with `drop` in place of `stop`, store_droppable.rs). *)
From RS Require Import Base Channel Pipeline Script World Hist WorldProofs WorldInv WorldQueue WorldStop.

Section C15.
Context {State : Type}.
Variable cfg : wconfig (State := State).

Theorem C15_drop_is_stop : forall (w : world (State := State)) t r l,
  invoke w t r (CDropStore :: l) false =
    Some (set_thread (emit w (EInv t CDropStore)) t (TClient r (CDropStore :: l) (PCloseTx true))) /\
  invoke w t r (CStop :: l) false =
    Some (set_thread (emit w (EInv t CStop)) t (TClient r (CStop :: l) (PCloseTx true))).
Proof. intros; split; reflexivity. Qed.

(* hence the barrier and finality of C04, verbatim *)
Theorem C15_barrier : forall reducers mws progs w, (length progs <= 100)%nat ->
  reachable cfg reducers mws progs w -> pool_idle w = true ->
  get_thread (w_threads w) reducer_tid = Some (TReducer RDone) /\
  w_tx_open w = false /\ q (w_dq w) = [] /\
  (cfg_pol cfg = Block -> rev (enqs (w_hist w)) = rev (deqs (w_hist w))).
Proof. exact (stop_barrier cfg). Qed.

Theorem C15_final : forall sched w w', stopped w -> run cfg w sched = Some w' ->
  stopped w' /\ louds (w_hist w') = louds (w_hist w) /\ w_state w' = w_state w.
Proof. exact (run_stopped cfg). Qed.
End C15.

Print Assumptions C15_drop_is_stop.
Print Assumptions C15_barrier.
Print Assumptions C15_final.
