(* C19 — Store instances are independent. Statements only; proofs in World2.v. *)
From RS Require Import Base Channel Pipeline Script World World2.

Section C19.
Context {State : Type}.
Variables cfgA cfgB : wconfig (State := State).

(* a step of one store leaves every component of the other unchanged ... *)
Theorem C19_frame : forall (w w' : world2 (State := State)) s t, step2 cfgA cfgB w s t = Some w' ->
  match s with SideA => wb w' = wb w | SideB => wa w' = wa w end.
Proof. intros w w' s t. apply (step2_frame cfgA cfgB). Qed.

(* ... and does not change what the other can do next *)
Theorem C19_other_unaffected : forall (w w' : world2 (State := State)) s t,
  step2 cfgA cfgB w s t = Some w' ->
  match s with
  | SideA => forall t', step cfgB (wb w') t' = step cfgB (wb w) t'
  | SideB => forall t', step cfgA (wa w') t' = step cfgA (wa w) t'
  end.
Proof. intros w w' s t. apply (step2_other_unaffected cfgA cfgB). Qed.

(* the projection of any interleaved run onto one store is a run of that store alone: every
   per-store theorem (C01 ... C18) holds for each store of a pair *)
Theorem C19_projection : forall sched (w w' : world2 (State := State)),
  run2 cfgA cfgB w sched = Some w' ->
  run cfgA (wa w) (map snd (filter is_a sched)) = Some (wa w') /\
  run cfgB (wb w) (map snd (filter is_b sched)) = Some (wb w').
Proof. exact (run2_project cfgA cfgB). Qed.
End C19.

Print Assumptions C19_frame.
Print Assumptions C19_other_unaffected.
Print Assumptions C19_projection.
