(* C09 — Subscription lifecycle: notified while registered, silent after, released once.
   Statements only; proofs in WorldRegistry.v, WorldSids.v, WorldRelease.v.
   C09_partial: proved are the registry facts and the unsubscribe steps of the model; that no
   notification begins after unsubscribe() returned is FALSE of the code as it stands for the one
   notification whose snapshot was taken before (known finding F3, reproduced by the model); the
   lifecycle over whole histories is decided by engine L and the C09 monitor with that class. *)
From RS Require Import Base Channel Pipeline Script World Hist WorldRegistry WorldSids WorldRelease WorldRegistered.

Section C09.
Context {State : Type}.

(* after unsubscribe the subscriber is no longer registered; the others are unaffected and keep
   their registration order; unsubscribing twice is the same as once *)
Theorem C09_registry : forall (l : list subentry) sid,
  find_sub (remove_sub l sid) sid = None /\
  (forall sid', sid' <> sid -> find_sub (remove_sub l sid) sid' = find_sub l sid') /\
  subseq (remove_sub l sid) l /\
  remove_sub (remove_sub l sid) sid = remove_sub l sid.
Proof.
  intros l sid. split; [apply find_after_remove|split; [intros; now apply find_other_after_remove|
  split; [apply remove_keeps_order|apply remove_twice]]].
Qed.

(* calling unsubscribe() again (or for something never registered) does nothing: no callback,
   nothing changes, the call returns *)
Theorem C09_unsubscribe_again : forall (w : world (State := State)) t r sid l,
  subs_free w = true -> find_sub (w_subs w) sid = None ->
  step_client w t r (CUnsubscribe sid :: l) (PUnsubLock sid) =
    Some (emit (set_thread w t (TClient r l PIdle)) (ERet t (CUnsubscribe sid) RUnit)).
Proof. exact unsubscribe_unregistered. Qed.

(* unsubscribe() of a registered direct subscriber removes it and calls on_unsubscribe once, in
   the caller's context, before returning *)
Theorem C09_unsubscribe_direct : forall (w : world (State := State)) t r sid l,
  subs_free w = true -> find_sub (w_subs w) sid = Some (mkSub sid SKDirect) ->
  step_client w t r (CUnsubscribe sid :: l) (PUnsubLock sid) =
    Some (emit (set_thread (emit (set_subs w (remove_sub (w_subs w) sid)) (ECb (XThread t) (CbOnUnsub sid)))
                           t (TClient r l PIdle))
               (ERet t (CUnsubscribe sid) RUnit)).
Proof. exact unsubscribe_direct. Qed.

(* programs whose registration calls carry pairwise distinct identifiers (the real API hands out a
   fresh Subscription per call): in every reachable world the registry holds at most one entry per
   identifier - so unsubscribe removes exactly the caller's entry and nobody else's *)
Theorem C09_registry_unique : forall (cfg : wconfig (State := State)) reducers mws progs w,
  length progs <= 100 ->
  NoDup (flat_map (flat_map (fun c => match c with
                                      | CAddSubscriber s | CSubscribeSelector s _ | CSubscribed s _ _ | CIter s _ _ => [s]
                                      | _ => []
                                      end)) progs) ->
  reachable cfg reducers mws progs w -> NoDup (map se_id (w_subs w)).
Proof. intros cfg reducers mws progs w L D R. exact (registry_unique cfg reducers mws progs w L D R). Qed.

(* a direct subscriber gets on_unsubscribe exactly once (same programs, every schedule): the
   releases it has received so far (in the unsubscribing caller's context or, at shutdown, in the
   reducer's), plus 1 while its entry is still registered - or still waits for the shutdown release
   in progress - equal the add_subscriber calls for it that have returned, of which there is at
   most one. Hence never twice; and once it is neither registered nor waiting, exactly once. *)
Theorem C09_released_exactly_once : forall (cfg : wconfig (State := State)) reducers mws progs w sid pc,
  length progs <= 100 -> distinct_regs progs -> reachable cfg reducers mws progs w ->
  get_thread (w_threads w) reducer_tid = Some (TReducer pc) ->
  tot (c_rel sid) (w_hist w) + live sid (w_subs w) pc = tot (c_ret sid) (w_hist w) /\
  tot (c_ret sid) (w_hist w) <= 1.
Proof. intros cfg reducers mws progs w sid pc L D R G. exact (released_exactly_once cfg reducers mws progs w sid pc L D R G). Qed.

(* "registered before an action is dispatched and stays registered ... is notified of that action"
   (WorldRegistered.v, every program and schedule): a snapshot contains every identifier whose
   registration call had returned and for which no unsubscribing call (unsubscribe, or the
   iterator calls that release an ended iterator) had been invoked when it was taken; and until
   the shutdown release is over the registry itself holds every such identifier - so nobody else's
   unsubscribe, and nothing but the shutdown, ever removes it ("other subscribers are unaffected") *)
Theorem C09_notified_while_registered : forall (cfg : wconfig (State := State)) reducers mws progs w h2 a s snap h1 sid,
  length progs <= 100 -> reachable cfg reducers mws progs w ->
  w_hist w = h2 ++ ESnapshot a s snap :: h1 -> reg_live sid h1 = true -> In sid (ids snap).
Proof. intros. eapply registered_in_snapshot; eauto. Qed.

Theorem C09_registry_keeps_registered : forall (cfg : wconfig (State := State)) reducers mws progs w sid,
  length progs <= 100 -> reachable cfg reducers mws progs w -> reg_live sid (w_hist w) = true ->
  In sid (ids (w_subs w)) \/ get_thread (w_threads w) reducer_tid = Some (TReducer RDone).
Proof. intros. eapply registered_in_registry; eauto. Qed.
End C09.

Print Assumptions C09_registry.
Print Assumptions C09_unsubscribe_again.
Print Assumptions C09_unsubscribe_direct.
Print Assumptions C09_registry_unique.
Print Assumptions C09_released_exactly_once.
Print Assumptions C09_notified_while_registered.
Print Assumptions C09_registry_keeps_registered.
