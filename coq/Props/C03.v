(* C03 — Direct subscribers see every notifying action once, in order, with its state.
   Statements only; proofs in PipelineProofs.v, WorldNotify.v, WorldSnap.v.
   Per action (C03_notify_pure_partial, every configuration): who is called, with what.
   Over a whole run, every schedule (C03_stream): the calls made in the reducer context are,
   snapshot by snapshot and in the order of the snapshot, exactly one call per direct subscriber
   of that snapshot, with the snapshot's action and state - no gap, no repeat, no reordering.
   Which actions get a snapshot (C03_snapshots, programs without runtime registration of reducers
   or middlewares): exactly the write-backs whose chain asked to notify and that no
   before_dispatch hook suppressed, in reduce order, each with the state that action produced.
   What a snapshot contains (C03_whole_run_subscriber_in_every_snapshot, WorldRegistered.v, every
   program and schedule): every subscriber whose registration call had returned and for which no
   unsubscribing call had been invoked when the snapshot was taken. *)
From RS Require Import Base Pipeline PipelineProofs Channel Script World Hist WorldSids WorldRegistered WorldFold WorldNotify WorldSnap.

Section C03.
Context {State Action Eff : Type}.
Variable eid : Eff -> N.

(* for one action: the subscribers are called iff the last reducer answered Dispatch (or there is
   no reducer, or the action was vetoed) and no called before_dispatch hook answered Done; then
   every direct subscriber is called exactly once, in registration order, with the new state and
   the action; otherwise nobody is called *)
Theorem C03_notify_pure_partial : forall (mws : list (middleware State Action Eff))
    (rs : list (reducer State Action Eff)) (subs : list N) s a,
  let o := process_action eid mws rs subs s a in
  let s' := post_state mws rs s a in
  o_notified o = need_dispatch mws rs s a && negb (any_done (bd_verdicts mws a s')) /\
  filter is_notify (o_events o) = if o_notified o then map (fun i => CbNotify i s' a) subs else [].
Proof. exact (notify_exactly eid). Qed.

(* the last reducer decides: need_dispatch is the answer of the last reducer of the chain *)
Theorem C03_last_reducer_decides : forall (rs : list (reducer State Action Eff)) j s a effs nd,
  let '(_, _, nd', _) := run_reducers eid j rs s a effs nd in
  nd' = chain_disp nd (chain_calls j rs s a).
Proof. intros. rewrite run_reducers_spec. reflexivity. Qed.
End C03.

Section C03_world.
Context {State : Type}.
Variable cfg : wconfig (State := State).

(* every reachable world, any program, any schedule: calls made (oldest first) ++ calls of the
   current snapshot still to be made = what the snapshots taken so far owe, where a snapshot
   (a, s, snap) owes one call (sid, s, a) per direct subscriber sid of snap, in snap's order *)
Theorem C03_stream : forall reducers mws progs w pc, length progs <= 100 ->
  reachable cfg reducers mws progs w ->
  get_thread (w_threads w) reducer_tid = Some (TReducer pc) ->
  rev (owed (w_hist w)) = rev (delivs (w_hist w)) ++ pending pc.
Proof. intros reducers mws progs w pc L R G. exact (notify_stream cfg reducers mws progs w pc L R G). Qed.

(* the snapshots (action, state), newest first, are the notifying write-backs *)
Theorem C03_snapshots : forall RS0 MS0 progs w pc, length progs <= 100 ->
  Forall (Forall static_call) progs -> reachable cfg RS0 MS0 progs w ->
  get_thread (w_threads w) reducer_tid = Some (TReducer pc) -> ~ in_window pc ->
  snaps (w_hist w) = noted cfg RS0 MS0 (writes (w_hist w)).
Proof. intros RS0 MS0 progs w pc L SP R G NW. exact (snapshots_are_notifying cfg RS0 MS0 progs w pc L SP R G NW). Qed.

(* "a subscriber registered ... for the whole run": whenever the reducer took a snapshot (history
   h2 ++ ESnapshot a s snap :: h1, h1 the older part), every identifier sid whose registration call
   had returned in h1 and for which no unsubscribing call had been invoked in h1 is in snap -
   with C03_stream it is called for that action, with C03_snapshots for every notifying action *)
Theorem C03_whole_run_subscriber_in_every_snapshot : forall reducers mws progs w h2 a s snap h1 sid,
  length progs <= 100 -> reachable cfg reducers mws progs w ->
  w_hist w = h2 ++ ESnapshot a s snap :: h1 -> reg_live sid h1 = true -> In sid (ids snap).
Proof. intros. eapply registered_in_snapshot; eauto. Qed.
End C03_world.

Print Assumptions C03_notify_pure_partial.
Print Assumptions C03_stream.
Print Assumptions C03_snapshots.
Print Assumptions C03_whole_run_subscriber_in_every_snapshot.
Print Assumptions C03_last_reducer_decides.
