(* C03 — Direct subscribers see every notifying action once, in order, with its state.
   Statements only; proofs in PipelineProofs.v.
   C03_partial: the per-action statement is proved for every configuration; the stream over a
   whole run (the concatenation over the reduced actions) is checked by the lockstep
   correspondence and the C03 monitor, not yet stated as a theorem over histories. *)
From RS Require Import Base Pipeline PipelineProofs.

Section C03.
Context {State Action Eff : Type}.
Variable eid : Eff -> N.

(* for one action: the subscribers are called iff the last reducer answered Dispatch (or there is
   no reducer, or the action was vetoed) and no called before_dispatch hook answered Done; then
   every direct subscriber is called exactly once, in registration order, with the new state and
   the action; otherwise nobody is called *)
Theorem C03_notify_pure_partial : forall (mws : list (middleware State Action Eff))
    (rs : list (reducer State Action Eff)) (subs : list N) s a,
  let o := process_action eid mws rs subs s a in
  let s' := post_state mws rs s a in
  o_notified o = need_dispatch mws rs s a && negb (any_done (bd_verdicts mws a s')) /\
  filter is_notify (o_events o) = if o_notified o then map (fun i => CbNotify i s' a) subs else [].
Proof. exact (notify_exactly eid). Qed.

(* the last reducer decides: need_dispatch is the answer of the last reducer of the chain *)
Theorem C03_last_reducer_decides : forall (rs : list (reducer State Action Eff)) j s a effs nd,
  let '(_, _, nd', _) := run_reducers eid j rs s a effs nd in
  nd' = chain_disp nd (chain_calls j rs s a).
Proof. intros. rewrite run_reducers_spec. reflexivity. Qed.
End C03.

Print Assumptions C03_notify_pure_partial.
Print Assumptions C03_last_reducer_decides.
