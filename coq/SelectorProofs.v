(* SelectorProofs.v — proofs about Selector.v (C16). *)
From RS Require Import Base Selector.

Section SelectorProofs.
Context {V T : Type}.
Variable veq : V -> V -> bool.
Hypothesis veq_spec : forall x y, veq x y = true <-> x = y.

Lemma sel_stream_dedup : forall (l : list (V * T)) last,
  fst (sel_stream veq last l) = dedup veq last l.
Proof.
  induction l as [|[v t] r IH]; intros last; cbn [sel_stream dedup]; [reflexivity|].
  unfold sel_notify. destruct last as [p|].
  - destruct (veq p v) eqn:E.
    + specialize (IH (Some p)). destruct (sel_stream veq (Some p) r) as [out fin]. cbn in *. exact IH.
    + specialize (IH (Some v)). destruct (sel_stream veq (Some v) r) as [out fin]. cbn in *.
      now rewrite IH.
  - specialize (IH (Some v)). destruct (sel_stream veq (Some v) r) as [out fin]. cbn in *.
    now rewrite IH.
Qed.

(* the last_value after the stream: the last delivered value, or the old one if nothing fired *)
Definition last_delivered (prev : option V) (out : list (V * T)) : option V :=
  match rev out with [] => prev | (v, _) :: _ => Some v end.

Lemma last_delivered_cons prev x out :
  last_delivered prev (x :: out) = last_delivered (Some (fst x)) out.
Proof.
  unfold last_delivered. cbn [rev]. destruct (rev out) as [|[v t] r] eqn:E.
  - destruct x; reflexivity.
  - reflexivity.
Qed.

Lemma sel_stream_last : forall (l : list (V * T)) last,
  snd (sel_stream veq last l) = last_delivered last (fst (sel_stream veq last l)).
Proof.
  induction l as [|[v t] r IH]; intros last; cbn [sel_stream]; [reflexivity|].
  unfold sel_notify. destruct last as [p|].
  - destruct (veq p v) eqn:E.
    + specialize (IH (Some p)). destruct (sel_stream veq (Some p) r) as [out fin]. cbn in *. exact IH.
    + specialize (IH (Some v)). destruct (sel_stream veq (Some v) r) as [out fin]. cbn in *.
      rewrite last_delivered_cons. exact IH.
  - specialize (IH (Some v)). destruct (sel_stream veq (Some v) r) as [out fin]. cbn in *.
    rewrite last_delivered_cons. exact IH.
Qed.

(* --- an independent characterisation of dedup ------------------------------------------- *)

(* no two adjacent delivered values are equal, and the first differs from prev *)
Fixpoint no_adjacent_dup (prev : option V) (l : list (V * T)) : Prop :=
  match l with
  | [] => True
  | (v, _) :: r => (match prev with Some p => p <> v | None => True end) /\ no_adjacent_dup (Some v) r
  end.

Lemma dedup_no_adjacent : forall (l : list (V * T)) prev, no_adjacent_dup prev (dedup veq prev l).
Proof.
  induction l as [|[v t] r IH]; intros prev; cbn [dedup]; [exact I|].
  destruct prev as [p|].
  - destruct (veq p v) eqn:E; [apply IH|].
    cbn [no_adjacent_dup]. split; [|apply IH].
    intros ->. assert (veq v v = true) by now apply veq_spec. congruence.
  - cbn [no_adjacent_dup]. split; [exact I|apply IH].
Qed.

Lemma dedup_subseq : forall (l : list (V * T)) prev, subseq (dedup veq prev l) l.
Proof.
  induction l as [|[v t] r IH]; intros prev; cbn [dedup]; [constructor|].
  destruct prev as [p|]; [destruct (veq p v)|]; try (apply subseq_take; apply IH).
  apply subseq_skip, IH.
Qed.

(* every input element is either delivered or equal to the value delivered last before it:
   formulated as "the stream of *current* values is preserved" *)
Fixpoint current_values (prev : option V) (l : list (V * T)) : list (option V) :=
  match l with [] => [] | (v, _) :: r => Some v :: current_values (Some v) r end.

(* the value known to the subscriber after each input, computed from the deliveries only *)
Fixpoint known_values (prev : option V) (l : list (V * T)) : list (option V) :=
  match l with
  | [] => []
  | (v, _) :: r =>
      let '(last', _) := sel_notify veq prev v in last' :: known_values last' r
  end.

Lemma known_is_current : forall (l : list (V * T)) prev,
  known_values prev l = current_values prev l.
Proof.
  induction l as [|[v t] r IH]; intros prev; cbn [known_values current_values]; [reflexivity|].
  unfold sel_notify. destruct prev as [p|].
  - destruct (veq p v) eqn:E.
    + apply veq_spec in E. subst. now rewrite IH.
    + now rewrite IH.
  - now rewrite IH.
Qed.

Lemma dedup_first : forall v t (r : list (V * T)), exists out, dedup veq None ((v, t) :: r) = (v, t) :: out.
Proof. intros. cbn. eauto. Qed.

(* fires exactly when the value differs from the last delivered one *)
Lemma sel_notify_fires last v :
  snd (sel_notify veq last v) = true <-> last <> Some v.
Proof.
  unfold sel_notify. destruct last as [p|].
  - destruct (veq p v) eqn:E; cbn.
    + apply veq_spec in E. subst. split; [discriminate|congruence].
    + split; [|reflexivity]. intros _ H. injection H as ->.
      assert (veq v v = true) by now apply veq_spec. congruence.
  - cbn. split; [discriminate|reflexivity].
Qed.

Lemma sel_notify_last last v : fst (sel_notify veq last v) = Some v.
Proof.
  unfold sel_notify. destruct last as [p|]; [|reflexivity].
  destruct (veq p v) eqn:E; [|reflexivity]. apply veq_spec in E. now subst.
Qed.

End SelectorProofs.
