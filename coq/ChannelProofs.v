(* ChannelProofs.v — the bounded channel: capacity bound, FIFO, policies (pure parts of C05, C06). *)
From RS Require Import Base Channel.

Section ChannelProofs.
Context {A : Type}.
Implicit Types c : chan A.

Definition bounded c : Prop := length (q c) <= cap c.

Lemma try_send_some c x c' : try_send c x = Some c' ->
  q c' = q c ++ [x] /\ cap c' = cap c /\ pol c' = pol c /\ tx_alive c' = tx_alive c /\ length (q c) < cap c.
Proof.
  unfold try_send, is_full. destruct (Nat.leb_spec (cap c) (length (q c))); [discriminate|].
  intros E; injection E as <-. cbn. repeat split; auto.
Qed.

Lemma try_send_none c x : try_send c x = None -> cap c <= length (q c).
Proof.
  unfold try_send, is_full. destruct (Nat.leb_spec (cap c) (length (q c))); [auto|discriminate].
Qed.

Lemma try_recv_spec c : let '(o, c') := try_recv c in
  cap c' = cap c /\ pol c' = pol c /\ tx_alive c' = tx_alive c /\
  match o with Some x => q c = x :: q c' | None => q c = [] /\ c' = c end.
Proof. unfold try_recv. destruct (q c) as [|x r] eqn:E; cbn; auto. Qed.

Lemma recv_some c o c' : recv c = Some (o, c') ->
  cap c' = cap c /\ pol c' = pol c /\ tx_alive c' = tx_alive c /\
  match o with Some x => q c = x :: q c' | None => q c = [] /\ c' = c /\ tx_alive c = false end.
Proof.
  unfold recv. destruct (q c) as [|x r] eqn:E.
  - destruct (tx_alive c) eqn:T; [discriminate|]. intros H; injection H as <- <-. repeat split; auto.
  - intros H; injection H as <- <-. cbn. repeat split; auto.
Qed.

(* the blocking recv is enabled iff there is an item or no sender is left *)
Lemma recv_enabled c : recv c <> None <-> q c <> [] \/ tx_alive c = false.
Proof.
  unfold recv. destruct (q c); [destruct (tx_alive c)|]; split; intros H; try congruence; auto.
  - destruct H; congruence.
  - left; discriminate.
Qed.

(* every phase of every policy keeps the configuration and the bound *)
Lemma send_phase_inv c x ph c' sr dr : send_phase c x ph = Some (c', sr, dr) ->
  cap c' = cap c /\ pol c' = pol c /\ tx_alive c' = tx_alive c /\ (bounded c -> bounded c').
Proof.
  unfold bounded.
  assert (TS : forall c1, try_send c x = Some c1 ->
     cap c1 = cap c /\ pol c1 = pol c /\ tx_alive c1 = tx_alive c /\
     (length (q c) <= cap c -> length (q c1) <= cap c1)).
  { intros c1 E. apply try_send_some in E. destruct E as (Q & C & P & T & L).
    rewrite Q, C, app_length. cbn. repeat split; auto. intros _. lia. }
  destruct ph; cbn.
  - destruct (pol c) eqn:PC.
    + intros H; injection H as <- <- <-. repeat split; auto.
    + destruct (try_send c x) eqn:E; intros H; injection H as <- <- <-; [now apply TS|repeat split; auto].
    + destruct (try_send c x) eqn:E; intros H; injection H as <- <- <-; [now apply TS|repeat split; auto].
  - unfold send_block. destruct (try_send c x) eqn:E; [|discriminate]. intros H; injection H as <- <- <-.
    now apply TS.
  - destruct (pol c) eqn:PC; try (intros H; injection H as <- <- <-; repeat split; auto).
    pose proof (try_recv_spec c) as R. destruct (try_recv c) as [o c1]. intros H; injection H as <- <- <-.
    destruct R as (C & P & T & Q). repeat split; auto; try congruence. rewrite C. destruct o as [y|].
    + rewrite Q. cbn. lia.
    + destruct Q as [_ ->]. auto.
  - destruct (try_send c x) eqn:E; intros H; injection H as <- <- <-; [now apply TS|repeat split; auto].
Qed.

(* the blocking send is enabled iff the queue is not full *)
Lemma send_block_enabled c x : send_phase c x SBlockWait <> None <-> length (q c) < cap c.
Proof.
  cbn. unfold send_block, try_send, is_full.
  destruct (Nat.leb_spec (cap c) (length (q c))) as [LE|LT]; split; intros HH; try congruence; lia.
Qed.

(* a drop policy never waits: every phase is enabled *)
Lemma drop_policy_never_waits c x ph : pol c <> Block -> ph <> SBlockWait -> send_phase c x ph <> None.
Proof.
  intros HP HPh. destruct ph; cbn; try congruence.
  - destruct (pol c); try congruence; destruct (try_send c x); congruence.
  - destruct (pol c); try congruence. destruct (try_recv c). congruence.
  - destruct (try_send c x); congruence.
Qed.
(* ... and never reaches the blocking phase *)
Lemma drop_policy_phases c x ph c' ph' dr : pol c <> Block ->
  send_phase c x ph = Some (c', SMore ph', dr) -> ph' <> SBlockWait.
Proof.
  intros HP. destruct ph; cbn.
  - destruct (pol c); try congruence; destruct (try_send c x); intros H; inversion H; discriminate.
  - unfold send_block. destruct (try_send c x); discriminate.
  - destruct (pol c); try (intros H; inversion H; discriminate).
    destruct (try_recv c). intros H; inversion H. discriminate.
  - destruct (try_send c x); discriminate.
Qed.

(* what a phase does to the contents: appends the item, removes the head, or nothing *)
Lemma send_phase_contents c x ph c' sr dr : send_phase c x ph = Some (c', sr, dr) ->
  (q c' = q c ++ [x] /\ sr = SDone true /\ dr = []) \/
  (exists old, q c = old :: q c' /\ ph = SDo2 /\ sr = SMore SDo3 /\ dr = dropped_action (Some old) /\
               pol c = DropOldest) \/
  (q c' = q c /\ (sr = SDone true -> False) /\
   (dr = [] \/ (ph = SStart /\ pol c = DropLatest /\ sr = SDone false /\ dr = dropped_action (Some x)))).
Proof.
  destruct ph; cbn.
  - destruct (pol c) eqn:P.
    + intros H; injection H as <- <- <-. right; right. repeat split; auto. discriminate.
    + destruct (try_send c x) eqn:E; intros H; injection H as <- <- <-.
      * apply try_send_some in E. left. tauto.
      * right; right. repeat split; auto. discriminate.
    + destruct (try_send c x) eqn:E; intros H; injection H as <- <- <-.
      * apply try_send_some in E. left. tauto.
      * right; right. repeat split; auto. discriminate.
  - unfold send_block. destruct (try_send c x) eqn:E; [|discriminate]. intros H; injection H as <- <- <-.
    apply try_send_some in E. left. tauto.
  - destruct (pol c) eqn:PC;
      try (intros H; injection H as <- <- <-; right; right; repeat split; auto; discriminate).
    pose proof (try_recv_spec c) as R. destruct (try_recv c) as [o c1]. intros H; injection H as <- <- <-.
    destruct R as (_ & _ & _ & Q). destruct o as [y|].
    + right; left. exists y. auto.
    + destruct Q as [Q ->]. right; right. repeat split; auto. discriminate.
  - destruct (try_send c x) eqn:E; intros H; injection H as <- <- <-.
    + apply try_send_some in E. left. tauto.
    + right; right. repeat split; auto. discriminate.
Qed.

(* ---- bursts with no consumer running (C06) ---- *)
Fixpoint send_all (c : chan A) (l : list (item A)) : chan A * list A :=
  match l with
  | [] => (c, [])
  | x :: r =>
      match send_seq c x with
      | Some (c', _, d) => let '(c'', d') := send_all c' r in (c'', d ++ d')
      | None => (c, [])
      end
  end.

Lemma skipn_app_exact {T} (l1 l2 : list T) n : n = length l1 -> skipn n (l1 ++ l2) = l2.
Proof. intros ->. revert l2. induction l1; cbn; auto. Qed.

Lemma lastn_snoc_full {T} (l : list T) x n : length l = n -> 0 < n -> lastn n (l ++ [x]) = tl l ++ [x].
Proof.
  intros L P. unfold lastn. rewrite app_length. cbn [length].
  replace (length l + 1 - n) with 1 by lia.
  destruct l as [|y l']; cbn in *; [lia|reflexivity].
Qed.
Lemma lastn_short {T} (l : list T) n : length l <= n -> lastn n l = l.
Proof. intros L. unfold lastn. replace (length l - n) with 0 by lia. reflexivity. Qed.

(* DropOldest: one send keeps the newest `cap` of (queue ++ [x]) *)
Lemma drop_oldest_one c x : pol c = DropOldest -> 0 < cap c -> bounded c ->
  exists c' ok d, send_seq c x = Some (c', ok, d) /\ q c' = lastn (cap c) (q c ++ [x]) /\
                  cap c' = cap c /\ pol c' = pol c /\ bounded c'.
Proof.
  unfold bounded. intros P C B. unfold send_seq. rewrite P.
  destruct (try_send c x) as [c1|] eqn:E.
  - apply try_send_some in E. destruct E as (Q & C1 & P1 & _ & L).
    exists c1, true, []. split; [reflexivity|]. split; [|split; [exact C1|split; [congruence|]]].
    + rewrite Q. symmetry. apply lastn_short. rewrite app_length. cbn. lia.
    + rewrite Q, C1, app_length. cbn. lia.
  - apply try_send_none in E. assert (L : length (q c) = cap c) by lia.
    pose proof (try_recv_spec c) as R. destruct (try_recv c) as [o c1].
    destruct R as (C1 & P1 & T1 & Q). destruct o as [y|].
    2:{ destruct Q as [Q _]. rewrite Q in L. cbn in L. lia. }
    destruct (try_send c1 x) as [c2|] eqn:E2.
    + apply try_send_some in E2. destruct E2 as (Q2 & C2 & P2 & _ & L2).
      exists c2, true, (dropped_action (Some y)). split; [reflexivity|].
      split; [|split; [congruence|split; [congruence|]]].
      * rewrite Q2. rewrite lastn_snoc_full by auto. rewrite Q. reflexivity.
      * rewrite Q2, C2, C1, app_length. cbn. rewrite Q in L. cbn in L. lia.
    + apply try_send_none in E2. rewrite Q in L. cbn in L. lia.
Qed.

(* DropLatest: one send keeps the oldest `cap` of (queue ++ [x]) *)
Lemma drop_latest_one c x : pol c = DropLatest -> bounded c ->
  exists c' ok d, send_seq c x = Some (c', ok, d) /\ q c' = firstn (cap c) (q c ++ [x]) /\
                  cap c' = cap c /\ pol c' = pol c /\ bounded c' /\
                  (ok = false <-> length (q c) = cap c).
Proof.
  unfold bounded. intros P B. unfold send_seq. rewrite P.
  destruct (try_send c x) as [c1|] eqn:E.
  - apply try_send_some in E. destruct E as (Q & C1 & P1 & _ & L).
    exists c1, true, []. split; [reflexivity|].
    split; [|split; [exact C1|split; [congruence|split]]].
    + rewrite Q. symmetry. apply firstn_all2. rewrite app_length. cbn. lia.
    + rewrite Q, C1, app_length. cbn. lia.
    + split; intros HH; [discriminate|lia].
  - apply try_send_none in E. assert (L : length (q c) = cap c) by lia.
    exists c, false, (dropped_action (Some x)). split; [reflexivity|].
    split; [|split; [reflexivity|split; [congruence|split; [exact B|tauto]]]].
    rewrite firstn_app. rewrite L. rewrite Nat.sub_diag. cbn. rewrite app_nil_r.
    symmetry. apply firstn_all2. lia.
Qed.

End ChannelProofs.
