(* WorldSnap.v — which actions are notified (C03): for programs that do not register reducers or
   middlewares at run time, the snapshots taken so far are exactly the write-backs of the actions
   whose reducer chain asked to notify and which no before_dispatch hook suppressed, each with the
   state that action produced. *)
From RS Require Import Base Channel ChannelProofs Pipeline PipelineProofs Selector Script World WorldTactics Hist WorldProofs WorldInv WorldQueue WorldStop WorldFold WorldNotify.

Section WorldSnap.
Context {State : Type}.
Variable cfg : wconfig (State := State).
Variables RS0 MS0 : list N.
Notation world := (world (State := State)).
Notation step := (step cfg).
Notation event := (event (State := State)).
Notation thread := (thread (State := State)).
Implicit Types w : World.world (State := State).
Implicit Types h : list event.
Notation MWS := (MWS cfg MS0).
Notation RS := (RS cfg RS0).
Notation init0 := (init0 cfg).
Notation step_fn := (step_fn cfg RS0 MS0).

(* does the action taken in state p notify? *)
Definition notify_fn (p : State) (a : aid) : bool :=
  need_dispatch MWS RS p a && negb (any_done (bd_verdicts MWS a (step_fn p a))).

(* the write-backs (newest first) that notify *)
Fixpoint noted (ws : list (aid * State)) : list (aid * State) :=
  match ws with
  | [] => []
  | (a, s) :: r => if notify_fn (prev_state init0 r) a then (a, s) :: noted r else noted r
  end.

Definition ev_snap (e : event) : list (aid * State) :=
  match e with ESnapshot a s _ => [(a, s)] | _ => [] end.
Definition snaps h := flat_map ev_snap h.

Definition spc_ok (WS SN : list (aid * State)) (cur : State) (pc : rpc (State := State)) : Prop :=
  match pc with
  | RWrite a s _ nd => SN = noted WS /\ nd = need_dispatch MWS RS cur a
  | RBeforeEffect a s _ nd | RSpawn a s _ nd =>
      exists r, WS = (a, s) :: r /\ SN = noted r /\ nd = need_dispatch MWS RS (prev_state init0 r) a
  | RBeforeDispatch a s =>
      exists r, WS = (a, s) :: r /\ SN = noted r /\ need_dispatch MWS RS (prev_state init0 r) a = true
  | RSnapshot a s =>
      exists r, WS = (a, s) :: r /\ SN = noted r /\ notify_fn (prev_state init0 r) a = true
  | _ => SN = noted WS
  end.

Definition snap_ok w : Prop :=
  forall pc, get_thread (w_threads w) reducer_tid = Some (TReducer pc) ->
             spc_ok (writes (w_hist w)) (snaps (w_hist w)) (w_state w) pc.

Lemma quiet_snap : quiet ev_snap.
Proof. intros e H _. destruct e; try reflexivity. exfalso. apply (H (a, s, snap)). reflexivity. Qed.
Lemma quiet_write : forall e, (forall a s, e <> EWrite a s) -> ev_write (State := State) e = [].
Proof. intros e H. destruct e; try reflexivity. exfalso. eapply H; reflexivity. Qed.

Lemma dq_phase_snap w x ph w1 sr : dq_phase w x ph = Some (w1, sr) -> snaps (w_hist w1) = snaps (w_hist w).
Proof.
  unfold dq_phase. destruct (send_phase (w_dq w) x ph) as [[[dq' sr'] dr]|]; [|discriminate].
  intros H; injection H as <- <-. simp_world. unfold snaps. rewrite flat_map_app.
  rewrite dq_events_quiet by apply quiet_snap. reflexivity.
Qed.
Lemma sub_phase_snap w sid x ph w1 sr : sub_phase w sid x ph = Some (w1, sr) -> snaps (w_hist w1) = snaps (w_hist w).
Proof.
  unfold sub_phase. destruct (get_chan (w_chans w) sid) as [c|]; [|intros H; injection H as <- <-; auto].
  destruct (send_phase c x ph) as [[[c' sr'] dr]|]; [|discriminate].
  intros H; injection H as <- <-. simp_world. unfold snaps. rewrite flat_map_app.
  rewrite sub_events_quiet by apply quiet_snap. reflexivity.
Qed.

Theorem step_snap w t w' : inv_fold cfg RS0 MS0 w -> snap_ok w -> step w t = Some w' -> snap_ok w'.
Proof.
  intros (R & M & T1 & ST & CH & T2) SO H. step_cases H.
  all: repeat match goal with
       | HH : dq_phase _ _ _ = Some (_, _) |- _ =>
           let S := fresh "SN" in pose proof (dq_phase_snap _ _ _ _ _ HH) as S;
           apply dq_phase_fold in HH; destruct HH as (? & ? & ? & ? & ? & ?)
       | HH : sub_phase _ _ _ _ = Some (_, _) |- _ =>
           let S := fresh "SN" in pose proof (sub_phase_snap _ _ _ _ _ _ HH) as S;
           apply sub_phase_fold in HH; destruct HH as (? & ? & ? & ? & ? & ?)
       end.
  all: try (match goal with HB : (_ =? reducer_tid)%N = true |- _ => apply N.eqb_eq in HB; subst end).
  all: repeat match goal with
       | HP : br_phase _ _ _ _ _ = (_, _, _) |- _ => let Q := fresh "NN" in pose proof (br_no_notify _ _ _ _ _ _ _ _ HP) as Q; revert HP
       | HP : bd_phase _ _ _ _ _ = (_, _, _) |- _ => let Q := fresh "NN" in pose proof (bd_no_notify _ _ _ _ _ _ _ _ HP) as Q; revert HP
       | HP : be_phase _ _ _ _ _ _ = (_, _, _) |- _ => let Q := fresh "NN" in pose proof (be_no_notify _ _ _ _ _ _ _ _ HP) as Q; revert HP
       | HP : run_reducers _ _ _ _ _ _ _ = (_, _, _, _) |- _ => let Q := fresh "NN" in pose proof (reducers_no_notify _ _ _ _ _ _ _ _ _ _ HP) as Q; revert HP
       end; intros.
  all: unfold snap_ok in *; intros pc' G'; revert G'; simp_world;
       repeat match goal with E : w_threads ?w1 = w_threads _ |- context [w_threads ?w1] => rewrite E end; intros G'.
  (* steps of other threads *)
  all: try (assert (GR : get_thread (w_threads w) reducer_tid = Some (TReducer pc')) by
        (repeat match type of G' with
           | get_thread (put_thread _ ?t' _) reducer_tid = _ =>
               let EQ := fresh "EQ" in
               destruct (N.eq_dec reducer_tid t') as [EQ|EQ];
               [ rewrite <- EQ in G'; rewrite get_put_same in G'; discriminate G'
               | rewrite get_put_other in G' by exact EQ ]
           end; exact G');
        specialize (SO _ GR)).
  all: try (match goal with G : get_thread (w_threads _) reducer_tid = Some (TReducer _) |- _ =>
              specialize (SO _ G); specialize (T2 _ G) end;
            rewrite get_put_same in G'; injection G' as <-).
  all: unfold writes, snaps in *; unfold cb_events;
       repeat (progress (rewrite ?flat_map_app; cbn [flat_map app]));
       repeat match goal with
       | Q : no_notify ?l |- context [flat_map ev_snap (rev (map (ECb XReducer) ?l))] =>
           rewrite (cb_events_quiet ev_snap l quiet_snap Q)
       | |- context [flat_map ev_write (rev (map (ECb ?x) ?l))] =>
           rewrite (proj_cb ev_write) by reflexivity
       end;
       cbn [flat_map ev_write ev_snap app] in *;
       repeat match goal with
       | E : flat_map ev_write (w_hist ?x) = _ |- context [flat_map ev_write (w_hist ?x)] => rewrite E
       | E : snaps (w_hist ?x) = _ |- _ => unfold snaps in E
       | E : flat_map ev_snap (w_hist ?x) = _ |- context [flat_map ev_snap (w_hist ?x)] => rewrite E
       | E : w_state ?x = w_state _ |- context [w_state ?x] => rewrite E
       end.
  all: try exact SO.
  all: cbn [spc_ok pc_ok] in *.
  all: try exact SO.
  all: clear T1.
  (* the chain ran / was vetoed: the notify request is need_dispatch *)
  1: { destruct T2 as [_ V]. symmetry in V. apply negb_true_iff in V. split; [exact SO|].
       unfold reducers_of in Heqp. rewrite R in Heqp. fold RS in Heqp.
       rewrite run_reducers_spec in Heqp. cbn zeta in Heqp. injection Heqp as _ _ <- _.
       unfold need_dispatch. rewrite V. reflexivity. }
  1: { destruct T2 as [_ V]. symmetry in V. apply negb_false_iff in V. split; [exact SO|].
       unfold need_dispatch. rewrite V. reflexivity. }
  (* the write-back *)
  1: { destruct SO as [SN ND]. eexists. split; [reflexivity|]. split; [exact SN|]. rewrite <- ST. exact ND. }
  (* from here on the action's write-back is the newest one *)
  all: destruct SO as (r0 & EW & ES & EN).
  all: assert (SV : s = step_fn (prev_state init0 r0) a) by (rewrite EW in CH; cbn [chain_ok] in CH; apply CH).
  all: try (match goal with HP : bd_phase _ _ _ _ _ = _ |- _ =>
              unfold mws_of in HP; rewrite M in HP; fold MWS in HP;
              rewrite bd_phase_spec in HP; cbn zeta in HP; cbn [andb] in HP; injection HP as HP _ _ end).
  all: try (exists r0; split; [exact EW|split; [exact ES|]]; first [symmetry; exact EN | exact EN | idtac]).
  all: try (rewrite EW; cbn [noted]; unfold notify_fn at 1).
  all: try (rewrite <- EN; cbn [andb]; exact ES).
  all: try rewrite EN; cbn [andb].
  - unfold notify_fn. rewrite EN. cbn [andb]. unfold bd_verdicts. rewrite <- SV. exact Heqp.
  - unfold bd_verdicts. rewrite <- SV, Heqp. exact ES.
  - fold (notify_fn (prev_state init0 r0) a). rewrite EN. now rewrite ES.
  - fold (notify_fn (prev_state init0 r0) a). rewrite EN. now rewrite ES.
Qed.


Lemma init_snap progs : (length progs <= 100)%nat -> snap_ok (init_world cfg RS0 MS0 progs).
Proof.
  intros L pc G. unfold init_world in G. cbn [w_threads] in G.
  rewrite client_threads_reducer in G by (unfold reducer_tid; lia). injection G as <-. reflexivity.
Qed.

Theorem reachable_snap progs w : (length progs <= 100)%nat -> Forall (Forall static_call) progs ->
  reachable cfg RS0 MS0 progs w -> inv_fold cfg RS0 MS0 w /\ snap_ok w.
Proof.
  intros L SP [sched H].
  eapply (run_invariant cfg (fun w => inv_fold cfg RS0 MS0 w /\ snap_ok w)); [| |exact H].
  - intros w0 t w1 [F S] ST. split; [eapply step_fold; eauto|eapply step_snap; eauto].
  - split; [apply init_fold; exact SP|apply init_snap; exact L].
Qed.

(* outside the window between an action's write-back and its snapshot, the snapshots taken are
   exactly the notifying write-backs *)
Definition in_window (pc : rpc (State := State)) : Prop :=
  match pc with
  | RBeforeEffect _ _ _ _ | RSpawn _ _ _ _ | RBeforeDispatch _ _ | RSnapshot _ _ => True
  | _ => False
  end.

Theorem snapshots_are_notifying progs w pc : (length progs <= 100)%nat ->
  Forall (Forall static_call) progs -> reachable cfg RS0 MS0 progs w ->
  get_thread (w_threads w) reducer_tid = Some (TReducer pc) -> ~ in_window pc ->
  snaps (w_hist w) = noted (writes (w_hist w)).
Proof.
  intros L SP R G NW. destruct (reachable_snap progs w L SP R) as [_ S]. specialize (S _ G).
  destruct pc; cbn [spc_ok in_window] in *; try exact S; try (now destruct S); exfalso; apply NW; exact I.
Qed.
End WorldSnap.
