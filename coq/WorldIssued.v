(* WorldIssued.v — the effect_issued counter (C18): it counts exactly the effects the reducers
   returned, as recorded in the history by their CbReduce events. *)
From RS Require Import Base Channel ChannelProofs Pipeline PipelineProofs Selector Script World WorldTactics Hist WorldProofs WorldInv WorldQueue WorldStop WorldMetrics.

Section WorldIssued.
Context {State : Type}.
Variable cfg : wconfig (State := State).
Notation world := (world (State := State)).
Notation step := (step cfg).
Notation event := (event (State := State)).
Implicit Types w : World.world (State := State).
Implicit Types h : list event.

(* an effect returned by a reducer call *)
Definition c_issued (e : event) : N :=
  match e with ECb XReducer (CbReduce _ _ _ _ _ (Some _)) => 1 | _ => 0 end.

(* effects the reducer thread has collected but not yet counted *)
Definition pending (pc : rpc (State := State)) : N :=
  match pc with
  | RWrite _ _ effs _ | RBeforeEffect _ _ effs _ => N.of_nat (length effs)
  | _ => 0
  end.

Definition inv_issued w : Prop :=
  forall pc, get_thread (w_threads w) reducer_tid = Some (TReducer pc) ->
    (m_issued (w_metrics w) + pending pc)%N = total c_issued (w_hist w).

Lemma reducers_issued (rs : list (reducer State aid eff)) j s a effs nd s' effs' nd' evs :
  run_reducers e_id j rs s a effs nd = (s', effs', nd', evs) ->
  N.of_nat (length effs') = (N.of_nat (length effs) + total c_issued (map (ECb XReducer) evs))%N.
Proof.
  rewrite run_reducers_spec. cbn zeta. intros H; inversion H; subst. clear H.
  rewrite app_length, Nat2N.inj_add. f_equal.
  induction (chain_calls j rs s a) as [|[[j0 s0] d] l IH]; [reflexivity|].
  cbn [chain_effs flat_map map call_event total c_issued snd] in *.
  fold (chain_effs l). rewrite app_length, Nat2N.inj_add, IH.
  destruct (dop_eff d); cbn; lia.
Qed.

Lemma br_events_issued : forall vs i (a : aid) (s : State),
  total c_issued (map (ECb XReducer) (br_events i a s vs)) = 0%N.
Proof.
  induction vs as [|v r IH]; intros i a s; [reflexivity|].
  cbn [br_events]. rewrite map_app, total_app, IH. destruct v; reflexivity.
Qed.
Lemma bd_events_issued : forall vs i (a : aid) (s : State),
  total c_issued (map (ECb XReducer) (bd_events i a s vs)) = 0%N.
Proof.
  induction vs as [|v r IH]; intros i a s; [reflexivity|].
  cbn [bd_events]. rewrite map_app, total_app, IH. destruct v; reflexivity.
Qed.
Lemma be_events_issued : forall (tr : list (list eff * list eff * verdict)) i (a : aid) (s : State),
  total c_issued (map (ECb XReducer) (be_events e_id i a s tr)) = 0%N.
Proof.
  induction tr as [|[[ein eout] v] r IH]; intros i a s; [reflexivity|].
  cbn [be_events]. rewrite map_app, total_app, IH. destruct v; reflexivity.
Qed.
Lemma br_no_issued (mws : list (middleware State aid eff)) i a s flag f n evs :
  br_phase i mws a s flag = (f, n, evs) -> total c_issued (map (ECb XReducer) evs) = 0%N.
Proof. rewrite br_phase_spec. cbn zeta. intros H; inversion H; subst. apply br_events_issued. Qed.
Lemma bd_no_issued (mws : list (middleware State aid eff)) i a s flag f n evs :
  bd_phase i mws a s flag = (f, n, evs) -> total c_issued (map (ECb XReducer) evs) = 0%N.
Proof. rewrite bd_phase_spec. cbn zeta. intros H; inversion H; subst. apply bd_events_issued. Qed.
Lemma be_no_issued (mws : list (middleware State aid eff)) i a s effs effs' n evs :
  be_phase e_id i mws a s effs = (effs', n, evs) -> total c_issued (map (ECb XReducer) evs) = 0%N.
Proof. rewrite be_phase_spec. cbn zeta. intros H; inversion H; subst. apply be_events_issued. Qed.

Lemma dq_phase_issued w x ph w1 sr : dq_phase w x ph = Some (w1, sr) ->
  m_issued (w_metrics w1) = m_issued (w_metrics w) /\ total c_issued (w_hist w1) = total c_issued (w_hist w).
Proof.
  unfold dq_phase. destruct (send_phase (w_dq w) x ph) as [[[dq' sr'] dr]|]; [|discriminate].
  intros H; injection H as <- <-. split; [reflexivity|]. simp_world. rewrite total_app.
  rewrite (total_dq_events c_issued 0) by reflexivity. lia.
Qed.
Lemma sub_phase_issued w sid x ph w1 sr : sub_phase w sid x ph = Some (w1, sr) ->
  m_issued (w_metrics w1) = m_issued (w_metrics w) /\ total c_issued (w_hist w1) = total c_issued (w_hist w).
Proof.
  unfold sub_phase. destruct (get_chan (w_chans w) sid) as [c|]; [|intros H; injection H as <- <-; auto].
  destruct (send_phase c x ph) as [[[c' sr'] dr]|]; [|discriminate].
  intros H; injection H as <- <-. split; [reflexivity|]. simp_world. rewrite total_app.
  rewrite (total_sub_events c_issued) by reflexivity. cbn [c_issued]. lia.
Qed.

Ltac simp_issued :=
  simp_world; unfold cb_events;
  cbn [m_issued m_add_received m_add_dropped m_add_reduced
       m_add_issued m_add_executed m_add_mw m_add_state_notified m_add_sub_notified m_add_errors];
  repeat (progress (rewrite ?total_app, ?total_rev; cbn [total c_issued])).

Theorem step_issued w t w' : inv_tids w -> inv_issued w -> step w t = Some w' -> inv_issued w'.
Proof.
  intros [_ NT] I H. step_cases H; use_frames.
  all: repeat match goal with
       | HH : dq_phase _ _ _ = Some (_, _) |- _ => apply dq_phase_issued in HH; destruct HH as [? ?]
       | HH : sub_phase _ _ _ _ = Some (_, _) |- _ => apply sub_phase_issued in HH; destruct HH as [? ?]
       end.
  all: try (match goal with HB : (_ =? reducer_tid)%N = true |- _ => apply N.eqb_eq in HB; subst end).
  all: repeat match goal with
       | HP : br_phase _ _ _ _ _ = (_, _, _) |- _ => apply br_no_issued in HP
       | HP : bd_phase _ _ _ _ _ = (_, _, _) |- _ => apply bd_no_issued in HP
       | HP : be_phase _ _ _ _ _ _ = (_, _, _) |- _ => apply be_no_issued in HP
       | HP : run_reducers _ _ _ _ _ _ _ = (_, _, _, _) |- _ => apply reducers_issued in HP
       end.
  all: unfold inv_issued in *; rew_frames; intros pc' G'.
  (* the reducer's own steps *)
  all: try (match goal with G : get_thread (w_threads _) reducer_tid = Some (TReducer _) |- _ =>
              specialize (I _ G) end;
            rewrite get_put_same in G'; injection G' as <-;
            simp_issued; cbn [pending length] in *; rewrite ?Nat2N.inj_succ in *;
            repeat match goal with E : _ = _ |- _ => rewrite E end; lia).
  all: assert (GR : get_thread (w_threads w) reducer_tid = Some (TReducer pc')) by
        (repeat match type of G' with
           | get_thread (put_thread _ ?t' _) reducer_tid = _ =>
               let EQ := fresh "EQ" in
               destruct (N.eq_dec reducer_tid t') as [EQ|EQ];
               [ rewrite <- EQ in G'; rewrite get_put_same in G'; discriminate G'
               | rewrite get_put_other in G' by exact EQ ]
           end; exact G').
  all: specialize (I _ GR); simp_issued.
  all: repeat match goal with
       | E : m_issued (w_metrics ?x) = _ |- context [m_issued (w_metrics ?x)] => rewrite E
       | E : total c_issued (w_hist ?x) = _ |- context [total c_issued (w_hist ?x)] => rewrite E
       end.
  all: try lia.
  all: simp_world; cbn [w_metrics w_hist set_tx_open set_subs set_chan] in *; try lia.
Qed.

Lemma init_issued reducers mws progs : (length progs <= 100)%nat ->
  inv_issued (init_world cfg reducers mws progs).
Proof.
  intros L pc G. unfold init_world in G. cbn [w_threads] in G.
  rewrite client_threads_reducer in G by (unfold reducer_tid; lia). injection G as <-. reflexivity.
Qed.

Theorem reachable_issued reducers mws progs w : (length progs <= 100)%nat ->
  reachable cfg reducers mws progs w -> inv_tids w /\ inv_issued w.
Proof.
  intros L [sched H].
  eapply (run_invariant cfg (fun w => inv_tids w /\ inv_issued w)); [| |exact H].
  - intros w0 t w1 [T I] S. split; [eapply step_tids; eauto|eapply step_issued; eauto].
  - split; [apply init_tids; exact L|apply init_issued; exact L].
Qed.

(* whenever the reducer is between two actions or has left its loop - in particular once stop()
   has returned - effect_issued is exactly the number of effects the reducer calls returned *)
Theorem issued_balance reducers mws progs w pc : (length progs <= 100)%nat ->
  reachable cfg reducers mws progs w ->
  get_thread (w_threads w) reducer_tid = Some (TReducer pc) ->
  (forall a s effs nd, pc <> RWrite a s effs nd /\ pc <> RBeforeEffect a s effs nd) ->
  m_issued (w_metrics w) = total c_issued (w_hist w).
Proof.
  intros L R G NP. destruct (reachable_issued _ _ _ _ L R) as [_ I]. specialize (I _ G).
  destruct pc; cbn [pending] in I; try lia.
  - destruct (NP a s effs nd) as [X _]. now contradiction X.
  - destruct (NP a s effs nd) as [_ X]. now contradiction X.
Qed.
End WorldIssued.
