(* WorldLive.v — deadlock freedom (C13) for the core of the API: dispatch through every entry
   point, thunks and tasks, get_state / get_metrics, add_reducer / add_middleware, direct and
   selector subscribers with unsubscribe, close, stop, drop of a DroppableStore - any number of
   threads, any schedule. (Channeled subscribers and iterators are outside this theorem: releasing
   an iterator early is the known finding F5; see Props/C13.v.) *)
From RS Require Import Base Channel ChannelProofs Pipeline PipelineProofs Selector Script World WorldTactics Hist WorldProofs WorldInv WorldQueue WorldStop WorldBlock WorldMetrics WorldEffects.

Section WorldLive.
Context {State : Type}.
Variable cfg : wconfig (State := State).
Hypothesis cap_pos : 0 < cfg_cap cfg.
Notation world := (world (State := State)).
Notation step := (step cfg).
Notation event := (event (State := State)).
Notation thread := (thread (State := State)).
Implicit Types w : World.world (State := State).

(* ---------- the fragment ---------- *)
Definition frag_call (c : call) : Prop :=
  match c with
  | CSubscribed _ _ _ | CIter _ _ _ | CNext _ | CDropIter _ | CDrain _ => False
  | _ => True
  end.
Definition simple_kind (k : subkind) : bool :=
  match k with SKDirect | SKSelector _ => true | _ => false end.
Definition simple_subs (l : list subentry) : Prop := forallb (fun s => simple_kind (se_kind s)) l = true.

Definition frag_cpc (pc : cpc) : Prop :=
  match pc with
  | PUnsubCtx _ | PUnsubJoin _ | PUnsubIterSend _ _ | PNextRecv _ => False
  | PSubsAdd se => simple_kind (se_kind se) = true
  | _ => True
  end.
Definition frag_rpc (pc : rpc (State := State)) : Prop :=
  match pc with
  | RNotify _ _ rest _ => simple_subs rest
  | RClear rest => simple_subs rest
  | RNotifySend _ _ _ _ _ _ | RClearCtx _ _ | RClearJoin _ _ | RClearIterSend _ _ _ => False
  | _ => True
  end.
Definition frag_thread (th : thread) : Prop :=
  match th with
  | TClient _ prog pc => Forall frag_call prog /\ frag_cpc pc
  | TReducer pc => frag_rpc pc
  | TChan _ _ => False
  end.

Definition inv_frag w : Prop :=
  threads_all frag_thread (w_threads w) /\ simple_subs (w_subs w).

Lemma frag_body b : Forall frag_call (calls_of_body b).
Proof. induction b as [|[e a| |] r IH]; cbn; auto; constructor; cbn; auto. Qed.
Lemma frag_eff e : Forall frag_call (prog_of_eff e).
Proof. unfold prog_of_eff. destruct (e_kind e); try apply frag_body. constructor; cbn; auto. Qed.

Lemma simple_subs_app l x : simple_subs l -> simple_kind (se_kind x) = true -> simple_subs (l ++ [x]).
Proof. unfold simple_subs. intros H K. rewrite forallb_app, H. cbn. now rewrite K. Qed.
Lemma simple_subs_remove l sid : simple_subs l -> simple_subs (remove_sub l sid).
Proof.
  unfold simple_subs, remove_sub. induction l as [|x r IH]; cbn; auto. intros H.
  apply andb_true_iff in H. destruct H as [H1 H2]. destruct (negb _); cbn; [rewrite H1|]; auto.
Qed.
Lemma simple_subs_find l sid se : simple_subs l -> find_sub l sid = Some se -> simple_kind (se_kind se) = true.
Proof.
  unfold simple_subs. induction l as [|x r IH]; cbn; [discriminate|]. intros H.
  apply andb_true_iff in H. destruct H as [H1 H2]. destruct (N.eqb (se_id x) sid); [intros E; injection E as <-; exact H1|auto].
Qed.
Lemma simple_subs_tail x l : simple_subs (x :: l) -> simple_kind (se_kind x) = true /\ simple_subs l.
Proof. unfold simple_subs. cbn. intros H. apply andb_true_iff in H. exact H. Qed.


Lemma NoDup_app_snoc {A} (l : list A) x : NoDup l -> ~ In x l -> NoDup (l ++ [x]).
Proof.
  induction l as [|y r IH]; cbn; intros ND NI; [constructor; [intros []|constructor]|].
  inversion ND; subst. constructor.
  - intros I. apply in_app_or in I. destruct I as [I|[E|[]]]; [contradiction|]. apply NI. now left.
  - apply IH; [assumption|]. intros I. apply NI. now right.
Qed.

Lemma simple_subs_cons x l : simple_kind (se_kind x) = true -> simple_subs l -> simple_subs (x :: l).
Proof. unfold simple_subs. cbn. intros -> ->. reflexivity. Qed.

Theorem step_frag w t w' : inv_frag w -> step w t = Some w' -> inv_frag w'.
Proof.
  intros [T S] H. step_cases H; use_frames.
  (* what the stepping thread is allowed to be *)
  all: match goal with G : get_thread (w_threads _) _ = Some ?th |- _ =>
         let F := fresh "FT" in pose proof (T _ _ G) as F; cbn [frag_thread frag_cpc frag_rpc] in F end.
  all: try contradiction.
  all: try (match goal with F : Forall frag_call _ /\ _ |- _ =>
              let FP := fresh "FP" in let FC := fresh "FC" in destruct F as [FP FC]; try contradiction;
              try (inversion FP; subst; match goal with HC : frag_call _ |- _ => cbn in HC; try contradiction end) end).
  (* the head of the reducer's current list is direct or selector, the rest is simple *)
  all: try (match goal with F : simple_subs (_ :: _) |- _ =>
              let FH := fresh "FH" in let FR := fresh "FR" in
              destruct (simple_subs_tail _ _ F) as [FH FR] end).
  all: try (match goal with
            | FH : simple_kind (se_kind ?s0) = true, K : se_kind ?s0 = _ |- _ => rewrite K in FH; discriminate FH
            end).
  all: try (match goal with
            | F : find_sub (w_subs _) _ = Some ?s0, K : se_kind ?s0 = _ |- _ =>
                let Q := fresh in pose proof (simple_subs_find _ _ _ S F) as Q; rewrite K in Q; discriminate Q
            end).
  all: unfold inv_frag; split.
  all: try (match goal with |- simple_subs _ =>
              rew_frames;
              first [ exact S | (apply simple_subs_app; assumption) | (apply simple_subs_remove; exact S) | reflexivity ] end).
  all: try (match goal with |- threads_all frag_thread _ =>
              rew_frames;
              repeat (apply threads_all_put;
                      [|cbn [frag_thread frag_cpc frag_rpc];
                        first [ exact I | assumption
                              | (split; [first [assumption | apply frag_body | apply frag_eff | constructor]
                                        |first [exact I|reflexivity|assumption]])
                              | (eapply simple_subs_find; eassumption)
                              | (match goal with E : w_subs _ = _ |- _ => rewrite <- E; exact S end) ]]);
              exact T end).
Qed.

(* ---------- the thread table is a map: no duplicate keys ---------- *)
Definition keys_ok w : Prop := NoDup (map fst (w_threads w)).

Lemma put_thread_keys (l : list (N * thread)) t th :
  In t (map fst l) -> map fst (put_thread l t th) = map fst l.
Proof.
  induction l as [|[t' th'] r IH]; cbn; [contradiction|].
  destruct (N.eqb_spec t t') as [->|NE]; cbn; [reflexivity|].
  intros [E|I]; [congruence|]. now rewrite IH.
Qed.
Lemma put_thread_keys_new (l : list (N * thread)) t th :
  ~ In t (map fst l) -> map fst (put_thread l t th) = map fst l ++ [t].
Proof.
  induction l as [|[t' th'] r IH]; cbn; [reflexivity|].
  intros N. destruct (N.eqb_spec t t') as [->|NE]; [exfalso; apply N; now left|].
  cbn. rewrite IH; [reflexivity|]. intros I. apply N. now right.
Qed.
Lemma NoDup_put (l : list (N * thread)) t th : NoDup (map fst l) -> NoDup (map fst (put_thread l t th)).
Proof.
  intros ND. destruct (in_dec N.eq_dec t (map fst l)) as [I|NI].
  - now rewrite put_thread_keys.
  - rewrite put_thread_keys_new by assumption. apply NoDup_app_snoc; assumption.
Qed.


Theorem step_keys w t w' : keys_ok w -> step w t = Some w' -> keys_ok w'.
Proof.
  intros K H. step_cases H; use_frames; unfold keys_ok; rew_frames; repeat apply NoDup_put; exact K.
Qed.

Lemma get_thread_in (l : list (N * thread)) t th : get_thread l t = Some th -> In (t, th) l.
Proof.
  induction l as [|[t' th'] r IH]; cbn; [discriminate|].
  destruct (N.eqb_spec t t') as [->|NE]; [intros E; injection E as <-; now left|intros G; right; auto].
Qed.
Lemma in_get_thread (l : list (N * thread)) t th : NoDup (map fst l) -> In (t, th) l -> get_thread l t = Some th.
Proof.
  induction l as [|[t' th'] r IH]; cbn; [contradiction|]. intros ND [E|I].
  - injection E as -> ->. now rewrite N.eqb_refl.
  - inversion ND; subst. destruct (N.eqb_spec t t') as [->|NE]; [|auto].
    exfalso. apply H1. apply (in_map fst) in I. exact I.
Qed.

(* a held lock has a holder *)
Lemma existsb_holder (f : thread -> bool) (l : list (N * thread)) : NoDup (map fst l) ->
  existsb (fun p => f (snd p)) l = true -> exists t th, get_thread l t = Some th /\ f th = true.
Proof.
  intros ND E. apply existsb_exists in E. destruct E as ([t th] & I & F). exists t, th.
  split; [now apply in_get_thread|exact F].
Qed.

(* ---------- while the store is closing, the closer exists ---------- *)
Definition inv_closer w : Prop :=
  w_tx_open w = false -> tx_alive (w_dq w) = true ->
  exists tc r prog stop ph, get_thread (w_threads w) tc = Some (TClient r prog (PCloseSending stop ph)).


Theorem step_closer w t w' : inv_frag w -> fresh_ok w -> inv_closer w -> step w t = Some w' -> inv_closer w'.
Proof.
  intros [FT _] (EV & _ & FR) I H. step_cases H; use_frames.
  all: match goal with G : get_thread (w_threads _) _ = Some ?th |- _ =>
         let F := fresh "FG" in pose proof (FT _ _ G) as F; cbn [frag_thread frag_cpc frag_rpc] in F end.
  all: try contradiction.
  all: try (match goal with F : Forall frag_call _ /\ _ |- _ =>
              let FP := fresh "FP" in let FC := fresh "FC" in destruct F as [FP FC]; try contradiction;
              try (inversion FP; subst; match goal with HC : frag_call _ |- _ => cbn in HC; try contradiction end) end).
  all: repeat match goal with
       | R : recv ?c = Some (_, _) |- _ => apply recv_some in R; destruct R as (? & ? & ? & _)
       end.
  all: try (match goal with HB : (_ =? reducer_tid)%N = true |- _ => apply N.eqb_eq in HB; subst end).
  all: unfold inv_closer in *; rew_frames; intros O' A'.
  all: try discriminate.
  all: try congruence.
  (* the stepping thread is (still) the closer *)
  all: try (do 5 eexists; apply get_put_same; fail).
  (* the old closer is another thread: its entry is untouched *)
  all: try (destruct I as (tc & ? & ? & ? & ? & G); [first [assumption|congruence]|first [assumption|congruence]|];
            exists tc; do 4 eexists;
            repeat match goal with
            | |- get_thread (put_thread _ ?t1 _) tc = _ =>
                rewrite (get_put_other _ t1 tc);
                [|intros EQ; subst tc;
                  first [ rewrite G in *; discriminate
                        | (match goal with G2 : get_thread (w_threads _) t1 = Some _ |- _ => rewrite G in G2; discriminate G2 end)
                        | (rewrite FR in G by (first [lia | exact EV]); discriminate G) ]]
            end; exact G).
Qed.

(* ---------- auxiliary thread-table invariants ---------- *)
Definition body_call (c : call) : Prop := match c with CDispatch _ _ | CPanic => True | _ => False end.
Definition worker_pc (pc : cpc) : Prop :=
  match pc with PIdle | PTaskStart _ _ | PDispatchTx _ _ | PSending _ _ _ => True | _ => False end.
Definition worker_ok (th : thread) : Prop :=
  match th with
  | TClient (Worker _) prog pc =>
      Forall body_call prog /\ worker_pc pc /\ match pc with PTaskStart _ false => prog <> [] | _ => True end
  | _ => True
  end.
Lemma invisible_prog e : eff_visible e = false -> prog_of_eff e <> [].
Proof. unfold eff_visible, prog_of_eff. destruct (e_kind e); discriminate. Qed.

Lemma body_calls b : Forall body_call (calls_of_body b).
Proof. induction b as [|[e a| |] r IH]; cbn; auto; constructor; cbn; auto. Qed.
Lemma body_eff e : Forall body_call (prog_of_eff e).
Proof. unfold prog_of_eff. destruct (e_kind e); try apply body_calls. constructor; cbn; auto. Qed.

Definition is_stop_pc (th : thread) : bool :=
  match th with TClient _ _ PStopTake | TClient _ _ PStopJoin => true | _ => false end.
Definition is_reducer (th : thread) : bool := match th with TReducer _ => true | _ => false end.

(* the only reducer thread is the one at reducer_tid; a thread past close() sees a disconnected queue *)
Definition only_reducer (ths : list (N * thread)) : Prop :=
  forall t th, get_thread ths t = Some th -> is_reducer th = true -> t = reducer_tid.
Lemma only_reducer_put ths t th : only_reducer ths -> (is_reducer th = true -> t = reducer_tid) ->
  only_reducer (put_thread ths t th).
Proof.
  intros O P t0 th0 G R. destruct (N.eq_dec t0 t) as [->|NE].
  - rewrite get_put_same in G. injection G as <-. auto.
  - rewrite get_put_other in G by exact NE. eauto.
Qed.

Definition inv_aux w : Prop :=
  threads_all worker_ok (w_threads w) /\
  only_reducer (w_threads w) /\
  (tx_alive (w_dq w) = true -> threads_all (fun th => is_stop_pc th = false) (w_threads w)).

Theorem step_aux w t w' : inv_closer w -> inv_aux w -> step w t = Some w' -> inv_aux w'.
Proof.
  intros IC (WO & OR & SC) H. step_cases H; use_frames.
  all: repeat match goal with
       | R : recv ?c = Some (_, _) |- _ => apply recv_some in R; destruct R as (? & ? & ? & _)
       end.
  all: try (match goal with HB : (_ =? reducer_tid)%N = true |- _ => apply N.eqb_eq in HB; subst end).
  all: match goal with G : get_thread (w_threads _) _ = Some ?th |- _ =>
         let F := fresh "WF" in pose proof (WO _ _ G) as F; cbn [worker_ok worker_pc] in F end.
  all: unfold inv_aux; split; [|split].
  all: try (solve_threads_all WO; cbn [worker_ok worker_pc]; try exact I;
            repeat match goal with |- context [match ?r with Client => _ | Worker _ => _ end] => destruct r end;
            auto;
            try (destruct WF as (WF1 & WF2 & WF3); try contradiction; repeat split; auto;
                 try (inversion WF1; subst; assumption); try exact I; try discriminate; fail);
            try (split; [first [apply body_calls|apply body_eff]|split; [exact I|]]; try exact I;
                 match goal with |- context [eff_visible ?e] =>
                   destruct (eff_visible e) eqn:EVis; [exact I|now apply invisible_prog] end); fail).
  all: try (rew_frames; repeat (apply only_reducer_put; [|cbn [is_reducer]; first [discriminate|reflexivity]]);
            exact OR).
  all: rew_frames; intros A; try discriminate.
  all: try (specialize (SC A); solve_threads_all SC; fail).
  all: try match goal with E : tx_alive ?c = tx_alive (w_dq _), A : tx_alive ?c = true |- _ => rewrite E in A end.
  all: try (specialize (SC A); solve_threads_all SC; fail).
  all: try (specialize (SC A); match goal with G : get_thread _ _ = Some _ |- _ => apply SC in G; cbn in G; discriminate end).
  destruct (IC Heqb0 A) as (tc & ? & ? & ? & ? & G).
  apply (tx_free_get _ _ _ Heqb) in G. discriminate.
Qed.

(* ---------- who can be blocked, and on what ---------- *)
Definition dq_full w : Prop := cap (w_dq w) <= length (q (w_dq w)).

Lemma dq_phase_none w x ph : dq_phase w x ph = None -> ph = SBlockWait /\ dq_full w.
Proof.
  unfold dq_phase, dq_full. destruct ph; cbn.
  - destruct (pol (w_dq w)); [discriminate| |]; destruct (try_send (w_dq w) x); discriminate.
  - unfold send_block, try_send, is_full.
    destruct (Nat.leb_spec (cap (w_dq w)) (length (q (w_dq w)))); [auto|discriminate].
  - destruct (pol (w_dq w)); try discriminate. destruct (try_recv (w_dq w)). discriminate.
  - destruct (try_send (w_dq w) x); discriminate.
Qed.

Lemma reducer_blocked w pc : frag_rpc pc -> ((forall l, pc <> RClear l) -> subs_free w = true) ->
  step_reducer cfg w pc = None ->
  pc = RDone \/ (pc = RRecv /\ q (w_dq w) = [] /\ tx_alive (w_dq w) = true).
Proof.
  intros F SF B.
  destruct pc; cbn [frag_rpc] in F; try contradiction; try (left; reflexivity).
  1: { right. split; [reflexivity|]. now apply reducer_recv_blocked in B. }
  all: try (assert (S : subs_free w = true) by (apply SF; intros; discriminate)).
  all: exfalso; unfold step_reducer in B; try rewrite S in B.
  all: repeat match goal with
       | F : simple_subs (_ :: _) |- _ => apply simple_subs_tail in F; destruct F as [F ?]
       end.
  all: explode B.
  all: repeat match goal with
       | F : simple_subs (_ :: _) |- _ => apply simple_subs_tail in F; destruct F as [F ?]
       end.
  all: try (match goal with E : se_kind _ = _, F : simple_kind _ = true |- _ => rewrite E in F; discriminate F end).
Qed.

Definition client_wait w (r : role) (prog : list call) (pc : cpc) : Prop :=
  (prog = [] /\ pc = PIdle) \/ (prog = [] /\ exists k k0, r = Worker k0 /\ pc = PTaskStart k false) \/ (holds_tx (State := State) (TClient r prog pc) = true /\ dq_full w) \/
  (pc = PStopJoin /\ pool_idle w = false) \/
  (tx_free w = false /\ holds_tx (State := State) (TClient r prog pc) = false) \/ subs_free w = false.

Lemma client_blocked w t r prog pc : Forall frag_call prog -> frag_cpc pc -> simple_subs (w_subs w) ->
  step_client w t r prog pc = None -> client_wait w r prog pc.
Proof.
  intros FP F SS B. unfold client_wait.
  destruct pc; cbn [frag_cpc] in F; try contradiction; unfold step_client in B.
  all: explode B.
  all: repeat match goal with
       | B : invoke _ _ _ ?p _ = None |- _ =>
           assert (p = []) by (destruct p as [|c ?]; [reflexivity|exfalso; destruct c; cbn in B; try discriminate B;
                                                       destruct (memN _ _); discriminate B]); clear B
       | B : dq_phase _ _ _ = None |- _ =>
           let E := fresh "E" in apply dq_phase_none in B; destruct B as [E B]; try discriminate E; subst
       end.
  all: eauto 12.
  pose proof (simple_subs_find _ _ _ SS Heqo) as K. rewrite Heqs0 in K. discriminate K.
Qed.

Lemma forallb_false_holder (f : thread -> bool) (l : list (N * thread)) : NoDup (map fst l) ->
  forallb (fun p => f (snd p)) l = false -> exists t th, get_thread l t = Some th /\ f th = false.
Proof.
  intros ND E. assert (X : existsb (fun p => negb (f (snd p))) l = true).
  { clear ND. induction l as [|p r IH]; cbn in *; [discriminate|].
    destruct (f (snd p)); cbn in *; auto. }
  apply (existsb_holder (fun th => negb (f th))) in X; [|exact ND].
  destruct X as (t & th & G & F). exists t, th. split; [exact G|]. now apply negb_true_iff in F.
Qed.

(* ---------- C13 on the core fragment: no reachable deadlock ---------- *)
Definition live_inv w : Prop :=
  inv_frag w /\ keys_ok w /\ inv_aux w /\ close_state w /\ inv_tids w /\ inv_bound cfg w.
Definition all_blocked w : Prop := forall t, step w t = None.
(* every thread has run to completion, except possibly the reducer, which then idles in recv on
   an open, empty queue (a store nobody closed) *)
Definition quiescent w : Prop :=
  forall t th, get_thread (w_threads w) t = Some th ->
    thread_finished th = true \/
    (t = reducer_tid /\ th = TReducer RRecv /\ q (w_dq w) = [] /\ tx_alive (w_dq w) = true).

Theorem blocked_is_quiescent w : live_inv w -> all_blocked w -> quiescent w.
Proof.
  intros ([FT SS] & KO & (WO & OR & SC) & CS & [[pc G] _] & (_ & CAP & _)) AB.
  (* the reducer *)
  assert (SF : (forall l, pc <> RClear l) -> subs_free w = true).
  { intros NC. unfold subs_free. destruct (existsb _ _) eqn:E; [exfalso|reflexivity].
    apply existsb_holder in E; [|exact KO]. destruct E as (t & th & Gt & Hs).
    pose proof (FT _ _ Gt) as Ft. destruct th as [r prog pc'|pc'|]; cbn in Hs, Ft; try discriminate.
    - destruct Ft as [_ Ft]. destruct pc'; cbn in Hs, Ft; try discriminate; contradiction.
    - assert (t = reducer_tid) by (eapply OR; eauto). subst t. rewrite G in Gt. injection Gt as <-.
      destruct pc; cbn in Hs, Ft; try discriminate; try contradiction. eapply NC; reflexivity. }
  assert (RB : pc = RDone \/ (pc = RRecv /\ q (w_dq w) = [] /\ tx_alive (w_dq w) = true)).
  { pose proof (AB reducer_tid) as B. unfold step, World.step in B. rewrite G, N.eqb_refl in B.
    apply reducer_blocked; auto. exact (FT _ _ G). }
  assert (QE : q (w_dq w) = []).
  { destruct RB as [->|(_ & Q & _)]; [|exact Q]. now destruct (reducer_done_closed w CS G) as (_ & _ & Q). }
  assert (S : subs_free w = true) by (apply SF; intros l E; destruct RB as [->| [-> _]]; discriminate).
  assert (NF : ~ dq_full w) by (unfold dq_full; rewrite QE, CAP; cbn; lia).
  assert (CB : forall t r prog pc', get_thread (w_threads w) t = Some (TClient r prog pc') ->
               client_wait w r prog pc').
  { intros t r prog pc' Gt. pose proof (AB t) as B. unfold step, World.step in B. rewrite Gt in B.
    destruct (FT _ _ Gt) as [F1 F2]. eapply client_blocked; eauto. }
  assert (TF : tx_free w = true).
  { unfold tx_free. destruct (existsb _ _) eqn:E; [exfalso|reflexivity].
    apply existsb_holder in E; [|exact KO]. destruct E as (t & th & Gt & Hs).
    destruct th as [r prog pc'|pc'|]; cbn in Hs; try discriminate.
    destruct (CB _ _ _ _ Gt) as [[_ ->]|[(_ & ? & ? & _ & ->)|[[_ F]|[[-> _]|[[_ F]|F]]]]]; cbn in Hs; try discriminate.
    - contradiction.
    - cbn in F. congruence.
    - congruence. }
  (* a blocked, unfinished client can only be inside the pool join *)
  assert (CJ : forall t r prog pc', get_thread (w_threads w) t = Some (TClient r prog pc') ->
               thread_finished (State := State) (TClient r prog pc') = true \/ (pc' = PStopJoin /\ pool_idle w = false)).
  { intros t r prog pc' Gt.
    destruct (CB _ _ _ _ Gt) as [[-> ->]|[(-> & k & k0 & -> & ->)|[[_ F]|[F|[[F _]|F]]]]]; try congruence; auto; try contradiction.
    pose proof (WO _ _ Gt) as W. cbn in W. destruct W as (_ & _ & W). congruence. }
  intros t th Gt. destruct th as [r prog pc'|pc'|sid fin].
  - destruct (CJ _ _ _ _ Gt) as [F|[-> PI]]; [left; exact F|exfalso].
    unfold pool_idle in PI. apply (forallb_false_holder (fun th => negb (is_pool_thread th) || thread_finished th)) in PI; [|exact KO].
    destruct PI as (t2 & th2 & G2 & F2). apply orb_false_iff in F2. destruct F2 as [P2 U2].
    apply negb_false_iff in P2. destruct th2 as [r2 prog2 pc2|pc2|]; cbn in P2; try discriminate.
    + destruct r2 as [|k2]; [discriminate|].
      destruct (CJ _ _ _ _ G2) as [F|[-> _]]; [congruence|].
      pose proof (WO _ _ G2) as W. cbn in W. tauto.
    + assert (t2 = reducer_tid) by (eapply OR; eauto). subst t2. rewrite G in G2. injection G2 as <-.
      destruct RB as [->|(-> & _ & A)]; [discriminate U2|].
      pose proof (SC A _ _ Gt) as X. discriminate X.
  - assert (t = reducer_tid) by (eapply OR; eauto). subst t. rewrite G in Gt. injection Gt as <-.
    destruct RB as [->|(-> & Q & A)]; [left; reflexivity|right; auto].
  - destruct (FT _ _ Gt).
Qed.

(* ---------- the invariants hold initially and along every run ---------- *)
Definition full_inv w : Prop :=
  inv_frag w /\ fresh_ok w /\ keys_ok w /\ inv_closer w /\ inv_aux w /\
  close_state w /\ inv_tids w /\ inv_bound cfg w.

Theorem step_full w t w' : full_inv w -> step w t = Some w' -> full_inv w'.
Proof.
  intros (F & FR & K & C & A & CS & T & B) H. unfold full_inv.
  split; [eapply step_frag; eauto|]. split; [eapply step_fresh; eauto|].
  split; [eapply step_keys; eauto|]. split; [eapply step_closer; eauto|].
  split; [eapply step_aux; eauto|]. split; [eapply step_close; eauto|].
  split; [eapply step_tids; eauto|eapply step_bound; eauto].
Qed.

Lemma client_threads_shape (progs : list (list call)) : forall i t th,
  get_thread (client_threads (State := State) i progs ++ [(reducer_tid, TReducer RRecv)]) t = Some th ->
  (exists p, In p progs /\ th = TClient Client p PIdle) \/ (t = reducer_tid /\ th = TReducer RRecv).
Proof.
  induction progs as [|p r IH]; intros i t th; cbn [client_threads app get_thread length].
  - destruct (N.eqb_spec t reducer_tid); [|discriminate]. intros E; injection E as <-. right. auto.
  - destruct (N.eqb_spec t i).
    + intros E; injection E as <-. left. exists p. split; [left; reflexivity|reflexivity].
    + intros G. apply IH in G. destruct G as [(p' & I & E)|G]; [left; exists p'; split; [right; exact I|exact E]|right; exact G].
Qed.

Lemma client_threads_keys (progs : list (list call)) : forall i t,
  In t (map fst (client_threads (State := State) i progs)) -> (i <= t < i + N.of_nat (length progs))%N.
Proof.
  induction progs as [|p r IH]; intros i t; cbn [client_threads map fst In length]; [intros []|].
  intros [<-|I]; [lia|]. apply IH in I. lia.
Qed.

Lemma client_threads_nodup (progs : list (list call)) : forall i,
  (i + N.of_nat (length progs) <= reducer_tid)%N ->
  NoDup (map fst (client_threads (State := State) i progs ++ [(reducer_tid, TReducer RRecv)])).
Proof.
  induction progs as [|p r IH]; intros i L; cbn [client_threads map fst app length] in *.
  - constructor; [intros []|constructor].
  - constructor.
    + rewrite map_app, in_app_iff. intros [I|I].
      * apply client_threads_keys in I. lia.
      * cbn in I. destruct I as [I|[]]. lia.
    + apply IH. lia.
Qed.

Lemma init_full reducers mws progs : (length progs <= 100)%nat -> Forall (Forall frag_call) progs ->
  full_inv (init_world cfg reducers mws progs).
Proof.
  intros L FP.
  assert (SH : forall t th, get_thread (w_threads (init_world cfg reducers mws progs)) t = Some th ->
          (exists p, In p progs /\ th = TClient Client p PIdle) \/ (t = reducer_tid /\ th = TReducer RRecv)).
  { intros t th G. unfold init_world in G. cbn [w_threads] in G. eapply client_threads_shape; eauto. }
  unfold full_inv.
  split; [|split; [exact (proj1 (init_eff cfg 0%N reducers mws progs L))|split; [|split; [|split; [|split;
    [apply init_close|split; [apply init_tids; exact L|apply init_bound]]]]]]].
  - split; [|reflexivity].
    intros t th G. destruct (SH _ _ G) as [(p & I & ->)|[_ ->]]; cbn; auto.
    split; [|exact Logic.I]. rewrite Forall_forall in FP. auto.
  - unfold keys_ok, init_world. cbn [w_threads]. apply client_threads_nodup. unfold reducer_tid. lia.
  - intros O. discriminate O.
  - split; [|split].
    + intros t th G. destruct (SH _ _ G) as [(p & I & ->)|[_ ->]]; cbn; auto.
    + intros t th G R. destruct (SH _ _ G) as [(p & I & ->)|[-> _]]; [discriminate R|reflexivity].
    + intros _ t th G. destruct (SH _ _ G) as [(p & I & ->)|[_ ->]]; reflexivity.
Qed.

Theorem reachable_full reducers mws progs w : (length progs <= 100)%nat ->
  Forall (Forall frag_call) progs -> reachable cfg reducers mws progs w -> full_inv w.
Proof.
  intros L FP [sched H]. eapply (run_invariant cfg full_inv); [|apply init_full; eauto|exact H].
  intros; eapply step_full; eauto.
Qed.

(* C13, core fragment: whatever the schedule, a world in which no thread can take a step is a
   world in which every call has returned (every client program and every effect task has run to
   its end); the reducer has either left its loop or idles on an open, empty queue. *)
Theorem core_deadlock_free reducers mws progs w : (length progs <= 100)%nat ->
  Forall (Forall frag_call) progs -> reachable cfg reducers mws progs w ->
  all_blocked w -> quiescent w.
Proof.
  intros L FP R. pose proof (reachable_full _ _ _ _ L FP R) as (F & _ & K & _ & A & CS & T & B).
  apply blocked_is_quiescent. unfold live_inv. auto 10.
Qed.

End WorldLive.
