(* Builder.v — StoreBuilder (builder.rs:29-158). Components (reducers, middlewares) and names are
   identified by numbers; name 0 stands for the empty string. *)
From RS Require Import Base.

Record builder := mkBuilder {
  b_name : N; b_reducers : list N; b_without : bool; b_capacity : nat; b_policy : policy;
  b_mws : list N }.

Definition DEFAULT_CAPACITY : nat := 16.
Definition DEFAULT_NAME : N := 1%N.    (* "store" *)

(* StoreBuilder::new / new_with_reducer *)
Definition builder_new : builder := mkBuilder DEFAULT_NAME [] false DEFAULT_CAPACITY Block [].
Definition builder_new_with_reducer (r : N) : builder :=
  mkBuilder DEFAULT_NAME [r] false DEFAULT_CAPACITY Block [].

Inductive bcall :=
| BName (n : N)
| BWithReducer (r : N) | BWithReducers (rs : list N) | BAddReducer (r : N) | BWithoutReducer
| BCapacity (c : nat) | BPolicy (p : policy)
| BWithMiddleware (m : N) | BWithMiddlewares (ms : list N) | BAddMiddleware (m : N).

Definition apply_bcall (b : builder) (c : bcall) : builder :=
  match c with
  | BName n => mkBuilder n (b_reducers b) (b_without b) (b_capacity b) (b_policy b) (b_mws b)
  | BWithReducer r => mkBuilder (b_name b) [r] false (b_capacity b) (b_policy b) (b_mws b)
  | BWithReducers rs => mkBuilder (b_name b) rs false (b_capacity b) (b_policy b) (b_mws b)
  | BAddReducer r =>
      mkBuilder (b_name b) (b_reducers b ++ [r]) (b_without b) (b_capacity b) (b_policy b) (b_mws b)
  | BWithoutReducer => mkBuilder (b_name b) (b_reducers b) true (b_capacity b) (b_policy b) (b_mws b)
  | BCapacity c => mkBuilder (b_name b) (b_reducers b) (b_without b) c (b_policy b) (b_mws b)
  | BPolicy p => mkBuilder (b_name b) (b_reducers b) (b_without b) (b_capacity b) p (b_mws b)
  | BWithMiddleware m =>
      mkBuilder (b_name b) (b_reducers b) (b_without b) (b_capacity b) (b_policy b) [m]
  | BWithMiddlewares ms =>
      mkBuilder (b_name b) (b_reducers b) (b_without b) (b_capacity b) (b_policy b) ms
  | BAddMiddleware m =>
      mkBuilder (b_name b) (b_reducers b) (b_without b) (b_capacity b) (b_policy b) (b_mws b ++ [m])
  end.

Definition apply_bcalls (b : builder) (l : list bcall) : builder := fold_left apply_bcall l b.

(* the configuration of the running store that build() yields *)
Record config := mkConfig {
  c_name : N; c_reducers : list N; c_capacity : nat; c_policy : policy; c_mws : list N }.

Inductive build_error := ErrNoReducer | ErrEmptyName | ErrZeroCapacity.

(* build(): the three checks in the order of the code, then StoreImpl::new_with *)
Definition build (b : builder) : config + build_error :=
  if negb (b_without b) && (match b_reducers b with [] => true | _ => false end)
  then inr ErrNoReducer
  else if N.eqb (b_name b) 0 then inr ErrEmptyName
  else if Nat.eqb (b_capacity b) 0 then inr ErrZeroCapacity
  else inl (mkConfig (b_name b) (b_reducers b) (b_capacity b) (b_policy b) (b_mws b)).

(* option groups *)
Inductive group := GName | GReducers | GCapacity | GPolicy | GMiddlewares.
Definition group_of (c : bcall) : group :=
  match c with
  | BName _ => GName
  | BWithReducer _ | BWithReducers _ | BAddReducer _ | BWithoutReducer => GReducers
  | BCapacity _ => GCapacity
  | BPolicy _ => GPolicy
  | BWithMiddleware _ | BWithMiddlewares _ | BAddMiddleware _ => GMiddlewares
  end.
Definition group_eqb (g h : group) : bool :=
  match g, h with
  | GName, GName | GReducers, GReducers | GCapacity, GCapacity | GPolicy, GPolicy
  | GMiddlewares, GMiddlewares => true
  | _, _ => false
  end.
