(* WorldLive2.v — deadlock freedom (C13) with channeled subscribers: the whole API except state
   iterators (whose early release is the known finding F5), for programs whose registration calls
   carry pairwise distinct identifiers and whose subscription channels have capacity >= 1. *)
From RS Require Import Base Channel ChannelProofs Pipeline PipelineProofs Selector Script World WorldTactics Hist WorldProofs WorldInv WorldQueue WorldStop WorldBlock WorldMetrics WorldEffects WorldLive WorldFlush WorldSids.

Section WorldLive2.
Context {State : Type}.
Variable cfg : wconfig (State := State).
Hypothesis cap_pos : 0 < cfg_cap cfg.
Notation world := (world (State := State)).
Notation step := (step cfg).
Notation event := (event (State := State)).
Notation thread := (thread (State := State)).
Implicit Types w : World.world (State := State).

(* ---------- thread identifiers by kind ---------- *)
Definition client_tid (t : N) : Prop := (t < 100)%N \/ (N.even t = true /\ (1000 <= t)%N).
Definition tid_ok (t : N) (th : thread) : Prop :=
  match th with
  | TClient _ _ _ => client_tid t
  | TReducer _ => t = reducer_tid
  | TChan sid _ => t = chan_tid sid
  end.
Definition inv_tidc w : Prop := forall t th, get_thread (w_threads w) t = Some th -> tid_ok t th.

Lemma chan_tid_odd s : N.even (chan_tid s) = false.
Proof. unfold chan_tid. rewrite N.even_add_mul_2. reflexivity. Qed.
Lemma client_not_chan t s : client_tid t -> t <> chan_tid s.
Proof.
  intros [L|[E _]] ->; [unfold chan_tid in L; lia|]. rewrite chan_tid_odd in E. discriminate.
Qed.
Lemma client_not_reducer t : client_tid t -> t <> reducer_tid.
Proof. intros [L|[_ G]] ->; unfold reducer_tid in *; lia. Qed.

Lemma tidc_put (ths : list (N * thread)) t th :
  (forall t0 th0, get_thread ths t0 = Some th0 -> tid_ok t0 th0) -> tid_ok t th ->
  forall t0 th0, get_thread (put_thread ths t th) t0 = Some th0 -> tid_ok t0 th0.
Proof.
  intros I P t0 th0 G. destruct (N.eq_dec t0 t) as [->|NE].
  - rewrite get_put_same in G. now injection G as <-.
  - rewrite get_put_other in G by exact NE. eauto.
Qed.

Theorem step_tidc w t w' : fresh_ok w -> inv_tidc w -> step w t = Some w' -> inv_tidc w'.
Proof.
  intros (EV & GE & _) I H. step_cases H; use_frames.
  all: try (match goal with HB : (_ =? reducer_tid)%N = true |- _ => apply N.eqb_eq in HB; subst end).
  all: match goal with G : get_thread (w_threads _) _ = Some ?th |- _ =>
         let F := fresh "TK" in pose proof (I _ _ G) as F; cbn [tid_ok] in F end.
  all: unfold inv_tidc in *; rew_frames.
  all: repeat (apply tidc_put; [|cbn [tid_ok]; first [assumption | reflexivity | (right; split; assumption) | idtac]]).
  all: try exact I.
Qed.

(* ---------- while the store is closing the closer exists (no fragment needed) ---------- *)
Theorem step_closer2 w t w' : inv_tidc w -> fresh_ok w -> inv_closer w -> step w t = Some w' -> inv_closer w'.
Proof.
  intros TI (EV & _ & FR) I H. step_cases H; use_frames.
  all: repeat match goal with
       | R : recv ?c = Some (_, _) |- _ => apply recv_some in R; destruct R as (? & ? & ? & _)
       end.
  all: try (match goal with HB : (_ =? reducer_tid)%N = true |- _ => apply N.eqb_eq in HB; subst end).
  all: unfold inv_closer in *; rew_frames; intros O' A'.
  all: try discriminate.
  all: try congruence.
  all: try (do 5 eexists; apply get_put_same; fail).
  all: try (destruct I as (tc & ? & ? & ? & ? & G); [first [assumption|congruence]|first [assumption|congruence]|];
            exists tc; do 4 eexists;
            repeat match goal with
            | |- get_thread (put_thread _ ?t1 _) tc = _ =>
                rewrite (get_put_other _ t1 tc);
                [|intros EQ; subst tc;
                  first [ rewrite G in *; discriminate
                        | (match goal with G2 : get_thread (w_threads _) t1 = Some _ |- _ => rewrite G in G2; discriminate G2 end)
                        | (rewrite FR in G by (first [lia | exact EV]); discriminate G)
                        | (apply TI in G; cbn [tid_ok] in G; eapply client_not_chan; [exact G|reflexivity]) ]]
            end; exact G).
Qed.

(* ---------- a join waits on a disconnected channel ---------- *)
Definition joins (sid : N) (th : thread) : bool :=
  match th with
  | TClient _ _ (PUnsubJoin s) => N.eqb s sid
  | TReducer (RClearJoin s _) => N.eqb s sid
  | _ => false
  end.
Definition inv_y w : Prop :=
  forall sid t th, get_thread (w_threads w) t = Some th -> joins sid th = true ->
  forall c, get_chan (w_chans w) sid = Some c -> tx_alive c = false.

Lemma sub_phase_alive w sid x ph w1 sr : sub_phase w sid x ph = Some (w1, sr) ->
  forall s c1, get_chan (w_chans w1) s = Some c1 -> exists c0, get_chan (w_chans w) s = Some c0 /\ tx_alive c1 = tx_alive c0.
Proof.
  intros H s c1 G. apply sub_phase_chans in H. destruct H as [[_ E]|(c & c' & dr & G0 & SP & E)]; rewrite E in G.
  - eauto.
  - destruct (N.eq_dec s sid) as [->|NE].
    + rewrite get_put_chan_same in G. injection G as <-. exists c. split; [exact G0|].
      apply send_phase_inv in SP. tauto.
    + rewrite get_put_chan_other in G by exact NE. eauto.
Qed.

Lemma joins_used w sid t th : get_thread (w_threads w) t = Some th -> joins sid th = true -> used sid w.
Proof.
  intros G J. right. right. exists t, th. split; [exact G|].
  destruct th as [r prog pc|pc|]; try discriminate; destruct pc; try discriminate; cbn in J;
    apply N.eqb_eq in J; subst; cbn; auto.
Qed.

Theorem step_y w t w' : keys_ok w -> inv_u w -> inv_v w -> inv_y w -> step w t = Some w' -> inv_y w'.
Proof.
  intros KO U V I H. step_cases H; use_frames.
  all: try (match goal with HB : (_ =? reducer_tid)%N = true |- _ => apply N.eqb_eq in HB; subst end).
  all: repeat match goal with
       | HH : sub_phase _ _ _ _ = Some (_, _) |- _ =>
           let A := fresh "AL" in pose proof (sub_phase_alive _ _ _ _ _ _ HH) as A; revert HH
       end; intros.
  all: unfold inv_y in *; intros sid' t' th' G' J' c' GC'.
  all: revert G' GC'; simp_world; cbn [w_chans w_threads set_tx_open set_subs];
       repeat match goal with E : w_threads ?x = _ |- context [w_threads ?x] => rewrite E end;
       repeat match goal with E : w_chans ?x = _ |- context [w_chans ?x] => rewrite E end; intros G' GC'.
  (* which thread is joining *)
  all: repeat match type of G' with
       | get_thread (put_thread _ ?t1 _) ?k = _ =>
           let EQ := fresh "EQ" in
           destruct (N.eq_dec k t1) as [EQ|EQ];
           [ rewrite EQ in G'; rewrite get_put_same in G'; injection G' as <-; cbn [joins] in J'; try discriminate J'
           | rewrite get_put_other in G' by exact EQ ]
       end.
  (* the forwarding sends keep a dead channel dead *)
  all: try (match goal with A : forall s c1, get_chan (w_chans ?x) s = Some c1 -> _ |- _ =>
              match type of GC' with get_chan (w_chans x) _ = _ =>
                apply A in GC'; destruct GC' as (c9 & GC' & ->) end end).
  all: try (eapply I; eassumption).
  (* which channel *)
  all: repeat match type of GC' with
       | get_chan (put_chan _ ?s0 _) ?k = _ =>
           let EC := fresh "EC" in
           destruct (N.eq_dec k s0) as [EC|EC];
           [ rewrite EC in GC'; rewrite get_put_chan_same in GC'; injection GC' as <-
           | rewrite get_put_chan_other in GC' by exact EC ]
       end.
  all: try (eapply I; eassumption).
  all: try reflexivity.
  (* a new channel for sid' would need a pending registration of sid', but sid' is in use *)
  all: try (exfalso; subst;
            match goal with
            | G : get_thread (w_threads ?ww) ?t0 = Some (TClient ?r (?c :: ?l) ?pc), GJ : get_thread (w_threads ?ww) _ = Some ?thj, J : joins ?s ?thj = true |- _ =>
                apply (pending_is_fresh ww s U V);
                [ unfold all_pending; apply in_flat_map; exists (t0, TClient r (c :: l) pc);
                  split; [now apply get_thread_in|cbn; now left]
                | eapply joins_used; eassumption ]
            end).
  all: try (apply N.eqb_eq in J'; subst; first [contradiction | congruence]).
  (* a receive keeps the channel's liveness *)
  all: try (match goal with HR : recv ?c = Some (_, ?c1) |- tx_alive ?c1 = false =>
              apply recv_some in HR; destruct HR as (_ & _ & A9 & _); rewrite A9; eapply I; subst; eassumption end).
Qed.

(* ---------- every channeled entry has its thread ---------- *)
Definition has_thread (sid : N) (ths : list (N * thread)) : Prop :=
  exists f, get_thread ths (chan_tid sid) = Some (TChan sid f).
Definition chan_ids (l : list subentry) : list N := map se_id (filter (fun x => is_chan_kind (se_kind x)) l).
Definition th_chan_sids (th : thread) : list N :=
  match th with
  | TClient _ _ (PSubsAdd se) => if is_chan_kind (se_kind se) then [se_id se] else []
  | TClient _ _ (PUnsubCtx s) | TClient _ _ (PUnsubJoin s) => [s]
  | TReducer (RNotify _ _ rest _) | TReducer (RClear rest) | TReducer (RClearIterSend _ rest _) => chan_ids rest
  | TReducer (RNotifySend _ _ cur rest _ _) => chan_ids (cur :: rest)
  | TReducer (RClearCtx s rest) | TReducer (RClearJoin s rest) => s :: chan_ids rest
  | _ => []
  end.
Definition inv_x w : Prop :=
  (forall sid, In sid (chan_ids (w_subs w)) -> has_thread sid (w_threads w)) /\
  (forall t th, get_thread (w_threads w) t = Some th -> forall sid, In sid (th_chan_sids th) -> has_thread sid (w_threads w)).

Lemma has_thread_put sid ths t th : has_thread sid ths -> tid_ok t th -> has_thread sid (put_thread ths t th).
Proof.
  intros [f G] TK. destruct (N.eq_dec (chan_tid sid) t) as [E|NE].
  - subst t. destruct th as [r prog pc|pc|s f0]; cbn [tid_ok] in TK.
    + exfalso. eapply client_not_chan; eauto.
    + exfalso. unfold chan_tid, reducer_tid in TK. lia.
    + apply chan_tid_inj in TK. subst s. exists f0. apply get_put_same.
  - exists f. rewrite get_put_other by exact NE. exact G.
Qed.
Lemma has_thread_new sid ths f : has_thread sid (put_thread ths (chan_tid sid) (TChan sid f)).
Proof. exists f. apply get_put_same. Qed.

Lemma chan_ids_app l x : chan_ids (l ++ [x]) = chan_ids l ++ (if is_chan_kind (se_kind x) then [se_id x] else []).
Proof. unfold chan_ids. rewrite filter_app, map_app. cbn. destruct (is_chan_kind (se_kind x)); reflexivity. Qed.
Lemma chan_ids_remove l s sid : In sid (chan_ids (remove_sub l s)) -> In sid (chan_ids l).
Proof.
  unfold chan_ids, remove_sub. intros I. apply in_map_iff in I. destruct I as (x & <- & I).
  apply filter_In in I. destruct I as [I K]. apply filter_In in I. apply in_map. apply filter_In. tauto.
Qed.
Lemma chan_ids_cons x l : chan_ids (x :: l) = (if is_chan_kind (se_kind x) then [se_id x] else []) ++ chan_ids l.
Proof. unfold chan_ids. cbn [filter]. destruct (is_chan_kind (se_kind x)); reflexivity. Qed.
Lemma find_chan_in l s se : find_sub l s = Some se -> is_chan_kind (se_kind se) = true -> In s (chan_ids l).
Proof.
  unfold chan_ids. induction l as [|x r IH]; cbn [find_sub]; [discriminate|].
  destruct (N.eqb_spec (se_id x) s) as [E|E].
  - intros F K. injection F as <-. cbn [filter]. rewrite K. left. exact E.
  - intros F K. cbn [filter]. destruct (is_chan_kind (se_kind x)); [right|]; auto.
Qed.

Theorem step_x w t w' : fresh_ok w -> inv_tidc w -> inv_x w -> step w t = Some w' -> inv_x w'.
Proof.
  intros (EV & GE & _) TI [X1 X2] H. step_cases H; use_frames.
  all: try (match goal with HB : (_ =? reducer_tid)%N = true |- _ => apply N.eqb_eq in HB; subst end).
  all: match goal with G : get_thread (w_threads _) _ = Some ?th |- _ =>
         let F := fresh "TK" in let F2 := fresh "XT" in
         pose proof (TI _ _ G) as F; cbn [tid_ok] in F; pose proof (X2 _ _ G) as F2; cbn [th_chan_sids] in F2 end.
  all: unfold inv_x; split.
  (* part 1: the registry *)
  all: try (match goal with |- forall sid, In sid (chan_ids _) -> _ =>
              intros sid9 IN; revert IN; rew_frames; intros IN;
              try (apply chan_ids_remove in IN);
              try (rewrite chan_ids_app in IN; apply in_app_or in IN; destruct IN as [IN|IN]);
              try (destruct IN; fail);
              first [ (pose proof (X1 _ IN) as HT) | (pose proof (XT _ IN) as HT) | idtac ];
              try (repeat (apply has_thread_put; [|cbn [tid_ok]; first [assumption | reflexivity | (right; split; assumption)]]);
                   exact HT) end).
  (* part 2: entries and identifiers in program counters *)
  all: intros t9 th9 G9 sid9 IN; revert G9; rew_frames; intros G9.
  all: repeat match type of G9 with
       | get_thread (put_thread _ ?t1 _) ?k = _ =>
           let EQ := fresh "EQ" in
           destruct (N.eq_dec k t1) as [EQ|EQ];
           [ rewrite EQ in G9; rewrite get_put_same in G9; injection G9 as <-;
             cbn [th_chan_sids is_chan_kind se_kind se_id] in IN
           | rewrite get_put_other in G9 by exact EQ ]
       end.
  all: try (destruct IN; fail).
  all: try (assert (HT : has_thread sid9 (w_threads w)) by
              first [ (eapply X2; eassumption) | (apply XT; exact IN) | (apply X1; exact IN) ];
            repeat (apply has_thread_put; [|cbn [tid_ok]; first [assumption | reflexivity | (right; split; assumption)]]);
            exact HT).
  (* the thread created by this very subscription *)
  all: try (destruct IN as [<-|[]];
            repeat first [ apply has_thread_new
                         | (apply has_thread_put; [|cbn [tid_ok]; first [assumption | reflexivity | (right; split; assumption)]]) ]; fail).
  (* identifiers handed on from the registry or from the thread's previous program counter *)
  all: try (assert (HT : has_thread sid9 (w_threads w)) by
              (first [ (match goal with F : find_sub _ _ = Some ?se, K : se_kind ?se = SKChan |- _ =>
                          destruct IN as [<-|[]]; apply X1; eapply find_chan_in; [exact F|rewrite K; reflexivity] end)
                     | (apply XT; rewrite chan_ids_cons;
                        repeat (match goal with K : se_kind _ = _ |- _ => rewrite K end);
                        cbn [is_chan_kind app];
                        first [ exact IN | (right; exact IN) | (apply in_or_app; right; exact IN)
                              | (cbn [In] in IN |- *; tauto) ])
                     | (apply XT; exact IN)
                     | (apply XT; right; exact IN)
                     | (apply X1; match goal with E : w_subs _ = _ |- _ => rewrite E end; exact IN) ]);
            repeat (apply has_thread_put; [|cbn [tid_ok]; first [assumption | reflexivity | (right; split; assumption)]]);
            exact HT).
Qed.

(* ---------- a subscriber thread has its channel; channels have room for one item ---------- *)
Definition inv_hc w : Prop :=
  (forall t sid f, get_thread (w_threads w) t = Some (TChan sid f) -> get_chan (w_chans w) sid <> None) /\
  (forall sid c, get_chan (w_chans w) sid = Some c -> 0 < cap c).
Definition cap_call (c : call) : Prop :=
  match c with CSubscribed _ n _ | CIter _ n _ => 0 < n | _ => True end.
Definition cap_thread (th : thread) : Prop :=
  match th with TClient _ prog _ => Forall cap_call prog | _ => True end.
Lemma cap_body b : Forall cap_call (calls_of_body b).
Proof. induction b as [|[e a| |] r IH]; cbn; auto; constructor; cbn; auto. Qed.
Lemma cap_eff e : Forall cap_call (prog_of_eff e).
Proof. unfold prog_of_eff. destruct (e_kind e); try apply cap_body. constructor; cbn; auto. Qed.

Lemma get_put_chan_some (l : list (N * chan (State * aid))) s c s0 :
  get_chan l s0 <> None -> get_chan (put_chan l s c) s0 <> None.
Proof.
  intros G. destruct (N.eq_dec s0 s) as [->|NE]; [rewrite get_put_chan_same; discriminate|].
  now rewrite get_put_chan_other by exact NE.
Qed.

Theorem step_capt w t w' : threads_all cap_thread (w_threads w) -> step w t = Some w' ->
  threads_all cap_thread (w_threads w').
Proof.
  intros T H. step_cases H; use_frames.
  all: match goal with G : get_thread (w_threads _) _ = Some ?th |- _ =>
         let F := fresh "CT" in pose proof (T _ _ G) as F; cbn [cap_thread] in F end.
  all: solve_threads_all T; cbn [cap_thread]; auto using cap_body, cap_eff.
  all: try (inversion CT; subst; assumption).
Qed.

Theorem step_hc w t w' : threads_all cap_thread (w_threads w) -> inv_hc w -> step w t = Some w' -> inv_hc w'.
Proof.
  intros CT [H1 H2] H. step_cases H; use_frames.
  all: try (match goal with HB : (_ =? reducer_tid)%N = true |- _ => apply N.eqb_eq in HB; subst end).
  all: match goal with G : get_thread (w_threads _) _ = Some ?th |- _ =>
         let F := fresh "CP" in pose proof (CT _ _ G) as F; cbn [cap_thread] in F end.
  all: repeat match goal with
       | HH : sub_phase _ _ _ _ = Some (_, _) |- _ =>
           apply sub_phase_chans in HH; destruct HH as [[? HH]|(? & ? & ? & ? & ? & HH)]
       end.
  all: unfold inv_hc; split.
  (* threads keep their channels *)
  all: try (match goal with |- forall t sid f, get_thread _ t = Some (TChan sid f) -> _ =>
              intros t9 sid9 f9 G9; revert G9; rew_frames; intros G9;
              repeat match type of G9 with
              | get_thread (put_thread _ ?t1 _) ?k = _ =>
                  let EQ := fresh "EQ" in
                  destruct (N.eq_dec k t1) as [EQ|EQ];
                  [ rewrite EQ in G9; rewrite get_put_same in G9; try discriminate G9
                  | rewrite get_put_other in G9 by exact EQ ]
              end;
              try (injection G9 as <- <-);
              first [ (rewrite get_put_chan_same; discriminate)
                    | (repeat (apply get_put_chan_some); eapply H1; eassumption) | idtac ] end).
  (* capacities *)
  all: try (match goal with |- forall sid c, get_chan _ sid = Some c -> 0 < cap c =>
              intros sid9 c9 G9; revert G9; simp_world; cbn [w_chans set_tx_open set_subs];
              repeat match goal with E : w_chans ?x = _ |- context [w_chans ?x] => rewrite E end; intros G9;
              repeat match type of G9 with
              | get_chan (put_chan _ ?s0 _) ?k = _ =>
                  let EC := fresh "EC" in
                  destruct (N.eq_dec k s0) as [EC|EC];
                  [ rewrite EC in G9; rewrite get_put_chan_same in G9; injection G9 as <-
                  | rewrite get_put_chan_other in G9 by exact EC ]
              end;
              first [ (eapply H2; eassumption)
                    | (inversion CP; subst; assumption)
                    | (cbn [cap disconnect]; eapply H2; eassumption)
                    | (match goal with HS : send_phase ?c _ _ = Some (?c1, _, _) |- 0 < cap ?c1 =>
                         apply send_phase_inv in HS; destruct HS as (E9 & _); rewrite E9; eapply H2; eassumption end)
                    | (match goal with HR : recv ?c = Some (_, ?c1) |- 0 < cap ?c1 =>
                         apply recv_some in HR; destruct HR as (E9 & _); rewrite E9; eapply H2; eassumption end)
                    | idtac ] end).
Qed.

(* ---------- who can be blocked, and on what (with channeled subscribers) ---------- *)
Lemma send_phase_none (c : chan (State * aid)) x ph : send_phase c x ph = None ->
  ph = SBlockWait /\ cap c <= length (q c).
Proof.
  destruct ph; cbn.
  - destruct (pol c); [discriminate| |]; destruct (try_send c x); discriminate.
  - unfold send_block, try_send, is_full.
    destruct (Nat.leb_spec (cap c) (length (q c))); [auto|discriminate].
  - destruct (pol c); try discriminate. destruct (try_recv c). discriminate.
  - destruct (try_send c x); discriminate.
Qed.
Lemma sub_phase_none w sid x ph : sub_phase w sid x ph = None ->
  exists c, get_chan (w_chans w) sid = Some c /\ ph = SBlockWait /\ cap c <= length (q c).
Proof.
  unfold sub_phase. destruct (get_chan (w_chans w) sid) as [c|]; [|discriminate].
  destruct (send_phase c x ph) as [[[c' sr'] dr]|] eqn:E; [discriminate|]. intros _.
  exists c. split; [reflexivity|]. now apply send_phase_none in E.
Qed.

Definition reducer_wait w (pc : rpc (State := State)) : Prop :=
  pc = RDone \/ (pc = RRecv /\ q (w_dq w) = [] /\ tx_alive (w_dq w) = true) \/
  (subs_free w = false /\ ((exists a s, pc = RSnapshot a s) \/ pc = RClearLock)) \/
  (exists a s cur rest n c, pc = RNotifySend a s cur rest n SBlockWait /\
     get_chan (w_chans w) (se_id cur) = Some c /\ cap c <= length (q c)) \/
  (exists sid rest, pc = RClearJoin sid rest /\ chan_thread_finished w sid = false).

Lemma reducer_blocked2 w pc : cf_rpc pc -> step_reducer cfg w pc = None -> reducer_wait w pc.
Proof.
  intros F B. unfold reducer_wait.
  destruct pc; cbn [cf_rpc] in F; try contradiction; try (left; reflexivity).
  1: { right. left. split; [reflexivity|]. now apply reducer_recv_blocked in B. }
  all: unfold step_reducer in B.
  all: repeat match goal with
       | F : _ = SKChan /\ noiter _ |- _ => destruct F as [FK FN]
       | F : noiter (_ :: _) |- _ => apply noiter_tail in F; destruct F as [F ?]
       end.
  all: explode B.
  all: repeat match goal with
       | F : noiter (_ :: _) |- _ => apply noiter_tail in F; destruct F as [F ?]
       end.
  all: try (match goal with E : se_kind _ = SKIter, F : noiter_kind _ = true |- _ => rewrite E in F; discriminate F end).
  all: repeat match goal with
       | B : sub_phase _ _ _ _ = None |- _ =>
           apply sub_phase_none in B; destruct B as (c9 & G9 & E9 & L9); try discriminate E9; subst
       end.
  all: try (right; right; left; split; [reflexivity|]; first [left; eauto; fail | right; reflexivity]).
  all: try (right; right; right; left; do 6 eexists; split; [reflexivity|split; eassumption]).
  all: try (right; right; right; right; do 2 eexists; split; [reflexivity|assumption]).
Qed.

Definition client_wait2 w (r : role) (prog : list call) (pc : cpc) : Prop :=
  client_wait w r prog pc \/
  (exists sid, pc = PUnsubCtx sid /\ ctx_free w sid = false) \/
  (exists sid, pc = PUnsubJoin sid /\ chan_thread_finished w sid = false).

Lemma client_blocked2 w t r prog pc : Forall cf_call prog -> cf_cpc pc -> noiter (w_subs w) ->
  step_client w t r prog pc = None -> client_wait2 w r prog pc.
Proof.
  intros FP F SS B. unfold client_wait2, client_wait.
  destruct pc; cbn [cf_cpc] in F; try contradiction; unfold step_client in B.
  all: explode B.
  all: repeat match goal with
       | B : invoke _ _ _ ?p _ = None |- _ =>
           assert (p = []) by (destruct p as [|c ?]; [reflexivity|exfalso; destruct c; cbn in B; try discriminate B;
                                                       destruct (memN _ _); discriminate B]); clear B
       | B : dq_phase _ _ _ = None |- _ =>
           let E := fresh "E" in apply dq_phase_none in B; destruct B as [E B]; try discriminate E; subst
       end.
  all: try (left; eauto 12; fail).
  all: try (right; eauto 6; fail).
  pose proof (noiter_find _ _ _ SS Heqo) as K. rewrite Heqs0 in K. discriminate K.
Qed.

Lemma unsub_ctx_blocked w t r prog sid :
  step_client w t r prog (PUnsubCtx sid) = None -> ctx_free w sid = false.
Proof. unfold step_client. destruct (ctx_free w sid); [discriminate|reflexivity]. Qed.

(* ---------- the theorem ---------- *)
Definition live2_inv w : Prop :=
  inv_cf w /\ keys_ok w /\ inv_tidc w /\ inv_aux w /\ close_state w /\ inv_tids w /\ inv_bound cfg w /\
  inv_k w /\ inv_q w /\ inv_y w /\ inv_x w /\ inv_hc w.

(* every thread has run to completion, except possibly the reducer, idle in recv on an open empty
   queue, and the threads of channeled subscribers, idle on their open empty channels *)
Definition quiescent2 w : Prop :=
  forall t th, get_thread (w_threads w) t = Some th ->
    thread_finished th = true \/
    (t = reducer_tid /\ th = TReducer RRecv /\ q (w_dq w) = [] /\ tx_alive (w_dq w) = true) \/
    (exists sid c, th = TChan sid false /\ get_chan (w_chans w) sid = Some c /\ q c = [] /\ tx_alive c = true).

Lemma chan_blocked w t sid : inv_hc w -> get_thread (w_threads w) t = Some (TChan sid false) ->
  step w t = None -> exists c, get_chan (w_chans w) sid = Some c /\ q c = [] /\ tx_alive c = true.
Proof.
  intros [HC _] G B. unfold World.step in B. rewrite G in B. unfold step_chan in B.
  destruct (get_chan (w_chans w) sid) as [c|] eqn:GC; [|exfalso; eapply HC; eauto].
  exists c. split; [reflexivity|]. destruct (recv c) as [[[[[? ?]|]|] ?]|] eqn:R; try discriminate B.
  unfold recv in R. destruct (q c) as [|x l]; [|discriminate R]. destruct (tx_alive c); [auto|discriminate R].
Qed.

Theorem blocked_is_quiescent2 w : live2_inv w -> all_blocked cfg w -> quiescent2 w.
Proof.
  intros ([FT SS] & KO & TI & (WO & OR & SC) & CS & [[pc G] _] & (_ & CAP & _) & K & Q & Y & [X1 X2] & HC) AB.
  (* a thread of a channeled subscriber that cannot step is idle or has ended *)
  assert (CH : forall t sid f, get_thread (w_threads w) t = Some (TChan sid f) ->
               f = true \/ exists c, get_chan (w_chans w) sid = Some c /\ q c = [] /\ tx_alive c = true).
  { intros t sid [|] Gt; [now left|right]. eapply chan_blocked; eauto. }
  (* a join never waits: the channel is disconnected, so the thread is not idle *)
  assert (JN : forall t th sid, get_thread (w_threads w) t = Some th -> joins sid th = true ->
               has_thread sid (w_threads w) -> chan_thread_finished w sid = true).
  { intros t th sid Gt J [f Gf]. unfold chan_thread_finished. rewrite Gf.
    destruct (CH _ _ _ Gf) as [->|(c & GC & _ & A)]; [reflexivity|].
    rewrite (Y _ _ _ Gt J _ GC) in A. discriminate A. }
  (* the reducer *)
  assert (RW : pc = RDone \/ (pc = RRecv /\ q (w_dq w) = [] /\ tx_alive (w_dq w) = true) \/
               (subs_free w = false /\ ((exists a s, pc = RSnapshot a s) \/ pc = RClearLock))).
  { pose proof (AB reducer_tid) as B. unfold World.step in B. rewrite G, N.eqb_refl in B.
    destruct (reducer_blocked2 w pc (FT _ _ G) B) as [R|[R|[R|[R|R]]]]; auto.
    - exfalso. destruct R as (a & s & cur & rest & n & c & -> & GC & FULL).
      pose proof (FT _ _ G) as [KC _]. cbn [cf_thread cf_rpc] in KC.
      assert (HT : has_thread (se_id cur) (w_threads w)).
      { eapply X2; [exact G|]. cbn [th_chan_sids]. rewrite chan_ids_cons, KC. cbn. now left. }
      destruct HT as [f Gf]. destruct HC as [_ HCAP]. pose proof (HCAP _ _ GC) as CP.
      destruct (CH _ _ _ Gf) as [->|(c2 & GC2 & QE & _)].
      + destruct (Q _ Gf _ GC) as [QE _]. rewrite QE in FULL. cbn in FULL. lia.
      + rewrite GC in GC2. injection GC2 as <-. rewrite QE in FULL. cbn in FULL. lia.
    - exfalso. destruct R as (sid & rest & -> & NF).
      rewrite (JN _ _ sid G) in NF; [discriminate| cbn; apply N.eqb_refl |].
      eapply X2; [exact G|]. cbn [th_chan_sids]. now left. }
  (* nobody holds the subscribers lock *)
  assert (S : subs_free w = true).
  { unfold subs_free. destruct (existsb _ _) eqn:E; [exfalso|reflexivity].
    apply existsb_holder in E; [|exact KO]. destruct E as (t & th & Gt & Hs).
    pose proof (FT _ _ Gt) as Ft. destruct th as [r prog pc'|pc'|]; cbn in Hs, Ft; try discriminate.
    - destruct Ft as [_ Ft]. pose proof (AB t) as B. unfold World.step in B. rewrite Gt in B.
      destruct pc'; cbn in Hs, Ft; try discriminate; try contradiction.
      + (* PUnsubCtx: the context lock is held only by a forwarding reducer *)
        apply unsub_ctx_blocked in B. unfold ctx_free in B. apply negb_false_iff in B.
        apply existsb_holder in B; [|exact KO]. destruct B as (t2 & th2 & G2 & H2).
        destruct th2 as [| pc2 |]; cbn in H2; try discriminate. destruct pc2; try discriminate.
        assert (t2 = reducer_tid) by (eapply OR; eauto). subst t2. rewrite G in G2. injection G2 as ->.
        destruct RW as [R|[[R _]|[_ [(? & ? & R)|R]]]]; discriminate R.
      + (* PUnsubJoin *)
        apply unsub_join_blocked in B. rewrite (JN _ _ sid Gt) in B; [discriminate|cbn; apply N.eqb_refl|].
        eapply X2; [exact Gt|]. cbn [th_chan_sids]. now left.
    - assert (t = reducer_tid) by (eapply OR; eauto). subst t. rewrite G in Gt. injection Gt as <-.
      destruct RW as [R|[[R _]|[_ [(? & ? & R)|R]]]]; subst pc; discriminate Hs. }
  assert (RB : pc = RDone \/ (pc = RRecv /\ q (w_dq w) = [] /\ tx_alive (w_dq w) = true)).
  { destruct RW as [R|[R|[R _]]]; auto. congruence. }
  assert (QE : q (w_dq w) = []).
  { destruct RB as [->|(_ & QQ & _)]; [|exact QQ]. now destruct (reducer_done_closed w CS G) as (_ & _ & QQ). }
  assert (NF : ~ dq_full w) by (unfold dq_full; rewrite QE, CAP; cbn; lia).
  (* what a blocked client waits for *)
  assert (CB : forall t r prog pc', get_thread (w_threads w) t = Some (TClient r prog pc') ->
               client_wait w r prog pc').
  { intros t r prog pc' Gt. pose proof (AB t) as B. unfold World.step in B. rewrite Gt in B.
    destruct (FT _ _ Gt) as [F1 F2].
    destruct (client_blocked2 w t r prog pc' F1 F2 SS B) as [W|[(sid & -> & CF)|(sid & -> & NFN)]]; [exact W|exfalso..].
    - unfold ctx_free in CF. apply negb_false_iff in CF.
      apply existsb_holder in CF; [|exact KO]. destruct CF as (t2 & th2 & G2 & H2).
      destruct th2 as [| pc2 |]; cbn in H2; try discriminate. destruct pc2; try discriminate.
      assert (t2 = reducer_tid) by (eapply OR; eauto). subst t2. rewrite G in G2. injection G2 as ->.
      destruct RB as [R|[R _]]; discriminate R.
    - rewrite (JN _ _ sid Gt) in NFN; [discriminate|cbn; apply N.eqb_refl|].
      eapply X2; [exact Gt|]. cbn [th_chan_sids]. now left. }
  assert (TF : tx_free w = true).
  { unfold tx_free. destruct (existsb _ _) eqn:E; [exfalso|reflexivity].
    apply existsb_holder in E; [|exact KO]. destruct E as (t & th & Gt & Hs).
    destruct th as [r prog pc'|pc'|]; cbn in Hs; try discriminate.
    destruct (CB _ _ _ _ Gt) as [[_ ->]|[(_ & ? & ? & _ & ->)|[[_ F]|[[-> _]|[[_ F]|F]]]]]; cbn in Hs; try discriminate.
    - contradiction.
    - cbn in F. congruence.
    - congruence. }
  assert (CJ : forall t r prog pc', get_thread (w_threads w) t = Some (TClient r prog pc') ->
               thread_finished (State := State) (TClient r prog pc') = true \/ (pc' = PStopJoin /\ pool_idle w = false)).
  { intros t r prog pc' Gt.
    destruct (CB _ _ _ _ Gt) as [[-> ->]|[(-> & k & k0 & -> & ->)|[[_ F]|[F|[[F _]|F]]]]]; try congruence; auto; try contradiction.
    pose proof (WO _ _ Gt) as W. cbn in W. destruct W as (_ & _ & W). congruence. }
  intros t th Gt. destruct th as [r prog pc'|pc'|sid fin].
  - destruct (CJ _ _ _ _ Gt) as [F|[-> PI]]; [left; exact F|exfalso].
    unfold pool_idle in PI.
    apply (forallb_false_holder (fun th => negb (is_pool_thread th) || thread_finished th)) in PI; [|exact KO].
    destruct PI as (t2 & th2 & G2 & F2). apply orb_false_iff in F2. destruct F2 as [P2 U2].
    apply negb_false_iff in P2. destruct th2 as [r2 prog2 pc2|pc2|]; cbn in P2; try discriminate.
    + destruct r2 as [|k2]; [discriminate|].
      destruct (CJ _ _ _ _ G2) as [F|[-> _]]; [congruence|].
      pose proof (WO _ _ G2) as W. cbn in W. tauto.
    + assert (t2 = reducer_tid) by (eapply OR; eauto). subst t2. rewrite G in G2. injection G2 as <-.
      destruct RB as [->|(-> & _ & A)]; [discriminate U2|].
      pose proof (SC A _ _ Gt) as X. discriminate X.
  - assert (t = reducer_tid) by (eapply OR; eauto). subst t. rewrite G in Gt. injection Gt as <-.
    destruct RB as [->|(-> & QQ & A)]; [left; reflexivity|right; left; auto].
  - destruct (CH _ _ _ Gt) as [->|(c & GC & QC & A)]; [left; reflexivity|].
    destruct fin; [left; reflexivity|]. right. right. exists sid, c. auto.
Qed.

(* ---------- the invariants along every run ---------- *)
Definition full2 w : Prop :=
  inv_cf w /\ fresh_ok w /\ keys_ok w /\ inv_tidc w /\ inv_closer w /\ inv_aux w /\ close_state w /\
  inv_tids w /\ inv_bound cfg w /\ inv_tc (w_threads w) /\ inv_ne w /\ inv_k w /\ inv_q w /\
  inv_u w /\ inv_v w /\ inv_y w /\ inv_x w /\ threads_all cap_thread (w_threads w) /\ inv_hc w.

Theorem step_full2 w t w' : full2 w -> step w t = Some w' -> full2 w'.
Proof.
  intros (CF & FR & KO & TI & CL & AX & CS & TD & BD & TC & NE & K & Q & U & V & Y & X & CT & HC) H.
  unfold full2.
  split; [eapply step_cf; eauto|]. split; [eapply step_fresh; eauto|].
  split; [eapply step_keys; eauto|]. split; [eapply step_tidc; eauto|].
  split; [eapply step_closer2; eauto|]. split; [eapply step_aux; eauto|].
  split; [eapply step_close; eauto|]. split; [eapply step_tids; eauto|].
  split; [eapply step_bound; eauto|]. split; [eapply step_tc; eauto|].
  split; [eapply step_ne; eauto|]. split; [eapply step_k; eauto|].
  split; [eapply step_q; eauto|]. split; [eapply step_u; eauto|].
  split; [eapply step_v; eauto|]. split; [eapply step_y; eauto|].
  split; [eapply step_x; eauto|]. split; [eapply step_capt; eauto|eapply step_hc; eauto].
Qed.

Definition good_progs (progs : list (list call)) : Prop :=
  Forall (Forall cf_call) progs /\ Forall (Forall cap_call) progs /\ distinct_regs progs.

Lemma init_full2 reducers mws progs : (length progs <= 100)%nat -> good_progs progs ->
  full2 (init_world cfg reducers mws progs).
Proof.
  intros L (CFP & CPP & D).
  assert (SH : forall t th, get_thread (w_threads (init_world cfg reducers mws progs)) t = Some th ->
          (exists p, In p progs /\ th = TClient Client p PIdle /\ (t < 100)%N) \/ (t = reducer_tid /\ th = TReducer RRecv)).
  { intros t th G. unfold init_world in G. cbn [w_threads] in G.
    destruct (client_threads_shape _ _ _ _ G) as [(p & I & E)|E]; [left|right; exact E].
    exists p. split; [exact I|split; [exact E|]]. subst th.
    apply client_threads_get in G. destruct G as [G|[_ G]]; [lia|discriminate G]. }
  set (w0 := init_world cfg reducers mws progs) in *.
  assert (P1 : inv_cf w0).
  { split; [|reflexivity]. intros t th G. destruct (SH _ _ G) as [(p & I & -> & _)|[_ ->]]; cbn; auto.
    split; [|exact Logic.I]. rewrite Forall_forall in CFP. auto. }
  assert (P2 : fresh_ok w0) by exact (proj1 (init_eff cfg 0%N reducers mws progs L)).
  assert (P3 : keys_ok w0).
  { unfold keys_ok, w0, init_world. cbn [w_threads]. apply init_keys_nodup. unfold reducer_tid. lia. }
  assert (P4 : inv_tidc w0).
  { intros t th G. destruct (SH _ _ G) as [(p & I & -> & LT)|[-> ->]]; cbn; [left; exact LT|reflexivity]. }
  assert (P5 : inv_closer w0) by (intros O; discriminate O).
  assert (P6 : inv_aux w0).
  { split; [|split].
    + intros t th G. destruct (SH _ _ G) as [(p & I & -> & _)|[_ ->]]; cbn; auto.
    + intros t th G R. destruct (SH _ _ G) as [(p & I & -> & _)|[-> _]]; [discriminate R|reflexivity].
    + intros _ t th G. destruct (SH _ _ G) as [(p & I & -> & _)|[_ ->]]; reflexivity. }
  assert (P7 : close_state w0) by apply init_close.
  assert (P8 : inv_tids w0) by (apply init_tids; exact L).
  assert (P9 : inv_bound cfg w0) by apply init_bound.
  assert (P10 : inv_tc (w_threads w0)).
  { intros t sid f G. destruct (SH _ _ G) as [(p & I & E & _)|[_ E]]; discriminate E. }
  assert (P11 : inv_ne w0) by (intros sid c G; discriminate G).
  assert (P12 : inv_k w0).
  { intros a s cur rest n ph G. destruct (SH _ _ G) as [(p & I & E & _)|[_ E]]; discriminate E. }
  assert (P13 : inv_q w0).
  { intros sid G. destruct (SH _ _ G) as [(p & I & E & _)|[_ E]]; discriminate E. }
  assert (P14 : inv_u w0) by (apply init_uv; exact D).
  assert (P15 : inv_v w0) by (apply init_uv; exact D).
  assert (P16 : inv_y w0).
  { intros sid t th G J. destruct (SH _ _ G) as [(p & I & -> & _)|[_ ->]]; discriminate J. }
  assert (P17 : inv_x w0).
  { split.
    + intros sid I. destruct I.
    + intros t th G sid I. destruct (SH _ _ G) as [(p & _ & -> & _)|[_ ->]]; destruct I. }
  assert (P18 : threads_all cap_thread (w_threads w0)).
  { intros t th G. destruct (SH _ _ G) as [(p & I & -> & _)|[_ ->]]; cbn; auto.
    rewrite Forall_forall in CPP. auto. }
  assert (P19 : inv_hc w0).
  { split.
    + intros t sid f G. destruct (SH _ _ G) as [(p & I & E & _)|[_ E]]; discriminate E.
    + intros sid c G. discriminate G. }
  unfold full2. repeat (split; [assumption|]). assumption.
Qed.

Theorem reachable_full2 reducers mws progs w : (length progs <= 100)%nat -> good_progs progs ->
  reachable cfg reducers mws progs w -> full2 w.
Proof.
  intros L GP [sched H]. eapply (run_invariant cfg full2); [|apply init_full2; eauto|exact H].
  intros; eapply step_full2; eauto.
Qed.

(* C13 with channeled subscribers: the whole API except state iterators. Whatever the schedule, a
   reachable world in which no thread can take a step is one in which every call has returned and
   every effect task has ended; what remains are the reducer - gone, or idle on an open empty
   queue - and the threads of channeled subscribers, ended or idle on their open empty channels. *)
Theorem channels_deadlock_free reducers mws progs w : (length progs <= 100)%nat -> good_progs progs ->
  reachable cfg reducers mws progs w -> all_blocked cfg w -> quiescent2 w.
Proof.
  intros L GP R.
  pose proof (reachable_full2 _ _ _ _ L GP R) as (CF & _ & KO & TI & _ & AX & CS & TD & BD & _ & _ & K & Q & _ & _ & Y & X & _ & HC).
  apply blocked_is_quiescent2. unfold live2_inv. repeat (split; [assumption|]). assumption.
Qed.
End WorldLive2.
