(* WorldBlock.v — when exactly a step is disabled (the wait-for edges of the model; C13). *)
From RS Require Import Base Channel ChannelProofs Pipeline PipelineProofs Selector Script World WorldTactics Hist.

Section WorldBlock.
Context {State : Type}.
Variable cfg : wconfig (State := State).
Implicit Types w : World.world (State := State).

Lemma dq_start_enabled w x : dq_phase w x SStart <> None.
Proof.
  unfold dq_phase. cbn. destruct (pol (w_dq w)); [discriminate| |];
    destruct (try_send (w_dq w) x); discriminate.
Qed.

(* a dispatcher / closer parked before TX waits exactly for TX *)
Lemma dispatch_tx_blocked w t r prog e a :
  step_client w t r prog (PDispatchTx e a) = None <-> tx_free w = false.
Proof.
  unfold step_client. destruct (tx_free w); [|split; auto].
  split; [|discriminate]. destruct (w_tx_open w); [|discriminate].
  pose proof (dq_start_enabled w (IAct a)) as E.
  destruct (dq_phase w (IAct a) SStart) as [[w1 [ph|ok]]|]; try discriminate. contradiction.
Qed.
Lemma close_tx_blocked w t r prog stop :
  step_client w t r prog (PCloseTx stop) = None <-> tx_free w = false.
Proof.
  unfold step_client. destruct (tx_free w); [|split; auto].
  split; [|discriminate]. destruct (w_tx_open w); [|destruct stop; discriminate].
  pose proof (dq_start_enabled (set_tx_open w false) IExit) as E.
  destruct (dq_phase (set_tx_open w false) IExit SStart) as [[w1 [ph|ok]]|]; try discriminate. contradiction.
Qed.

(* a sender inside the blocking send waits exactly for room in the queue *)
Lemma sending_blocked w t r prog e a :
  step_client w t r prog (PSending e a SBlockWait) = None <-> cap (w_dq w) <= length (q (w_dq w)).
Proof.
  unfold step_client, dq_phase. cbn. unfold send_block, try_send, is_full.
  destruct (Nat.leb_spec (cap (w_dq w)) (length (q (w_dq w)))); split; intros; try discriminate; auto; lia.
Qed.

(* the reducer at recv waits exactly for an item or for the disconnection of the queue *)
Lemma reducer_recv_blocked w :
  step_reducer cfg w RRecv = None <-> q (w_dq w) = [] /\ tx_alive (w_dq w) = true.
Proof.
  unfold step_reducer, recv. destruct (q (w_dq w)) as [|[a|] l].
  - destruct (tx_alive (w_dq w)); split; intros H; try discriminate; auto. destruct H; discriminate.
  - split; [discriminate|intros [H _]; discriminate].
  - split; [discriminate|intros [H _]; discriminate].
Qed.

(* stop() inside the pool join waits exactly for the pool tasks *)
Lemma stop_join_blocked w t r prog :
  step_client w t r prog PStopJoin = None <-> pool_idle w = false.
Proof. unfold step_client. destruct (pool_idle w); split; intros; try discriminate; auto. Qed.

(* registration waits exactly for SUBS *)
Lemma subs_add_blocked w t r prog se :
  step_client w t r prog (PSubsAdd se) = None <-> subs_free w = false.
Proof. unfold step_client. destruct (subs_free w); split; intros; try discriminate; auto. Qed.

(* the reducer's snapshot and the shutdown release wait exactly for SUBS *)
Lemma snapshot_blocked w a s :
  step_reducer cfg w (RSnapshot a s) = None <-> subs_free w = false.
Proof. unfold step_reducer. destruct (subs_free w); split; intros; try discriminate; auto. Qed.
Lemma clear_blocked w :
  step_reducer cfg w RClearLock = None <-> subs_free w = false.
Proof. unfold step_reducer. destruct (subs_free w); split; intros; try discriminate; auto. Qed.

(* the joins of a channeled subscriber's thread wait exactly for that thread *)
Lemma unsub_join_blocked w t r prog sid :
  step_client w t r prog (PUnsubJoin sid) = None <-> chan_thread_finished w sid = false.
Proof. unfold step_client. destruct (chan_thread_finished w sid); split; intros; try discriminate; auto. Qed.

(* steps that never wait: reads, registrations of reducers/middlewares, the pool take, every
   phase of the reducer that only calls user code *)
Lemma never_blocked_client w t r c l : step_client w t r (c :: l) PCall <> None.
Proof. unfold step_client. destruct c; try discriminate; destruct (w_pool w); discriminate. Qed.
Lemma never_blocked_take w t r prog : step_client w t r prog PStopTake <> None.
Proof. unfold step_client. destruct (w_pool w); discriminate. Qed.
Lemma never_blocked_reducer_phases w a go s effs nd :
  step_reducer cfg w (RBeforeReduce a) <> None /\ step_reducer cfg w (RReduce a go) <> None /\
  step_reducer cfg w (RWrite a s effs nd) <> None /\ step_reducer cfg w (RBeforeEffect a s effs nd) <> None /\
  step_reducer cfg w (RSpawn a s effs nd) <> None /\ step_reducer cfg w (RBeforeDispatch a s) <> None.
Proof.
  unfold step_reducer. repeat split.
  - destruct (br_phase 0 (mws_of cfg w) a (w_state w) true) as [[? ?] ?]. discriminate.
  - destruct go; [|discriminate].
    destruct (run_reducers e_id 0 (reducers_of cfg w) (w_state w) a [] true) as [[[? ?] ?] ?]. discriminate.
  - discriminate.
  - destruct (be_phase e_id 0 (mws_of cfg w) a s effs) as [[[|? ?] ?] ?]; discriminate.
  - destruct effs as [|e [|e' rest]]; discriminate.
  - destruct (bd_phase 0 (mws_of cfg w) a s true) as [[[|] ?] ?]; discriminate.
Qed.

End WorldBlock.
