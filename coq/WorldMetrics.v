(* WorldMetrics.v — the event counters (C18): they never decrease and they count what the
   history says happened. *)
From RS Require Import Base Channel ChannelProofs Pipeline PipelineProofs Selector Script World WorldTactics Hist WorldProofs WorldInv WorldQueue WorldStop.

Section WorldMetrics.
Context {State : Type}.
Variable cfg : wconfig (State := State).
Notation world := (world (State := State)).
Notation step := (step cfg).
Notation event := (event (State := State)).
Implicit Types w : World.world (State := State).
Implicit Types h : list event.

(* ---------- what each counter counts, as a function of the history ---------- *)
Definition c_received (e : event) : N := match e with EDeq _ => 1 | _ => 0 end.
Definition c_dropped (e : event) : N :=
  match e with EDrop _ | EReject _ | ESubDrop _ => 1 | _ => 0 end.
Definition c_reduced (e : event) : N := match e with EReduced _ => 1 | _ => 0 end.
Definition c_mw (e : event) : N :=
  match e with
  | ECb XReducer (CbBeforeReduce _ _ _ _) | ECb XReducer (CbBeforeEffect _ _ _ _ _ _)
  | ECb XReducer (CbBeforeDispatch _ _ _ _) => 1
  | _ => 0
  end.
Definition c_errors (e : event) : N :=
  match e with
  | ERet _ (CDispatch EStoreImpl _) RErr | ERet _ (CDispatch EStoreTrait _) RErr => 1
  | _ => 0
  end.

Fixpoint total (f : event -> N) h : N :=
  match h with [] => 0 | e :: r => f e + total f r end.

Lemma total_app f h1 h2 : total f (h1 ++ h2) = (total f h1 + total f h2)%N.
Proof. induction h1 as [|e r IH]; cbn; [reflexivity|]. rewrite IH. lia. Qed.
Lemma total_rev f h : total f (rev h) = total f h.
Proof. induction h as [|e r IH]; cbn; [reflexivity|]. rewrite total_app, IH. cbn. lia. Qed.


(* ---------- a thread inside a dispatch has that dispatch at the head of its program ---------- *)
Definition disp_ok (th : thread (State := State)) : Prop :=
  match th with
  | TClient _ prog (PDispatchTx e a) | TClient _ prog (PSending e a _) =>
      exists l, prog = CDispatch e a :: l
  | _ => True
  end.

(* ---------- hooks executed = hook events ---------- *)
Lemma total_map_cb f x (l : list (cb State aid)) :
  total f (rev (map (ECb x) l)) = total f (map (ECb x) l).
Proof. apply total_rev. Qed.

Lemma err_ev_mw i hk v : total c_mw (map (ECb (State := State) XReducer) (err_ev i hk v)) = 0%N.
Proof. destruct v; reflexivity. Qed.

Lemma br_events_count : forall vs i (a : aid) (s : State),
  total c_mw (map (ECb XReducer) (br_events i a s vs)) = N.of_nat (length vs).
Proof.
  induction vs as [|v r IH]; intros i a s; [reflexivity|].
  cbn [br_events length]. rewrite map_app, total_app, IH, Nat2N.inj_succ.
  destruct v; cbn [map total c_mw err_ev app]; lia.
Qed.
Lemma bd_events_count : forall vs i (a : aid) (s : State),
  total c_mw (map (ECb XReducer) (bd_events i a s vs)) = N.of_nat (length vs).
Proof.
  induction vs as [|v r IH]; intros i a s; [reflexivity|].
  cbn [bd_events length]. rewrite map_app, total_app, IH, Nat2N.inj_succ.
  destruct v; cbn [map total c_mw err_ev app]; lia.
Qed.
Lemma be_events_count : forall (tr : list (list eff * list eff * verdict)) i (a : aid) (s : State),
  total c_mw (map (ECb XReducer) (be_events e_id i a s tr)) = N.of_nat (length tr).
Proof.
  induction tr as [|[[ein eout] v] r IH]; intros i a s; [reflexivity|].
  cbn [be_events length]. rewrite map_app, total_app, IH, Nat2N.inj_succ.
  destruct v; cbn [map total c_mw err_ev app]; lia.
Qed.

Lemma br_phase_count (mws : list (middleware State aid eff)) i a s flag f n evs :
  br_phase i mws a s flag = (f, n, evs) -> total c_mw (map (ECb XReducer) evs) = N.of_nat n.
Proof. rewrite br_phase_spec. cbn zeta. intros H; inversion H; subst. apply br_events_count. Qed.
Lemma bd_phase_count (mws : list (middleware State aid eff)) i a s flag f n evs :
  bd_phase i mws a s flag = (f, n, evs) -> total c_mw (map (ECb XReducer) evs) = N.of_nat n.
Proof. rewrite bd_phase_spec. cbn zeta. intros H; inversion H; subst. apply bd_events_count. Qed.
Lemma be_phase_count (mws : list (middleware State aid eff)) i a s effs effs' n evs :
  be_phase e_id i mws a s effs = (effs', n, evs) -> total c_mw (map (ECb XReducer) evs) = N.of_nat n.
Proof. rewrite be_phase_spec. cbn zeta. intros H; inversion H; subst. apply be_events_count. Qed.

Lemma reducers_no_mw (rs : list (reducer State aid eff)) j s a effs nd s' effs' nd' evs :
  run_reducers e_id j rs s a effs nd = (s', effs', nd', evs) ->
  total c_mw (map (ECb XReducer) evs) = 0%N.
Proof.
  rewrite run_reducers_spec. cbn zeta. intros H; inversion H; subst. clear H.
  induction (chain_calls j rs s a) as [|[[j0 s0] d] l IH]; [reflexivity|]. cbn. exact IH.
Qed.


Definition counters_ok w : Prop :=
  let m := w_metrics w in let h := w_hist w in
  m_received m = total c_received h /\ m_dropped m = total c_dropped h /\
  m_reduced m = total c_reduced h /\ m_mw m = total c_mw h /\ m_errors m = total c_errors h.

Definition inv_metrics w : Prop := threads_all disp_ok (w_threads w) /\ counters_ok w.

Lemma total_dq_events (f : event -> N) (d : N) x sr dr :
  (forall a, f (EDrop a) = d) -> (forall a, f (EReject a) = d) ->
  (forall a, f (EEnq a) = 0%N) -> f EEnqExit = 0%N ->
  total f (rev (dq_events (State := State) x sr dr)) = (N.of_nat (length dr) * d)%N.
Proof.
  intros DD DR EE EX. rewrite total_rev. unfold dq_events. rewrite total_app.
  assert (M : forall g : aid -> event, (forall a, f (g a) = d) ->
              total f (map g dr) = (N.of_nat (length dr) * d)%N).
  { intros g Hg. induction dr as [|d0 r IH]; [reflexivity|]. cbn [map total length].
    rewrite Nat2N.inj_succ, IH, Hg. lia. }
  assert (T : total f (match sr, x with SDone true, IAct a => [EEnq a] | SDone true, IExit => [EEnqExit] | _, _ => [] end) = 0%N).
  { destruct sr as [?|[|]]; [reflexivity|destruct x; cbn; rewrite ?EX, ?EE; reflexivity|reflexivity]. }
  rewrite T, N.add_0_r. destruct sr as [?|[|]]; apply M; assumption.
Qed.

Lemma dq_phase_counters w x ph w1 sr : dq_phase w x ph = Some (w1, sr) -> counters_ok w -> counters_ok w1.
Proof.
  unfold dq_phase. destruct (send_phase (w_dq w) x ph) as [[[dq' sr'] dr]|]; [|discriminate].
  intros H; injection H as <- <-. intros (R & D & RD & M & E).
  unfold counters_ok, emits, upd_metrics, set_dq, set_hist, set_metrics, m_add_dropped.
  cbn [w_metrics w_hist m_received m_dropped m_reduced m_mw m_errors].
  rewrite !total_app.
  rewrite (total_dq_events c_received 0), (total_dq_events c_dropped 1), (total_dq_events c_reduced 0),
          (total_dq_events c_mw 0), (total_dq_events c_errors 0) by reflexivity.
  repeat split; lia.
Qed.

Lemma total_sub_events (f : event -> N) sid x sr (dr : list (State * aid)) :
  (forall s a, f (ESubSend s a) = 0%N) ->
  total f (rev (sub_events (State := State) sid x sr dr)) = (N.of_nat (length dr) * f (ESubDrop sid))%N.
Proof.
  intros SS. rewrite total_rev. unfold sub_events. rewrite total_app.
  assert (M : total f (map (fun _ : State * aid => ESubDrop (State := State) sid) dr) = (N.of_nat (length dr) * f (ESubDrop sid))%N).
  { induction dr as [|d r IH]; [reflexivity|]. cbn [map total length]. rewrite Nat2N.inj_succ, IH. lia. }
  rewrite M. destruct sr as [?|[|]]; [|destruct x as [[s0 a0]|]|]; cbn; rewrite ?SS; lia.
Qed.

Lemma sub_phase_counters w sid x ph w1 sr : sub_phase w sid x ph = Some (w1, sr) -> counters_ok w -> counters_ok w1.
Proof.
  unfold sub_phase. destruct (get_chan (w_chans w) sid) as [c|]; [|intros H; injection H as <- <-; auto].
  destruct (send_phase c x ph) as [[[c' sr'] dr]|]; [|discriminate].
  intros H; injection H as <- <-. intros (R & D & RD & M & E).
  unfold counters_ok, emits, upd_metrics, set_chan, set_chans, set_hist, set_metrics, m_add_dropped.
  cbn [w_metrics w_hist m_received m_dropped m_reduced m_mw m_errors].
  rewrite !total_app.
  rewrite (total_sub_events c_received), (total_sub_events c_dropped), (total_sub_events c_reduced),
          (total_sub_events c_mw), (total_sub_events c_errors) by reflexivity.
  cbn [c_received c_dropped c_reduced c_mw c_errors]. repeat split; lia.
Qed.


Lemma total_cb_zero (f : event -> N) x (l : list (cb State aid)) :
  (forall c, f (ECb x c) = 0%N) -> total f (map (ECb x) l) = 0%N.
Proof. intros H. induction l as [|c r IH]; [reflexivity|]. cbn. now rewrite H, IH. Qed.

Ltac m_phases :=
  repeat match goal with
  | HH : dq_phase ?w0 _ _ = Some (?w1, _), C0 : counters_ok _ |- _ =>
      let J := fresh "J" in assert (J : counters_ok w1) by (eapply dq_phase_counters; [exact HH|exact C0]);
      clear C0
  | HH : sub_phase ?w0 _ _ _ = Some (?w1, _), C0 : counters_ok _ |- _ =>
      let J := fresh "J" in assert (J : counters_ok w1) by (eapply sub_phase_counters; [exact HH|exact C0]);
      clear C0
  end.

Ltac simp_counters :=
  unfold counters_ok in *; simp_world; unfold cb_events;
  cbn [m_received m_dropped m_reduced m_mw m_errors m_add_received m_add_dropped m_add_reduced
       m_add_issued m_add_executed m_add_mw m_add_state_notified m_add_sub_notified m_add_errors];
  repeat (progress (rewrite ?total_app, ?total_rev;
                    cbn [total c_received c_dropped c_reduced c_mw c_errors])).

Theorem step_metrics w t w' : inv_metrics w -> step w t = Some w' -> inv_metrics w'.
Proof.
  intros [T C] H. step_cases H; use_frames; m_phases.
  (* inside a dispatch the head of the program is that dispatch *)
  all: try (match goal with
            | G : get_thread (w_threads _) _ = Some (TClient _ _ (PDispatchTx _ _)) |- _ =>
                let F := fresh in pose proof (T _ _ G) as F; cbn in F; destruct F as [? F]; inversion F; subst
            | G : get_thread (w_threads _) _ = Some (TClient _ _ (PSending _ _ _)) |- _ =>
                let F := fresh in pose proof (T _ _ G) as F; cbn in F; destruct F as [? F]; inversion F; subst
            end).
  all: split; [solve_threads_all T|].
  all: repeat match goal with
       | HP : br_phase _ _ _ _ _ = (_, _, _) |- _ => apply br_phase_count in HP
       | HP : bd_phase _ _ _ _ _ = (_, _, _) |- _ => apply bd_phase_count in HP
       | HP : be_phase _ _ _ _ _ _ = (_, _, _) |- _ => apply be_phase_count in HP
       | HP : run_reducers _ _ _ _ _ _ _ = (_, _, _, _) |- _ => apply reducers_no_mw in HP
       end.
  all: try (match goal with J : counters_ok _ |- _ => destruct J as (R & D & RD & M & E) end;
            simp_counters;
            rewrite ?(total_cb_zero c_received), ?(total_cb_zero c_dropped), ?(total_cb_zero c_reduced),
                    ?(total_cb_zero c_errors) by reflexivity;
            unfold dispatch_result; repeat (break_goal_match; cbn [total c_errors]);
            repeat split; lia).
Qed.

Lemma init_metrics reducers mws progs : inv_metrics (init_world cfg reducers mws progs).
Proof.
  split; [|repeat split].
  intros t th G. unfold init_world in G. cbn in G.
  assert (A : forall l i, get_thread (client_threads (State := State) i l ++ [(reducer_tid, TReducer RRecv)]) t = Some th ->
              disp_ok th).
  { induction l as [|p r IH]; intros i; cbn.
    - destruct (N.eqb t reducer_tid); [|discriminate]. intros E; injection E as <-. exact I.
    - destruct (N.eqb t i); [intros E; injection E as <-; exact I|apply IH]. }
  eapply A; eauto.
Qed.

Theorem reachable_metrics reducers mws progs w :
  reachable cfg reducers mws progs w -> inv_metrics w.
Proof.
  intros [sched H]. eapply (run_invariant cfg inv_metrics); [|apply init_metrics|exact H].
  intros; eapply step_metrics; eauto.
Qed.

(* counters never decrease *)
Definition m_le (m m' : metrics) : Prop :=
  (m_received m <= m_received m')%N /\ (m_dropped m <= m_dropped m')%N /\ (m_reduced m <= m_reduced m')%N /\
  (m_issued m <= m_issued m')%N /\ (m_executed m <= m_executed m')%N /\ (m_mw m <= m_mw m')%N /\
  (m_state_notified m <= m_state_notified m')%N /\ (m_sub_notified m <= m_sub_notified m')%N /\
  (m_errors m <= m_errors m')%N.

Lemma m_le_refl m : m_le m m.
Proof. unfold m_le. repeat split; lia. Qed.

Lemma dq_phase_mle w x ph w1 sr : dq_phase w x ph = Some (w1, sr) -> m_le (w_metrics w) (w_metrics w1).
Proof.
  unfold dq_phase. destruct (send_phase (w_dq w) x ph) as [[[dq' sr'] dr]|]; [|discriminate].
  intros H; injection H as <- <-. unfold m_le; cbn. repeat split; lia.
Qed.
Lemma sub_phase_mle w sid x ph w1 sr : sub_phase w sid x ph = Some (w1, sr) -> m_le (w_metrics w) (w_metrics w1).
Proof.
  unfold sub_phase. destruct (get_chan (w_chans w) sid) as [c|]; [|intros H; injection H as <- <-; apply m_le_refl].
  destruct (send_phase c x ph) as [[[c' sr'] dr]|]; [|discriminate].
  intros H; injection H as <- <-. unfold m_le; cbn. repeat split; lia.
Qed.

Theorem step_monotone w t w' : step w t = Some w' -> m_le (w_metrics w) (w_metrics w').
Proof.
  intros H. step_cases H.
  all: repeat match goal with
       | HH : dq_phase _ _ _ = Some (_, _) |- _ => apply dq_phase_mle in HH
       | HH : sub_phase _ _ _ _ = Some (_, _) |- _ => apply sub_phase_mle in HH
       end.
  all: unfold m_le in *; simp_world; cbn [w_metrics set_tx_open set_subs] in *;
       cbn [m_received m_dropped m_reduced m_issued m_executed m_mw m_state_notified m_sub_notified m_errors
            m_add_received m_add_dropped m_add_reduced m_add_issued m_add_executed m_add_mw
            m_add_state_notified m_add_sub_notified m_add_errors];
       repeat split; lia.
Qed.


(* ---------- the balance at quiescence ---------- *)
Definition c_exit (e : event) : N := match e with EDeq IExit => 1 | _ => 0 end.
Definition c_subdrop (e : event) : N := match e with ESubDrop _ => 1 | _ => 0 end.

Lemma received_split h : total c_received h = (N.of_nat (length (deqs h)) + total c_exit h)%N.
Proof.
  induction h as [|e r IH]; [reflexivity|]. unfold deqs in *. cbn [total flat_map]. rewrite app_length, IH.
  rewrite Nat2N.inj_add.
  destruct e; cbn [ev_deq c_received c_exit length]; try lia. destruct i; cbn [length]; lia.
Qed.
Lemma dropped_split h :
  total c_dropped h = (N.of_nat (length (drops h)) + N.of_nat (length (rejects h)) + total c_subdrop h)%N.
Proof.
  induction h as [|e r IH]; [reflexivity|]. unfold drops, rejects in *. cbn [total flat_map].
  rewrite !app_length, IH, !Nat2N.inj_add. destruct e; cbn [ev_drop ev_reject c_dropped c_subdrop length]; lia.
Qed.

(* when the queue is empty (in particular once the reducer has left its loop): actions received
   by the reducer (not counting the marker) plus actions dropped (not counting those of
   subscription channels) = actions that entered the queue or were rejected by DropLatest *)
Theorem metrics_balance reducers mws progs w : reachable cfg reducers mws progs w ->
  q (w_dq w) = [] ->
  (m_received (w_metrics w) + m_dropped (w_metrics w) =
   N.of_nat (length (enqs (w_hist w)) + length (rejects (w_hist w))) +
   total c_exit (w_hist w) + total c_subdrop (w_hist w))%N.
Proof.
  intros R Q. destruct (reachable_metrics reducers mws progs w R) as [_ (RC & DR & _)].
  destruct (reachable_queue cfg reducers mws progs w R) as [_ (_ & PERM & _)].
  rewrite Q in PERM. cbn in PERM. apply Permutation.Permutation_length in PERM. rewrite app_length in PERM.
  rewrite RC, DR, received_split, dropped_split, Nat2N.inj_add, PERM, Nat2N.inj_add. lia.
Qed.

End WorldMetrics.

