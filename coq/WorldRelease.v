(* WorldRelease.v — direct subscribers are released exactly once (C09). For programs whose
   registration calls carry pairwise distinct identifiers: the on_unsubscribe calls received so far
   by the direct subscriber sid, plus 1 if it is still registered (still to be released by the
   shutdown in progress), equal the number of add_subscriber(sid) calls that have returned. *)
From RS Require Import Base Channel ChannelProofs Pipeline PipelineProofs Selector Script World WorldTactics Hist WorldProofs WorldInv WorldQueue WorldStop WorldMetrics WorldEffects WorldLive WorldSids.

Section WorldRelease.
Context {State : Type}.
Variable cfg : wconfig (State := State).
Notation world := (world (State := State)).
Notation step := (step cfg).
Notation event := (event (State := State)).
Notation thread := (thread (State := State)).
Implicit Types w : World.world (State := State).
Implicit Types h : list event.

Definition is_direct (x : subentry) : bool := match se_kind x with SKDirect => true | _ => false end.
Definition dcount (sid : N) (l : list subentry) : nat := cnt sid (ids (filter is_direct l)).

(* releases of a direct subscriber: in the caller's context (unsubscribe) or the reducer's (shutdown) *)
Definition c_rel (sid : N) (e : event) : nat :=
  match e with
  | ECb (XThread _) (CbOnUnsub s) | ECb XReducer (CbOnUnsub s) => if N.eq_dec s sid then 1 else 0
  | _ => 0
  end.
(* add_subscriber(sid) calls that have returned *)
Definition c_ret (sid : N) (e : event) : nat :=
  match e with ERet _ (CAddSubscriber s) _ => if N.eq_dec s sid then 1 else 0 | _ => 0 end.
Fixpoint tot (f : event -> nat) h : nat := match h with [] => 0 | e :: r => f e + tot f r end.
Lemma tot_app f h1 h2 : tot f (h1 ++ h2) = tot f h1 + tot f h2.
Proof. induction h1 as [|e r IH]; cbn; [reflexivity|]. rewrite IH. lia. Qed.
Lemma tot_rev f h : tot f (rev h) = tot f h.
Proof. induction h as [|e r IH]; cbn; [reflexivity|]. rewrite tot_app, IH. cbn. lia. Qed.
Lemma tot_zero f h : (forall e, In e h -> f e = 0) -> tot f h = 0.
Proof. induction h as [|e r IH]; cbn; [reflexivity|]. intros Z. rewrite (Z e), IH; auto. Qed.

(* direct entries still to be released: the registry, or what is left of it during the shutdown *)
Definition live (sid : N) (subs : list subentry) (pc : rpc (State := State)) : nat :=
  match pc with
  | RClear rest | RClearCtx _ rest | RClearJoin _ rest | RClearIterSend _ rest _ => dcount sid rest
  | _ => dcount sid subs
  end.

(* a thread inside a registration has that registration at the head of its program *)
Definition add_ok (th : thread) : Prop :=
  match th with
  | TClient _ prog (PSubsAdd se) =>
      match prog with
      | c :: _ => (is_direct se = true /\ c = CAddSubscriber (se_id se)) \/
                  (is_direct se = false /\ forall s, c <> CAddSubscriber s)
      | [] => False
      end
  | _ => True
  end.

Theorem step_add_ok w t w' : threads_all add_ok (w_threads w) -> step w t = Some w' ->
  threads_all add_ok (w_threads w').
Proof.
  intros T H. step_cases H; use_frames.
  all: solve_threads_all T; cbn [add_ok is_direct se_kind se_id]; auto.
  all: try (right; split; [reflexivity|intros; discriminate]).
Qed.

(* a thread whose current call is add_subscriber(s) is about to invoke it or is registering s *)
Definition head_ok (th : thread) : Prop :=
  match th with
  | TClient _ (CAddSubscriber s :: _) pc =>
      pc = PIdle \/ (exists k v, pc = PTaskStart k v) \/ pc = PSubsAdd (mkSub s SKDirect)
  | _ => True
  end.

Lemma head_body b : match calls_of_body b with CAddSubscriber _ :: _ => False | _ => True end.
Proof. induction b as [|[e a| |] r IH]; cbn; auto. Qed.

Theorem step_head_ok w t w' : threads_all head_ok (w_threads w) -> step w t = Some w' ->
  threads_all head_ok (w_threads w').
Proof.
  intros T H. step_cases H; use_frames.
  all: match goal with G : get_thread (w_threads _) _ = Some ?th |- _ =>
         let F := fresh "HO" in pose proof (T _ _ G) as F; cbn [head_ok] in F end.
  all: solve_threads_all T; cbn [head_ok]; auto.
  all: try (match goal with |- match ?l with _ => _ end =>
              first [ (destruct l as [|[] ?]; auto; eauto 6; fail)
                    | (pose proof (head_body body) as HB; destruct (calls_of_body body) as [|[] ?]; auto; eauto 6; contradiction) ] end).
  all: try (match goal with HO : match ?p with _ => _ end |- match ?p with _ => _ end =>
              destruct p as [|[] ?]; auto;
              destruct HO as [HO|[(? & ? & HO)|HO]]; discriminate HO end).
Qed.

(* ---------- counting direct entries ---------- *)
Definition dweight (sid : N) (x : subentry) : nat :=
  if is_direct x then (if N.eq_dec (se_id x) sid then 1 else 0) else 0.
Lemma dcount_cons sid x l : dcount sid (x :: l) = dweight sid x + dcount sid l.
Proof.
  unfold dcount, dweight. cbn [filter]. destruct (is_direct x); [|reflexivity].
  cbn [ids map]. now rewrite cnt_cons.
Qed.
Lemma dcount_app sid l x : dcount sid (l ++ [x]) = dcount sid l + dweight sid x.
Proof. induction l as [|y r IH]; cbn [app]; rewrite ?dcount_cons; [unfold dcount; cbn; lia|]. rewrite IH. lia. Qed.
Lemma remove_absent l s : ~ In s (ids l) -> remove_sub l s = l.
Proof.
  unfold remove_sub, ids. induction l as [|x r IH]; cbn; [reflexivity|]. intros N.
  destruct (N.eqb_spec (se_id x) s) as [E|E]; [exfalso; apply N; now left|]. cbn. rewrite IH; auto.
Qed.
Lemma dcount_remove l s se z : NoDup (ids l) -> find_sub l s = Some se ->
  dcount z (remove_sub l s) + dweight z se = dcount z l /\ se_id se = s.
Proof.
  induction l as [|x r IH]; cbn [find_sub]; [discriminate|]. intros ND F. cbn [ids map] in ND. inversion ND as [|? ? NI ND']; subst.
  unfold remove_sub. cbn [filter]. destruct (N.eqb_spec (se_id x) s) as [E|E].
  - injection F as <-. cbn [negb]. fold (remove_sub r s). rewrite remove_absent by (rewrite <- E; exact NI).
    rewrite dcount_cons. split; [lia|exact E].
  - cbn [negb]. fold (remove_sub r s). rewrite !dcount_cons. destruct (IH ND' F) as [A B]. split; [lia|exact B].
Qed.

(* ---------- the invariant ---------- *)
Definition inv_r w : Prop :=
  forall sid pc, get_thread (w_threads w) reducer_tid = Some (TReducer pc) ->
    tot (c_rel sid) (w_hist w) + live sid (w_subs w) pc = tot (c_ret sid) (w_hist w).

Definition no_unsub_cb (l : list (cb State aid)) : Prop := forall c, In c l -> forall s, c <> CbOnUnsub s.
Lemma tot_cb_rel sid x (l : list (cb State aid)) : no_unsub_cb l -> tot (c_rel sid) (rev (map (ECb x) l)) = 0.
Proof.
  intros NU. apply tot_zero. intros e I. apply in_rev in I. apply in_map_iff in I. destruct I as (c & <- & I).
  destruct x; cbn; auto; destruct c; auto; exfalso; eapply NU; eauto.
Qed.
Lemma tot_cb_ret sid x (l : list (cb State aid)) : tot (c_ret sid) (rev (map (ECb x) l)) = 0.
Proof. apply tot_zero. intros e I. apply in_rev in I. apply in_map_iff in I. destruct I as (c & <- & I). reflexivity. Qed.

Lemma br_no_unsub (mws : list (middleware State aid eff)) i a s flag f n evs :
  br_phase i mws a s flag = (f, n, evs) -> no_unsub_cb evs.
Proof.
  rewrite br_phase_spec. cbn zeta. intros H; inversion H; subst. intros c I s0 ->.
  apply br_events_args in I. destruct I as [(? & ? & I)|(? & I)]; discriminate I.
Qed.
Lemma bd_no_unsub (mws : list (middleware State aid eff)) i a s flag f n evs :
  bd_phase i mws a s flag = (f, n, evs) -> no_unsub_cb evs.
Proof.
  rewrite bd_phase_spec. cbn zeta. intros H; inversion H; subst. intros c I s0 ->.
  apply bd_events_args in I. destruct I as [(? & ? & I)|(? & I)]; discriminate I.
Qed.
Lemma be_no_unsub (mws : list (middleware State aid eff)) i a s effs effs' n evs :
  be_phase e_id i mws a s effs = (effs', n, evs) -> no_unsub_cb evs.
Proof.
  rewrite be_phase_spec. cbn zeta. intros H; inversion H; subst. intros c I s0 ->.
  apply be_events_args in I. destruct I as [(? & ? & ? & ? & I)|(? & I)]; discriminate I.
Qed.
Lemma reducers_no_unsub (rs : list (reducer State aid eff)) j s a effs nd s' effs' nd' evs :
  run_reducers e_id j rs s a effs nd = (s', effs', nd', evs) -> no_unsub_cb evs.
Proof.
  rewrite run_reducers_spec. cbn zeta. intros H; inversion H; subst. intros c I s0 ->.
  apply in_map_iff in I. destruct I as ([[? ?] ?] & I & _). discriminate I.
Qed.

Lemma dq_phase_rel w x ph w1 sr sid : dq_phase w x ph = Some (w1, sr) ->
  tot (c_rel sid) (w_hist w1) = tot (c_rel sid) (w_hist w) /\ tot (c_ret sid) (w_hist w1) = tot (c_ret sid) (w_hist w).
Proof.
  unfold dq_phase. destruct (send_phase (w_dq w) x ph) as [[[dq' sr'] dr]|]; [|discriminate].
  intros H; injection H as <- <-. simp_world. rewrite !tot_app.
  assert (Z : forall f, (forall a, f (EDrop a) = 0) -> (forall a, f (EReject a) = 0) -> (forall a, f (EEnq a) = 0) ->
              f EEnqExit = 0 -> tot f (rev (dq_events (State := State) x sr' dr)) = 0).
  { intros f A B C D. apply tot_zero. intros e I. apply in_rev in I. unfold dq_events in I. apply in_app_or in I.
    destruct I as [I|I].
    - apply in_map_iff in I. destruct I as (? & <- & _). destruct sr' as [?|[|]]; auto.
    - destruct sr' as [?|[|]]; try destruct x; cbn in I; try contradiction; destruct I as [<-|[]]; auto. }
  rewrite !Z by reflexivity. auto.
Qed.
Lemma sub_phase_rel w s x ph w1 sr sid : sub_phase w s x ph = Some (w1, sr) ->
  tot (c_rel sid) (w_hist w1) = tot (c_rel sid) (w_hist w) /\ tot (c_ret sid) (w_hist w1) = tot (c_ret sid) (w_hist w).
Proof.
  unfold sub_phase. destruct (get_chan (w_chans w) s) as [c|]; [|intros H; injection H as <- <-; auto].
  destruct (send_phase c x ph) as [[[c' sr'] dr]|]; [|discriminate].
  intros H; injection H as <- <-. simp_world. rewrite !tot_app.
  assert (Z : forall f, (forall a, f (ESubDrop a) = 0) -> (forall a b, f (ESubSend a b) = 0) ->
              tot f (rev (sub_events (State := State) s x sr' dr)) = 0).
  { intros f A B. apply tot_zero. intros e I. apply in_rev in I. unfold sub_events in I. apply in_app_or in I.
    destruct I as [I|I].
    - apply in_map_iff in I. destruct I as (? & <- & _). auto.
    - destruct sr' as [?|[|]]; try destruct x as [[? ?]|]; cbn in I; try contradiction; destruct I as [<-|[]]; auto. }
  rewrite !Z by reflexivity. auto.
Qed.

Lemma live_free w pc z subs : subs_free w = true -> get_thread (w_threads w) reducer_tid = Some (TReducer pc) ->
  live z subs pc = dcount z subs.
Proof.
  unfold subs_free. intros F G. apply negb_true_iff in F.
  pose proof (existsb_get holds_subs _ _ _ F G) as X. destruct pc; cbn in X; try discriminate; reflexivity.
Qed.

Ltac simp_tot :=
  simp_world; unfold cb_events; cbn [w_hist w_subs set_tx_open set_subs];
  repeat (progress (rewrite ?tot_app; cbn [tot]));
  repeat match goal with
  | Q : no_unsub_cb ?l |- context [tot (c_rel ?z) (rev (map (ECb ?x) ?l))] => rewrite (tot_cb_rel z x l Q)
  | |- context [tot (c_ret ?z) (rev (map (ECb ?x) ?l))] => rewrite (tot_cb_ret z x l)
  end.

Theorem step_r w t w' : threads_all add_ok (w_threads w) -> threads_all head_ok (w_threads w) ->
  NoDup (ids (w_subs w)) -> inv_r w -> step w t = Some w' -> inv_r w'.
Proof.
  intros AO HO ND I H. step_cases H; use_frames.
  all: try (match goal with HB : (_ =? reducer_tid)%N = true |- _ => apply N.eqb_eq in HB; subst end).
  all: repeat match goal with
       | HP : br_phase _ _ _ _ _ = (_, _, _) |- _ => apply br_no_unsub in HP
       | HP : bd_phase _ _ _ _ _ = (_, _, _) |- _ => apply bd_no_unsub in HP
       | HP : be_phase _ _ _ _ _ _ = (_, _, _) |- _ => apply be_no_unsub in HP
       | HP : run_reducers _ _ _ _ _ _ _ = (_, _, _, _) |- _ => apply reducers_no_unsub in HP
       end.
  all: unfold inv_r in *; intros zz pc' G'.
  all: repeat match goal with
       | HH : dq_phase _ _ _ = Some (_, _) |- context [c_rel ?z] => apply (dq_phase_rel _ _ _ _ _ z) in HH; destruct HH as [? ?]
       | HH : sub_phase _ _ _ _ = Some (_, _) |- context [c_rel ?z] => apply (sub_phase_rel _ _ _ _ _ _ z) in HH; destruct HH as [? ?]
       end.
  all: revert G'; rew_frames; intros G'.
  (* facts about the stepping thread *)
  all: match goal with G : get_thread (w_threads _) _ = Some ?th |- _ =>
         let F1 := fresh "AOK" in let F2 := fresh "HOK" in
         pose proof (AO _ _ G) as F1; pose proof (HO _ _ G) as F2; cbn [add_ok head_ok] in F1, F2 end.
  (* steps of other threads *)
  all: try (assert (GR : get_thread (w_threads w) reducer_tid = Some (TReducer pc')) by
        (repeat match type of G' with
           | get_thread (put_thread _ ?t' _) reducer_tid = _ =>
               let EQ := fresh "EQ" in
               destruct (N.eq_dec reducer_tid t') as [EQ|EQ];
               [ rewrite <- EQ in G'; rewrite get_put_same in G'; discriminate G'
               | rewrite get_put_other in G' by exact EQ ]
           end; exact G');
        match goal with |- context [c_rel ?z] => specialize (I z _ GR) end).
  all: try (match goal with G : get_thread (w_threads _) reducer_tid = Some (TReducer _) |- context [c_rel ?z] =>
              specialize (I z _ G) end;
            rewrite get_put_same in G'; injection G' as <-).
  all: simp_tot.
  all: repeat match goal with
       | E : tot (c_rel _) (w_hist ?x) = _ |- context [tot (c_rel _) (w_hist ?x)] => rewrite E
       | E : tot (c_ret _) (w_hist ?x) = _ |- context [tot (c_ret _) (w_hist ?x)] => rewrite E
       end.
  all: cbn [c_rel c_ret live] in *; simp_world; cbn [w_subs set_tx_open set_subs] in *.
  all: try lia.
  all: try (destruct HOK as [HOK|[(? & ? & HOK)|HOK]]; discriminate HOK).
  all: try (match goal with |- context [match ?c with CAddSubscriber _ => _ | _ => _ end] =>
              destruct c; try lia; destruct HOK as [HOK|[(? & ? & HOK)|HOK]]; discriminate HOK end).
  (* registry updates happen under the subscribers lock, which a reducer in its shutdown release holds *)
  all: try (match goal with F : subs_free _ = true, GR : get_thread _ reducer_tid = Some (TReducer _) |- _ =>
              rewrite !(live_free _ _ _ _ F GR) in * end).
  all: try (rewrite dcount_app; unfold dweight;
            destruct AOK as [[D ->]|[D NA]]; rewrite D; [lia|destruct c; try lia; exfalso; eapply NA; reflexivity]).
  all: try (match goal with F : find_sub (w_subs _) ?s = Some ?se |- context [c_rel ?z] =>
              destruct (dcount_remove _ _ _ z ND F) as [DR DS]; unfold dweight, is_direct in DR;
              repeat match goal with K : se_kind se = _ |- _ => rewrite K in DR end; rewrite ?DS in DR; lia end).
  all: repeat match goal with E : w_subs _ = _ |- _ => rewrite E in I end.
  all: rewrite ?dcount_cons in *; unfold dweight, is_direct in *;
       repeat match goal with K : se_kind _ = _ |- _ => rewrite K in * end.
  all: try lia.
Qed.

(* ---------- returned add_subscriber calls were invoked ---------- *)
Definition c_inv (sid : N) (e : event) : nat :=
  match e with EInv _ (CAddSubscriber s) => if N.eq_dec s sid then 1 else 0 | _ => 0 end.
Definition adding_d (th : thread) : list N :=
  match th with TClient _ _ (PSubsAdd se) => if is_direct se then [se_id se] else [] | _ => [] end.
Definition inv_ri w : Prop :=
  forall sid, tot (c_ret sid) (w_hist w) + cnt sid (all_of adding_d (w_threads w)) <= tot (c_inv sid) (w_hist w).

Lemma tot_cb_inv sid x (l : list (cb State aid)) : tot (c_inv sid) (rev (map (ECb x) l)) = 0.
Proof. apply tot_zero. intros e I. apply in_rev in I. apply in_map_iff in I. destruct I as (c & <- & I). reflexivity. Qed.
Lemma dq_phase_inv_ev w x ph w1 sr sid : dq_phase w x ph = Some (w1, sr) ->
  tot (c_inv sid) (w_hist w1) = tot (c_inv sid) (w_hist w).
Proof.
  unfold dq_phase. destruct (send_phase (w_dq w) x ph) as [[[dq' sr'] dr]|]; [|discriminate].
  intros H; injection H as <- <-. simp_world. rewrite !tot_app. rewrite tot_zero; [reflexivity|].
  intros e I. apply in_rev in I. unfold dq_events in I. apply in_app_or in I. destruct I as [I|I].
  - apply in_map_iff in I. destruct I as (? & <- & _). destruct sr' as [?|[|]]; auto.
  - destruct sr' as [?|[|]]; try destruct x; cbn in I; try contradiction; destruct I as [<-|[]]; auto.
Qed.
Lemma sub_phase_inv_ev w s x ph w1 sr sid : sub_phase w s x ph = Some (w1, sr) ->
  tot (c_inv sid) (w_hist w1) = tot (c_inv sid) (w_hist w).
Proof.
  unfold sub_phase. destruct (get_chan (w_chans w) s) as [c|]; [|intros H; injection H as <- <-; auto].
  destruct (send_phase c x ph) as [[[c' sr'] dr]|]; [|discriminate].
  intros H; injection H as <- <-. simp_world. rewrite !tot_app. rewrite tot_zero; [reflexivity|].
  intros e I. apply in_rev in I. unfold sub_events in I. apply in_app_or in I. destruct I as [I|I].
  - apply in_map_iff in I. destruct I as (? & <- & _). auto.
  - destruct sr' as [?|[|]]; try destruct x as [[? ?]|]; cbn in I; try contradiction; destruct I as [<-|[]]; auto.
Qed.

Theorem step_ri w t w' : threads_all add_ok (w_threads w) -> threads_all head_ok (w_threads w) ->
  inv_ri w -> step w t = Some w' -> inv_ri w'.
Proof.
  intros AO HO I H. step_cases H; use_frames.
  all: try (match goal with HB : (_ =? reducer_tid)%N = true |- _ => apply N.eqb_eq in HB; subst end).
  all: unfold inv_ri in *; intros zz; specialize (I zz).
  all: repeat match goal with
       | HH : dq_phase _ _ _ = Some (_, _) |- context [c_ret ?z] =>
           let A := fresh in let B := fresh in
           pose proof (dq_phase_inv_ev _ _ _ _ _ z HH) as A; apply (dq_phase_rel _ _ _ _ _ z) in HH; destruct HH as [_ B]
       | HH : sub_phase _ _ _ _ = Some (_, _) |- context [c_ret ?z] =>
           let A := fresh in let B := fresh in
           pose proof (sub_phase_inv_ev _ _ _ _ _ _ z HH) as A; apply (sub_phase_rel _ _ _ _ _ _ z) in HH; destruct HH as [_ B]
       end.
  all: rew_frames; rewrite ?put_put_same.
  all: match goal with G : get_thread (w_threads _) _ = Some ?th |- _ =>
         let F1 := fresh "AOK" in let F2 := fresh "HOK" in
         pose proof (AO _ _ G) as F1; pose proof (HO _ _ G) as F2; cbn [add_ok head_ok] in F1, F2 end.
  all: match goal with
       | G : get_thread (w_threads _) ?t0 = Some ?th0 |- context [cnt ?z (all_of adding_d (put_thread (put_thread _ ?n ?W) ?t0 ?th'))] =>
           let P := fresh "P" in
           assert (P := of_put2 adding_d _ n W t0 th0 th' z G (eq_refl _))
       | G : get_thread (w_threads _) ?t0 = Some ?th0 |- context [cnt ?z (all_of adding_d (put_thread _ ?t0 ?th'))] =>
           let P := fresh "P" in assert (P := of_put_same adding_d _ t0 th0 th' z G)
       | _ => idtac
       end.
  all: simp_tot; rewrite ?tot_cb_inv.
  all: repeat match goal with
       | E : tot (c_inv _) (w_hist ?x) = _ |- context [tot (c_inv _) (w_hist ?x)] => rewrite E
       | E : tot (c_ret _) (w_hist ?x) = _ |- context [tot (c_ret _) (w_hist ?x)] => rewrite E
       end.
  all: cbn [c_inv c_ret adding_d is_direct se_kind se_id] in *; rewrite ?cnt_cons, ?cnt_nil in *.
  all: try lia.
  all: try (destruct HOK as [HOK|[(? & ? & HOK)|HOK]]; discriminate HOK).
  all: try (match goal with |- context [match ?c with CAddSubscriber _ => _ | _ => _ end] =>
              destruct c; try lia; destruct HOK as [HOK|[(? & ? & HOK)|HOK]]; try discriminate HOK end).
  all: cbn [w_hist set_tx_open set_subs] in *; try lia.
  all: try (match goal with |- context [match ?c with CAddSubscriber _ => _ | _ => _ end] =>
              destruct c; try lia; destruct HOK as [HOK|[(? & ? & HOK)|HOK]]; try discriminate HOK end).
  injection HOK as ->. cbn [is_direct se_kind se_id] in P. rewrite cnt_cons, cnt_nil in P. lia.
Qed.

(* ---------- along every run ---------- *)
Definition inv_release w : Prop :=
  inv_sids w /\ threads_all add_ok (w_threads w) /\ threads_all head_ok (w_threads w) /\ inv_r w /\ inv_ri w.

Lemma ids_nodup w : inv_sids w -> NoDup (ids (w_subs w)).
Proof.
  intros (_ & _ & _ & W). apply (NoDup_count_occ N.eq_dec). intros sid. specialize (W sid). unfold cnt in W. lia.
Qed.

Theorem reachable_release reducers mws progs w : (length progs <= 100)%nat -> distinct_regs progs ->
  reachable cfg reducers mws progs w -> inv_release w.
Proof.
  intros L D [sched H].
  assert (SH : forall t th, get_thread (w_threads (init_world cfg reducers mws progs)) t = Some th ->
          (exists p, In p progs /\ th = TClient Client p PIdle) \/ th = TReducer RRecv).
  { intros t th G. unfold init_world in G. cbn [w_threads] in G. eapply init_shape; eauto. }
  eapply (run_invariant cfg inv_release); [| |exact H].
  - intros w0 t w1 (S & AO & HO & R & RI) ST. split; [|split; [|split; [|split]]].
    + destruct S as (K & U & V & W). split; [eapply step_keys; eauto|].
      split; [eapply step_u; eauto|]. split; [eapply step_v; eauto|eapply step_w; eauto].
    + eapply step_add_ok; eauto.
    + eapply step_head_ok; eauto.
    + eapply step_r; eauto. now apply ids_nodup.
    + eapply step_ri; eauto.
  - split; [apply (reachable_sids cfg reducers mws progs _ L D); exists []; reflexivity|].
    split; [|split; [|split]].
    + intros t th G. destruct (SH _ _ G) as [(p & _ & ->)| ->]; exact I.
    + intros t th G. destruct (SH _ _ G) as [(p & _ & ->)| ->]; [|exact I]. cbn. destruct p as [|[] ?]; auto.
    + intros sid pc G. destruct (SH _ _ G) as [(p & _ & E)|E]; [discriminate E|]. injection E as ->. reflexivity.
    + intros sid. cbn [init_world w_hist w_threads tot].
      assert (A : forall l i, all_of adding_d (client_threads (State := State) i l ++ [(reducer_tid, TReducer RRecv)]) = []).
      { induction l as [|p r IH]; intros i; cbn [client_threads app]; [reflexivity|].
        unfold all_of in *. cbn [flat_map snd adding_d app]. apply IH. }
      rewrite A. cbn. lia.
Qed.

(* C09: a direct subscriber is released exactly once. The on_unsubscribe calls it has received,
   plus 1 while it is still registered (or still to be released by the shutdown in progress),
   equal the add_subscriber calls for it that have returned - and there is at most one such call *)
Theorem released_exactly_once reducers mws progs w sid pc : (length progs <= 100)%nat ->
  distinct_regs progs -> reachable cfg reducers mws progs w ->
  get_thread (w_threads w) reducer_tid = Some (TReducer pc) ->
  tot (c_rel sid) (w_hist w) + live sid (w_subs w) pc = tot (c_ret sid) (w_hist w) /\
  tot (c_ret sid) (w_hist w) <= 1.
Proof.
  intros L D R G. destruct (reachable_release _ _ _ _ L D R) as ((_ & U & _ & _) & _ & _ & IR & RI).
  split; [exact (IR sid pc G)|].
  specialize (RI sid). specialize (U sid).
  assert (A : tot (c_inv sid) (w_hist w) <= cnt sid (hist_regs (w_hist w))).
  { clear. induction (w_hist w) as [|e r IH]; [cbn; lia|].
    change (hist_regs (e :: r)) with (ev_reg e ++ hist_regs r). rewrite cnt_app. cbn [tot].
    destruct e; cbn [c_inv ev_reg]; rewrite ?cnt_nil; try lia.
    destruct c; cbn [reg_sid]; rewrite ?cnt_cons, ?cnt_nil; lia. }
  lia.
Qed.
End WorldRelease.
