(* WorldFwdSince.v — for programs whose registration calls carry pairwise distinct identifiers a
   subscription channel is created once, so "forwarded since the channel was created" (subsends,
   the notion of C10_stream / C14_stream) and "ever forwarded to that identifier" (fwd, the notion
   of C04_forwarding_is_final) coincide; hence the stream an iterator or channeled subscriber can
   still receive is final once the reducer has left its loop. *)
From RS Require Import Base Channel ChannelProofs Pipeline PipelineProofs Selector Script World WorldTactics Hist WorldProofs WorldInv WorldQueue WorldStop WorldSubs WorldMetrics WorldEffects WorldLive WorldSids WorldForward WorldFwdFinal.

Section WorldFwdSince.
Context {State : Type}.
Variable cfg : wconfig (State := State).
Notation world := (world (State := State)).
Notation step := (step cfg).
Notation event := (event (State := State)).
Implicit Types w : World.world (State := State).
Implicit Types h : list event.

(* nothing was ever forwarded to an identifier no registration call has been invoked for *)
Definition inv_fs w : Prop :=
  (forall sid, ~ In sid (hist_regs (w_hist w)) -> fwd sid (w_hist w) = []) /\
  (forall sid, subsends sid (w_hist w) = fwd sid (w_hist w)).

Definition squiet (e : event) : bool := match e with ESubNew _ | ESubSend _ _ => false | _ => true end.
Lemma squiet_app sid l h : forallb squiet l = true ->
  fwd sid (l ++ h) = fwd sid h /\ subsends sid (l ++ h) = subsends sid h.
Proof.
  induction l as [|e r IH]; cbn [app forallb]; [auto|].
  intros E. apply andb_true_iff in E. destruct E as [E1 E2]. destruct (IH E2) as [F S].
  unfold fwd, subsends in *. cbn [flat_map since].
  destruct e; cbn in E1; try discriminate; cbn [is_new flat_map ev_subsend app]; auto.
Qed.
Lemma squiet_cb x (l : list (cb State aid)) : forallb squiet (rev (map (ECb x) l)) = true.
Proof. induction l as [|c r IH]; [reflexivity|]. cbn. rewrite forallb_app, IH. reflexivity. Qed.
Lemma squiet_dq x sr dr : forallb squiet (rev (dq_events (State := State) x sr dr)) = true.
Proof.
  unfold dq_events. rewrite rev_app_distr, forallb_app.
  assert (D : forall (f : aid -> event), (forall a, squiet (f a) = true) ->
              forall l, forallb squiet (rev (map f l)) = true).
  { intros f Hf. induction l as [|c r IH]; [reflexivity|]. cbn. rewrite forallb_app, IH. cbn. now rewrite Hf. }
  destruct sr as [ph|[|]]; [|destruct x|]; cbn; rewrite D by reflexivity; reflexivity.
Qed.

Lemma regs_mono sid l h : ~ In sid (hist_regs (l ++ h)) -> ~ In sid (hist_regs h).
Proof. rewrite hist_regs_app. intros N I. apply N. apply in_or_app. now right. Qed.

Lemma fs_ext w0 w1 l : w_hist w1 = l ++ w_hist w0 -> forallb squiet l = true -> inv_fs w0 -> inv_fs w1.
Proof.
  intros E Q [A B]. split; intros sid.
  - intros N. rewrite E in *. rewrite (proj1 (squiet_app sid l _ Q)). apply A. eapply regs_mono; eauto.
  - rewrite E. destruct (squiet_app sid l (w_hist w0) Q) as [-> ->]. apply B.
Qed.

(* one phase of a send on the channel of s: the same events on both sides *)
Lemma fs_sub w0 w1 s x sr dr l : w_hist w1 = l ++ rev (sub_events s x sr dr) ++ w_hist w0 ->
  forallb squiet l = true -> In s (hist_regs (w_hist w0)) -> inv_fs w0 -> inv_fs w1.
Proof.
  intros E Q U [A B]. split; intros sid.
  - intros N. rewrite E in *. rewrite (proj1 (squiet_app sid l _ Q)).
    assert (N0 : ~ In sid (hist_regs (w_hist w0))).
    { apply regs_mono in N. rewrite hist_regs_app in N. intros I. apply N. apply in_or_app. now right. }
    unfold fwd. rewrite flat_map_app. fold (fwd sid (w_hist w0)). rewrite (A sid N0), app_nil_r.
    assert (NE : s <> sid) by (intros ->; contradiction).
    unfold sub_events. rewrite rev_app_distr, flat_map_app.
    rewrite (proj_subdrop (ev_subsend sid) s dr) by reflexivity. rewrite app_nil_r.
    destruct sr as [?|[|]]; [reflexivity| |reflexivity]. destruct x as [[s0 a0]|]; [|reflexivity].
    cbn. destruct (N.eqb_spec s sid); [contradiction|reflexivity].
  - rewrite E. destruct (squiet_app sid l (rev (sub_events s x sr dr) ++ w_hist w0) Q) as [-> ->].
    destruct (sub_events_fwd sid s x sr dr (w_hist w0)) as [_ ->].
    unfold fwd. rewrite flat_map_app. fold (fwd sid (w_hist w0)). rewrite <- (B sid). f_equal.
    unfold sub_events. rewrite rev_app_distr, flat_map_app.
    rewrite (proj_subdrop (ev_subsend sid) s dr) by reflexivity. rewrite app_nil_r.
    destruct sr as [?|[|]]; [reflexivity| |reflexivity]. destruct x as [[s0 a0]|]; [|reflexivity].
    cbn. rewrite app_nil_r. reflexivity.
Qed.


Lemma fs_new w0 w1 sid0 l l2 : w_hist w1 = l ++ ESubNew sid0 :: l2 ++ w_hist w0 ->
  forallb squiet l = true -> forallb squiet l2 = true -> ~ In sid0 (hist_regs (w_hist w0)) ->
  inv_fs w0 -> inv_fs w1.
Proof.
  intros E Q Q2 NF [A B]. split; intros sid.
  - intros N. rewrite E in *. rewrite (proj1 (squiet_app sid l _ Q)).
    unfold fwd. cbn [flat_map ev_subsend app]. fold (fwd sid (l2 ++ w_hist w0)).
    rewrite (proj1 (squiet_app sid l2 _ Q2)). apply A.
    apply regs_mono in N. change (ESubNew sid0 :: l2 ++ w_hist w0) with ([ESubNew sid0] ++ l2 ++ w_hist w0) in N.
    apply regs_mono in N. apply regs_mono in N. exact N.
  - rewrite E. destruct (squiet_app sid l (ESubNew sid0 :: l2 ++ w_hist w0) Q) as [-> ->].
    unfold fwd, subsends. cbn [since is_new flat_map ev_subsend app].
    fold (fwd sid (l2 ++ w_hist w0)). rewrite (proj1 (squiet_app sid l2 _ Q2)).
    destruct (N.eqb_spec sid0 sid) as [->|NE]; cbn [flat_map].
    + symmetry. apply A. exact NF.
    + fold (subsends sid (l2 ++ w_hist w0)). rewrite (proj2 (squiet_app sid l2 _ Q2)). apply B.
Qed.

Lemma dq_phase_fs w x ph w1 sr : dq_phase w x ph = Some (w1, sr) -> inv_fs w -> inv_fs w1.
Proof.
  unfold dq_phase. destruct (send_phase (w_dq w) x ph) as [[[dq' sr'] dr]|]; [|discriminate].
  intros H; injection H as <- <-. apply (fs_ext w _ (rev (dq_events x sr' dr))); [reflexivity|apply squiet_dq].
Qed.
Lemma sub_phase_fs w s x ph w1 sr : sub_phase w s x ph = Some (w1, sr) ->
  In s (hist_regs (w_hist w)) -> inv_fs w -> inv_fs w1.
Proof.
  unfold sub_phase. destruct (get_chan (w_chans w) s) as [c|]; [|intros H; injection H as <- <-; auto].
  destruct (send_phase c x ph) as [[[c' sr'] dr]|]; [|discriminate].
  intros H; injection H as <- <-. intros U. apply (fs_sub w _ s x sr' dr []); [reflexivity|reflexivity|exact U].
Qed.

Ltac hist_prefix h base :=
  lazymatch h with
  | base => constr:(@nil (World.event (State := State)))
  | ?e :: ?r => let p := hist_prefix r base in constr:(e :: p)
  | ?l ++ ?r => let p := hist_prefix r base in constr:(l ++ p)
  end.
Ltac hist_eq := cbn [app]; rewrite ?app_nil_r, <- ?app_assoc; reflexivity.
Ltac whist w1 :=
  let h := eval cbn [w_hist set_chan spawn_worker emit emits upd_metrics set_thread set_state set_dq
                     set_tx_open set_reducers set_mws set_subs set_chans set_lasts set_iter_done
                     set_pool set_threads set_next_tid set_metrics set_hist set_rpc] in (w_hist w1) in
  let hh := eval unfold cb_events in h in hh.
Ltac squiet_side := cbn [forallb squiet andb app]; rewrite ?forallb_app, ?squiet_cb; reflexivity.

(* the identifier of the channel a phase sends on is in use, hence was registered *)
Ltac used_side V Heqo :=
  apply V;
  first
  [ (right; right; eexists _, _; split; [exact Heqo|]; cbn [th_sids ids map In]; tauto)
  | (left; eapply find_sub_in; eassumption) ].

Theorem step_fs w t w' : inv_u w -> inv_v w -> inv_fs w -> step w t = Some w' -> inv_fs w'.
Proof.
  intros U V IV H. step_cases H.
  all: try (match goal with HB : (_ =? reducer_tid)%N = true |- _ => apply N.eqb_eq in HB; subst end).
  all: repeat match goal with
       | HH : dq_phase ?w0 _ _ = Some (?w1, _), I0 : inv_fs _ |- _ =>
           let J := fresh "J" in assert (J : inv_fs w1) by (eapply dq_phase_fs; [exact HH|exact I0]); clear I0
       | HH : sub_phase ?w0 ?s _ _ = Some (?w1, _), I0 : inv_fs _ |- _ =>
           let J := fresh "J" in
           assert (J : inv_fs w1) by (eapply sub_phase_fs; [exact HH| cbn [w_hist set_subs set_tx_open]; used_side V Heqo |exact I0]);
           clear I0
       end.
  all: try (match goal with
            | J : inv_fs ?w0 |- inv_fs ?w1 =>
                let hh := whist w1 in
                let p := hist_prefix hh (w_hist w0) in
                apply (fs_ext w0 w1 p); [unfold cb_events; simp_world; hist_eq|squiet_side|exact J]
            end; fail).
  (* a subscription channel is created *)
  all: try (match goal with
            | G : get_thread (w_threads ?w0) ?t0 = Some (TClient _ (?c :: _) _) |- inv_fs ?w1 =>
                lazymatch c with
                | CSubscribed ?sid0 _ _ =>
                    apply (fs_new w0 w1 sid0 [] [EInv t0 c]);
                    [ simp_world; reflexivity | reflexivity | reflexivity
                    | apply (pending_not_invoked w0 sid0 U); eapply in_all_pending; [exact G|cbn; left; reflexivity]
                    | exact IV ]
                | CIter ?sid0 _ _ =>
                    apply (fs_new w0 w1 sid0 [] [EInv t0 c]);
                    [ simp_world; reflexivity | reflexivity | reflexivity
                    | apply (pending_not_invoked w0 sid0 U); eapply in_all_pending; [exact G|cbn; left; reflexivity]
                    | exact IV ]
                end
            end; fail).
Qed.


Theorem reachable_fs reducers mws progs w : distinct_regs progs ->
  reachable cfg reducers mws progs w -> inv_fs w.
Proof.
  intros D [sched H].
  assert (A : (inv_u w /\ inv_v w) /\ inv_fs w).
  { eapply (run_invariant cfg (fun w => (inv_u w /\ inv_v w) /\ inv_fs w)); [| |exact H].
    - intros w0 t w1 [[U V] F] ST. split; [split; [eapply step_u; eauto|eapply step_v; eauto]|eapply step_fs; eauto].
    - split; [apply init_uv; exact D|]. split; intros sid; reflexivity. }
  exact (proj2 A).
Qed.

Lemma reachable_run reducers mws progs w sched w' :
  reachable cfg reducers mws progs w -> run cfg w sched = Some w' -> reachable cfg reducers mws progs w'.
Proof.
  intros [s0 H0] H. exists (s0 ++ sched). rewrite (run_app cfg). rewrite H0. exact H.
Qed.

(* once the reducer has left its loop the stream forwarded to a subscription channel since its
   creation - what its consumer can still receive comes from it (C10_stream, C14_stream) - is
   final: along every continuation it stays what it is *)
Theorem stream_is_final reducers mws progs w sched w' sid : (length progs <= 100)%nat -> distinct_regs progs ->
  reachable cfg reducers mws progs w -> releasing w -> run cfg w sched = Some w' ->
  subsends sid (w_hist w') = subsends sid (w_hist w).
Proof.
  intros L D R RL H.
  destruct (reachable_fs _ _ _ _ D R) as [_ B].
  destruct (reachable_fs _ _ _ _ D (reachable_run _ _ _ _ _ _ R H)) as [_ B'].
  rewrite B, B'. exact (proj2 (forwarded_is_final cfg sched w w' (reachable_fresh cfg reducers mws progs w L R) RL H) sid).
Qed.

End WorldFwdSince.
