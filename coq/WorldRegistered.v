(* WorldRegistered.v — the registry over histories (C03, C09): a subscriber whose registration call
   has returned and for which no unsubscribing call has been invoked is in every snapshot the
   reducer takes - for every program and every schedule. Together with WorldNotify (the calls made
   in the reducer context are, snapshot by snapshot, one per direct subscriber of the snapshot)
   and WorldSnap (the snapshots are exactly the notifying actions) this is "a subscriber registered
   for the whole run is called exactly once for each notifying action". *)
From RS Require Import Base Channel ChannelProofs Pipeline PipelineProofs Selector Script World WorldTactics Hist WorldProofs WorldInv WorldQueue WorldStop WorldSubs WorldMetrics WorldEffects WorldLive WorldSids.

Section WorldRegistered.
Context {State : Type}.
Variable cfg : wconfig (State := State).
Notation world := (world (State := State)).
Notation step := (step cfg).
Notation event := (event (State := State)).
Notation thread := (thread (State := State)).
Implicit Types w : World.world (State := State).
Implicit Types h : list event.

(* calls that may remove the registry entries of sid: unsubscribe, and - for iterators - the
   calls that release the iterator once its stream has ended *)
Definition unsub_call (sid : N) (c : call) : bool :=
  match c with
  | CUnsubscribe s | CNext s | CDrain s | CDropIter s => N.eqb s sid
  | _ => false
  end.
Definition reg_call (sid : N) (c : call) : bool := existsb (N.eqb sid) (reg_sid c).
Definition ev_added (sid : N) (e : event) : bool :=
  match e with ERet _ c _ => reg_call sid c | _ => false end.
Definition ev_unsub (sid : N) (e : event) : bool :=
  match e with EInv _ c => unsub_call sid c | _ => false end.
(* a registration call for sid has returned and no unsubscribing call for sid has been invoked *)
Definition reg_live (sid : N) h : bool :=
  existsb (ev_added sid) h && negb (existsb (ev_unsub sid) h).

(* every snapshot in the history contains every identifier that was live when it was taken *)
Fixpoint snaps_ok h : Prop :=
  match h with
  | [] => True
  | e :: r =>
      match e with
      | ESnapshot _ _ snap => forall sid, reg_live sid r = true -> In sid (ids snap)
      | _ => True
      end /\ snaps_ok r
  end.

Definition reducer_done w : Prop := get_thread (w_threads w) reducer_tid = Some (TReducer RDone).

Definition inv_reg w : Prop :=
  forall sid, reg_live sid (w_hist w) = true -> In sid (ids (w_subs w)) \/ reducer_done w.

(* a thread inside a registration call is at the registration point of exactly that identifier;
   no other call is ever at a registration point *)
Definition radd_ok (th : thread) : Prop :=
  match th with
  | TClient _ (c :: _) pc =>
      match reg_sid c with
      | s :: _ => pc = PIdle \/ (exists k v, pc = PTaskStart k v) \/ (exists k, pc = PSubsAdd (mkSub s k))
      | [] => match pc with PSubsAdd _ => False | _ => True end
      end
  | TClient _ [] (PSubsAdd _) => False
  | _ => True
  end.

(* a thread that may remove the entries of sid has invoked an unsubscribing call for sid *)
Definition unsubbing (th : thread) : option N :=
  match th with
  | TClient _ _ (PUnsubLock s) | TClient _ _ (PNextRecv s) => Some s
  | _ => None
  end.
Definition inv_ui w : Prop :=
  forall t th s, get_thread (w_threads w) t = Some th -> unsubbing th = Some s ->
    existsb (ev_unsub s) (w_hist w) = true.

(* ---------- events ---------- *)
Definition rquiet (e : event) : bool :=
  match e with ERet _ _ _ | EInv _ _ | ESnapshot _ _ _ => false | _ => true end.

Lemma rquiet_app sid l h : forallb rquiet l = true ->
  existsb (ev_added sid) (l ++ h) = existsb (ev_added sid) h /\
  existsb (ev_unsub sid) (l ++ h) = existsb (ev_unsub sid) h.
Proof.
  induction l as [|e r IH]; cbn [app forallb existsb]; [auto|].
  intros E. apply andb_true_iff in E. destruct E as [E1 E2]. destruct (IH E2) as [-> ->].
  destruct e; cbn in E1; try discriminate; cbn; auto.
Qed.
Lemma rquiet_snaps l h : forallb rquiet l = true -> snaps_ok h -> snaps_ok (l ++ h).
Proof.
  induction l as [|e r IH]; cbn [app forallb]; [auto|].
  intros E S. apply andb_true_iff in E. destruct E as [E1 E2]. cbn [snaps_ok]. split; [|auto].
  destruct e; cbn in E1; try discriminate; exact I.
Qed.
Lemma rquiet_cb x (l : list (cb State aid)) : forallb rquiet (rev (map (ECb x) l)) = true.
Proof. induction l as [|c r IH]; [reflexivity|]. cbn. rewrite forallb_app, IH. reflexivity. Qed.
Lemma rquiet_dq x sr dr : forallb rquiet (rev (dq_events (State := State) x sr dr)) = true.
Proof.
  unfold dq_events. rewrite rev_app_distr, forallb_app.
  assert (D : forall (f : aid -> event), (forall a, rquiet (f a) = true) ->
              forall l, forallb rquiet (rev (map f l)) = true).
  { intros f Hf. induction l as [|c r IH]; [reflexivity|]. cbn. rewrite forallb_app, IH. cbn. now rewrite Hf. }
  destruct sr as [ph|[|]]; [|destruct x|]; cbn; rewrite D by reflexivity; reflexivity.
Qed.
Lemma rquiet_sub s x sr dr : forallb rquiet (rev (sub_events (State := State) s x sr dr)) = true.
Proof.
  unfold sub_events. rewrite rev_app_distr, forallb_app.
  assert (D : forall (l : list (State * aid)), forallb rquiet (rev (map (fun _ => ESubDrop (State := State) s) l)) = true).
  { induction l as [|c r IH]; [reflexivity|]. cbn. rewrite forallb_app, IH. reflexivity. }
  rewrite D, andb_true_r. destruct sr as [ph|[|]]; [reflexivity| |reflexivity]. destruct x as [[s0 a0]|]; reflexivity.
Qed.

Lemma existsb_mono {A} (f : A -> bool) (l1 l2 : list A) : existsb f l2 = true -> existsb f (l1 ++ l2) = true.
Proof. intros E. rewrite existsb_app, E. apply orb_true_r. Qed.

(* the part of a step that matters: the history grew by l, of which only returns of
   non-registration calls and invocations may be loud; the registry kept (at least) its entries *)
Definition lquiet (e : event) : bool :=
  match e with
  | ERet _ c _ => match reg_sid c with [] => true | _ => false end
  | ESnapshot _ _ _ => false
  | _ => true
  end.
Lemma lquiet_live sid l h : forallb lquiet l = true -> reg_live sid (l ++ h) = true -> reg_live sid h = true.
Proof.
  unfold reg_live. induction l as [|e r IH]; cbn [app forallb existsb]; [auto|].
  intros E. apply andb_true_iff in E. destruct E as [E1 E2]. intros L. apply IH; [exact E2|].
  apply andb_true_iff in L. destruct L as [L1 L2]. apply negb_true_iff in L2.
  apply orb_false_iff in L2. destruct L2 as [_ L2]. rewrite L2. cbn [negb]. rewrite andb_true_r.
  destruct e; cbn [ev_added] in L1; try exact L1. cbn [lquiet] in E1. unfold reg_call in L1.
  destruct (reg_sid c); [exact L1|discriminate E1].
Qed.
Lemma lquiet_snaps l h : forallb lquiet l = true -> snaps_ok h -> snaps_ok (l ++ h).
Proof.
  induction l as [|e r IH]; cbn [app forallb]; [auto|].
  intros E S. apply andb_true_iff in E. destruct E as [E1 E2]. cbn [snaps_ok]. split; [|auto].
  destruct e; cbn in E1; try discriminate; exact I.
Qed.

Definition inv_rs w : Prop := inv_reg w /\ snaps_ok (w_hist w).

Lemma rs_ext w0 w1 l : w_hist w1 = l ++ w_hist w0 -> forallb lquiet l = true ->
  (forall sid, In sid (ids (w_subs w0)) -> In sid (ids (w_subs w1))) ->
  (reducer_done w0 -> reducer_done w1) -> inv_rs w0 -> inv_rs w1.
Proof.
  intros E Q S D [I SN]. split; [|rewrite E; now apply lquiet_snaps].
  intros sid L. rewrite E in L. apply (lquiet_live sid l _ Q) in L. destruct (I sid L); auto.
Qed.

Lemma rquiet_lquiet l : forallb rquiet l = true -> forallb lquiet l = true.
Proof.
  induction l as [|e r IH]; cbn [forallb]; [auto|]. intros E. apply andb_true_iff in E. destruct E as [E1 E2].
  rewrite (IH E2), andb_true_r. destruct e; cbn in E1; try discriminate; reflexivity.
Qed.
Lemma dq_phase_rs w x ph w1 sr : dq_phase w x ph = Some (w1, sr) -> inv_rs w -> inv_rs w1.
Proof.
  unfold dq_phase. destruct (send_phase (w_dq w) x ph) as [[[dq' sr'] dr]|]; [|discriminate].
  intros H; injection H as <- <-. apply (rs_ext w _ (rev (dq_events x sr' dr))); auto.
  apply rquiet_lquiet, rquiet_dq.
Qed.
Lemma sub_phase_rs w s x ph w1 sr : sub_phase w s x ph = Some (w1, sr) -> inv_rs w -> inv_rs w1.
Proof.
  unfold sub_phase. destruct (get_chan (w_chans w) s) as [c|]; [|intros H; injection H as <- <-; auto].
  destruct (send_phase c x ph) as [[[c' sr'] dr]|]; [|discriminate].
  intros H; injection H as <- <-. apply (rs_ext w _ (rev (sub_events s x sr' dr))); auto.
  apply rquiet_lquiet, rquiet_sub.
Qed.


(* ---------- threads at registration points ---------- *)
Ltac radd_leaf :=
  repeat match goal with
  | |- match ?x with _ => _ end => destruct x eqn:?
  end;
  try exact I; try (left; reflexivity); try (right; left; eauto; fail); try (right; right; eauto; fail).

Theorem step_radd w t w' : threads_all radd_ok (w_threads w) -> step w t = Some w' ->
  threads_all radd_ok (w_threads w').
Proof.
  intros T H. step_cases H; use_frames.
  all: match goal with G : get_thread (w_threads _) _ = Some ?th |- _ =>
         let F := fresh "HO" in pose proof (T _ _ G) as F; cbn [radd_ok reg_sid] in F end.
  all: solve_threads_all T; cbn [radd_ok reg_sid].
  all: try (radd_leaf; fail).
  all: try (match goal with HO : match ?p with _ => _ end |- match ?p with _ => _ end =>
              let cc := fresh "cc" in
              destruct p as [|cc ?]; [exact I|]; destruct (reg_sid cc); [exact I|];
              destruct HO as [HO|[(? & ? & HO)|(? & HO)]]; discriminate HO end).
Qed.


(* ---------- threads that may unsubscribe have invoked an unsubscribing call ---------- *)
Lemma ui_ext w0 w1 l : w_hist w1 = l ++ w_hist w0 ->
  (forall t th s, get_thread (w_threads w1) t = Some th -> unsubbing th = Some s ->
     (exists th0, get_thread (w_threads w0) t = Some th0 /\ unsubbing th0 = Some s) \/
     existsb (ev_unsub s) l = true) ->
  inv_ui w0 -> inv_ui w1.
Proof.
  intros E H I t th s G U. rewrite E, existsb_app. destruct (H t th s G U) as [(th0 & G0 & U0)| ->]; [|reflexivity].
  rewrite (I t th0 s G0 U0). apply orb_true_r.
Qed.

Lemma dq_phase_ui w x ph w1 sr : dq_phase w x ph = Some (w1, sr) -> inv_ui w -> inv_ui w1.
Proof.
  unfold dq_phase. destruct (send_phase (w_dq w) x ph) as [[[dq' sr'] dr]|]; [|discriminate].
  intros H; injection H as <- <-. apply (ui_ext w _ (rev (dq_events x sr' dr))); [reflexivity|].
  intros t th s G U. left. eauto.
Qed.
Lemma sub_phase_ui w s0 x ph w1 sr : sub_phase w s0 x ph = Some (w1, sr) -> inv_ui w -> inv_ui w1.
Proof.
  unfold sub_phase. destruct (get_chan (w_chans w) s0) as [c|]; [|intros H; injection H as <- <-; auto].
  destruct (send_phase c x ph) as [[[c' sr'] dr]|]; [|discriminate].
  intros H; injection H as <- <-. apply (ui_ext w _ (rev (sub_events s0 x sr' dr))); [reflexivity|].
  intros t th s G U. left. eauto.
Qed.

Ltac hist_prefix h base :=
  lazymatch h with
  | base => constr:(@nil (World.event (State := State)))
  | ?e :: ?r => let p := hist_prefix r base in constr:(e :: p)
  | ?l ++ ?r => let p := hist_prefix r base in constr:(l ++ p)
  end.
Ltac hist_eq := cbn [app]; rewrite ?app_nil_r, <- ?app_assoc; reflexivity.
Ltac whist w1 :=
  let h := eval cbn [w_hist set_chan spawn_worker emit emits upd_metrics set_thread set_state set_dq
                     set_tx_open set_reducers set_mws set_subs set_chans set_lasts set_iter_done
                     set_pool set_threads set_next_tid set_metrics set_hist set_rpc] in (w_hist w1) in
  let hh := eval unfold cb_events in h in hh.

Ltac ui_leaf :=
  let t0 := fresh "t0" in let th0 := fresh "th0" in let s0 := fresh "s0" in
  let G0 := fresh "G0" in let U0 := fresh "U0" in
  intros t0 th0 s0 G0 U0; revert G0; rew_frames; intros G0;
  repeat match type of G0 with
  | get_thread (put_thread _ ?t' _) ?k = _ =>
      let EQ := fresh "EQ" in
      destruct (N.eq_dec k t') as [EQ|EQ];
      [ rewrite EQ in G0 |- *; rewrite get_put_same in G0; injection G0 as <-; cbn [unsubbing] in U0;
        first [ discriminate U0
              | injection U0 as <-;
                first [ left; eexists; split; [eassumption|reflexivity]
                      | right; cbn [existsb ev_unsub unsub_call app]; rewrite ?N.eqb_refl; reflexivity ] ]
      | rewrite get_put_other in G0 by exact EQ ]
  end;
  try (left; eexists; split; [exact G0|exact U0]).

Theorem step_ui w t w' : inv_ui w -> step w t = Some w' -> inv_ui w'.
Proof.
  intros I H. step_cases H.
  all: repeat match goal with
       | HH : dq_phase ?w0 _ _ = Some (?w1, _), I0 : inv_ui _ |- _ =>
           let J := fresh "J" in assert (J : inv_ui w1) by (eapply dq_phase_ui; [exact HH|exact I0]); clear I0
       | HH : sub_phase ?w0 _ _ _ = Some (?w1, _), I0 : inv_ui _ |- _ =>
           let J := fresh "J" in assert (J : inv_ui w1) by (eapply sub_phase_ui; [exact HH|exact I0]); clear I0
       end.
  all: use_frames.
  all: try (match goal with
            | J : inv_ui ?w0 |- inv_ui ?w1 =>
                let hh := whist w1 in
                let p := hist_prefix hh (w_hist w0) in
                apply (ui_ext w0 w1 p); [unfold cb_events; simp_world; hist_eq|ui_leaf|exact J]
            end; fail).
Qed.


(* ---------- the registry and the snapshots ---------- *)
Lemma reg_sid_single c s l0 : reg_sid c = s :: l0 -> l0 = [].
Proof. destruct c; cbn; intros E; try discriminate; now injection E. Qed.

Lemma rs_add w w1 t c res se l0 : w_hist w1 = ERet t c res :: w_hist w -> w_subs w1 = w_subs w ++ [se] ->
  reg_sid c = se_id se :: l0 -> (reducer_done w -> reducer_done w1) -> inv_rs w -> inv_rs w1.
Proof.
  intros E S RS D [I SN]. split; [|rewrite E; cbn [snaps_ok]; auto].
  intros sid L. rewrite E in L. unfold reg_live in L. cbn [existsb ev_added ev_unsub] in L.
  rewrite S, ids_app. unfold reg_call in L. rewrite RS, (reg_sid_single _ _ _ RS) in L. cbn [existsb] in L.
  rewrite orb_false_r in L. destruct (N.eqb_spec sid (se_id se)) as [EQ|NE].
  - left. apply in_or_app. right. left. symmetry. exact EQ.
  - cbn [orb] in L. destruct (I sid L) as [X|X]; [left; apply in_or_app; now left|right; auto].
Qed.

Lemma ids_remove_other l s sid : sid <> s -> In sid (ids l) -> In sid (ids (remove_sub l s)).
Proof.
  unfold ids, remove_sub. intros NE. induction l as [|x r IH]; cbn [map filter In]; [auto|].
  intros [E|X].
  - destruct (N.eqb_spec (se_id x) s) as [E2|E2]; [congruence|]. cbn. now left.
  - destruct (negb (se_id x =? s)%N); [right|]; auto.
Qed.

Lemma rs_remove w0 w1 l sid0 : w_hist w1 = l ++ w_hist w0 -> forallb lquiet l = true ->
  w_subs w1 = remove_sub (w_subs w0) sid0 -> existsb (ev_unsub sid0) (w_hist w0) = true ->
  (reducer_done w0 -> reducer_done w1) -> inv_rs w0 -> inv_rs w1.
Proof.
  intros E Q S U D [I SN]. split; [|rewrite E; now apply lquiet_snaps].
  intros sid L. rewrite E in L. apply (lquiet_live sid l _ Q) in L.
  destruct (N.eq_dec sid sid0) as [->|NE].
  - exfalso. unfold reg_live in L. rewrite U in L. rewrite andb_false_r in L. discriminate L.
  - destruct (I sid L) as [X|X]; [left; rewrite S; now apply ids_remove_other|right; auto].
Qed.

Lemma rs_snapshot w w1 a s : get_thread (w_threads w) reducer_tid = Some (TReducer (RSnapshot a s)) ->
  w_hist w1 = ESnapshot a s (w_subs w) :: w_hist w -> w_subs w1 = w_subs w -> inv_rs w -> inv_rs w1.
Proof.
  intros G E S [I SN].
  assert (A : forall sid, reg_live sid (w_hist w) = true -> In sid (ids (w_subs w))).
  { intros sid L. destruct (I sid L) as [X|X]; [exact X|]. unfold reducer_done in X. congruence. }
  split.
  - intros sid L. rewrite E in L. left. rewrite S. apply A. exact L.
  - rewrite E. cbn [snaps_ok]. split; [exact A|exact SN].
Qed.

Lemma rs_done w0 w1 l : w_hist w1 = l ++ w_hist w0 -> forallb lquiet l = true ->
  reducer_done w1 -> inv_rs w0 -> inv_rs w1.
Proof.
  intros E Q D [I SN]. split; [|rewrite E; now apply lquiet_snaps]. intros sid _. now right.
Qed.

Ltac lquiet_side :=
  cbn [forallb lquiet andb app reg_sid]; rewrite ?forallb_app, ?(rquiet_lquiet _ (rquiet_cb _ _));
  cbn [forallb lquiet andb app reg_sid];
  repeat match goal with RS : reg_sid ?c = [] |- context [reg_sid ?c] => rewrite RS end;
  reflexivity.

(* reducer_done is untouched by steps of other threads and by new threads *)
Ltac done_side F :=
  let D := fresh "D" in
  unfold reducer_done; try (intros D; congruence); rew_frames; intros D;
  repeat (rewrite get_put_other;
          [|first [ (intros EQ; rewrite <- EQ in *; congruence)
                  | (unfold reducer_tid, chan_tid; lia)
                  | (destruct F as (_ & F & _); unfold reducer_tid; lia) ]]);
  exact D.

Theorem step_rs w t w' : fresh_ok w -> threads_all radd_ok (w_threads w) -> inv_ui w -> inv_rs w ->
  step w t = Some w' -> inv_rs w'.
Proof.
  intros F T UI I H. step_cases H.
  all: match goal with G : get_thread (w_threads _) _ = Some ?th |- _ =>
         let HO := fresh "HO" in pose proof (T _ _ G) as HO; cbn [radd_ok reg_sid] in HO end.
  all: try (match goal with HB : (_ =? reducer_tid)%N = true |- _ => apply N.eqb_eq in HB; subst end).
  (* the head call of a thread outside a registration point is no registration call *)
  all: try (match goal with HO : match reg_sid ?c with _ => _ end |- _ =>
              let RS := fresh "RS" in destruct (reg_sid c) eqn:RS;
              [ | try (destruct HO as [HO|[(? & ? & HO)|(? & HO)]]; discriminate HO) ] end).
  all: try (destruct HO as [HO|[(? & ? & HO)|(? & HO)]]; discriminate HO).
  (* unsubscribe of an iterator: the entries are removed before the Exit marker is sent *)
  all: try (match goal with
            | HH : sub_phase (set_subs ?w0 (remove_sub (w_subs ?w0) ?sid)) _ _ _ = Some _,
              G : get_thread (w_threads ?w0) ?t0 = Some _ |- _ =>
                let J0 := fresh "J0" in
                assert (J0 : inv_rs (set_subs w0 (remove_sub (w_subs w0) sid)))
                  by (apply (rs_remove w0 _ [] sid);
                      [reflexivity|reflexivity|reflexivity|exact (UI _ _ _ G eq_refl)|auto|exact I]);
                clear I
            end).
  all: repeat match goal with
       | HH : dq_phase ?w0 _ _ = Some (?w1, _), I0 : inv_rs _ |- _ =>
           let J := fresh "J" in assert (J : inv_rs w1) by (eapply dq_phase_rs; [exact HH|exact I0]); clear I0
       | HH : sub_phase ?w0 _ _ _ = Some (?w1, _), I0 : inv_rs _ |- _ =>
           let J := fresh "J" in assert (J : inv_rs w1) by (eapply sub_phase_rs; [exact HH|exact I0]); clear I0
       end.
  all: use_frames.
  (* generic leaves *)
  all: try (match goal with
            | J : inv_rs ?w0 |- inv_rs ?w1 =>
                let hh := whist w1 in
                let p := hist_prefix hh (w_hist w0) in
                apply (rs_ext w0 w1 p);
                [ unfold cb_events; simp_world; hist_eq | lquiet_side
                | rew_frames; auto | done_side F | exact J ]
            end; fail).
  all: try contradiction.
  (* a registration returns *)
  all: try (match goal with
            | G : get_thread (w_threads ?w0) ?t0 = Some (TClient _ (?c :: _) (PSubsAdd ?se)), RS : reg_sid ?c = _ :: _
              |- _ =>
                destruct HO as [HO|[(? & ? & HO)|(? & HO)]]; try discriminate HO;
                injection HO as HO; subst se;
                eapply (rs_add w0 _ t0 c RUnit _ _);
                [ simp_world; reflexivity | simp_world; reflexivity | cbn [se_id]; exact RS | done_side F | exact I ]
            end; fail).
  (* an unsubscribing call removes the entries of its identifier *)
  all: try (match goal with
            | G : get_thread (w_threads ?w0) ?t0 = Some (TClient _ _ (PUnsubLock ?sid)) |- inv_rs ?w1 =>
                let hh := whist w1 in
                let p := hist_prefix hh (w_hist w0) in
                apply (rs_remove w0 w1 p sid);
                [ unfold cb_events; simp_world; hist_eq | lquiet_side | simp_world; reflexivity
                | exact (UI _ _ _ G eq_refl) | done_side F | exact I ]
            end; fail).
  (* the snapshot *)
  all: try (match goal with
            | G : get_thread (w_threads ?w0) reducer_tid = Some (TReducer (RSnapshot ?a ?s)), E : w_subs ?w0 = _
              |- inv_rs ?w1 =>
                apply (rs_snapshot w0 w1 a s G); [simp_world; rewrite E; reflexivity|simp_world; reflexivity|exact I]
            end; fail).
  (* the end of the shutdown release *)
  all: try (match goal with
            | J : inv_rs ?w0 |- inv_rs ?w1 =>
                let hh := whist w1 in
                let p := hist_prefix hh (w_hist w0) in
                apply (rs_done w0 w1 p);
                [ unfold cb_events; simp_world; hist_eq | lquiet_side
                | unfold reducer_done; rew_frames; apply get_put_same | exact J ]
            end; fail).
Qed.


Definition inv_R w : Prop := fresh_ok w /\ threads_all radd_ok (w_threads w) /\ inv_ui w /\ inv_rs w.

Lemma init_R reducers mws progs : (length progs <= 100)%nat -> inv_R (init_world cfg reducers mws progs).
Proof.
  intros L. split; [apply (init_eff cfg 0%N reducers mws progs L)|]. split; [|split; [|split]].
  - intros t th G. unfold init_world in G. cbn [w_threads] in G. apply init_shape in G.
    destruct G as [(p & _ & ->)| ->]; [|exact I]. cbn [radd_ok]. destruct p as [|c ?]; [exact I|].
    destruct (reg_sid c); [exact I|now left].
  - intros t th s G U. unfold init_world in G. cbn [w_threads] in G. apply init_shape in G.
    destruct G as [(p & _ & ->)| ->]; discriminate U.
  - intros sid L0. discriminate L0.
  - exact I.
Qed.

Theorem reachable_R reducers mws progs w : (length progs <= 100)%nat ->
  reachable cfg reducers mws progs w -> inv_R w.
Proof.
  intros L [sched H]. eapply (run_invariant cfg inv_R); [|apply init_R; exact L|exact H].
  intros w0 t w1 (F & T & UI & RS) ST.
  split; [eapply step_fresh; eauto|split; [eapply step_radd; eauto|split; [eapply step_ui; eauto|eapply step_rs; eauto]]].
Qed.

Lemma snaps_ok_app h2 h1 : snaps_ok (h2 ++ h1) -> snaps_ok h1.
Proof. induction h2 as [|e r IH]; cbn [app snaps_ok]; [auto|]. intros [_ S]. auto. Qed.

(* every snapshot the reducer ever took contains every identifier whose registration call had
   returned, and for which no unsubscribing call had been invoked, when it was taken *)
Theorem registered_in_snapshot reducers mws progs w h2 a s snap h1 sid : (length progs <= 100)%nat ->
  reachable cfg reducers mws progs w ->
  w_hist w = h2 ++ ESnapshot a s snap :: h1 -> reg_live sid h1 = true -> In sid (ids snap).
Proof.
  intros L R E LV. destruct (reachable_R _ _ _ _ L R) as (_ & _ & _ & _ & SN).
  rewrite E in SN. apply snaps_ok_app in SN. cbn [snaps_ok] in SN. destruct SN as [A _]. auto.
Qed.

(* while the store has not released its subscribers, the registry holds every live identifier *)
Theorem registered_in_registry reducers mws progs w sid : (length progs <= 100)%nat ->
  reachable cfg reducers mws progs w -> reg_live sid (w_hist w) = true ->
  In sid (ids (w_subs w)) \/ get_thread (w_threads w) reducer_tid = Some (TReducer RDone).
Proof. intros L R LV. destruct (reachable_R _ _ _ _ L R) as (_ & _ & _ & I & _). exact (I sid LV). Qed.

End WorldRegistered.
