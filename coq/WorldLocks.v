(* WorldLocks.v — the locks of the model are locks: the dispatch lock (TX) and the subscribers
   lock (SUBS) are each held by at most one thread, in every reachable world. (In the model a lock
   is held exactly by the threads whose program counter says so; a step that acquires one is
   enabled only when nobody holds it.) *)
From RS Require Import Base Channel ChannelProofs Pipeline PipelineProofs Selector Script World WorldTactics Hist WorldProofs WorldInv WorldQueue WorldStop.

Section WorldLocks.
Context {State : Type}.
Variable cfg : wconfig (State := State).
Notation world := (world (State := State)).
Notation step := (step cfg).
Notation thread := (thread (State := State)).
Implicit Types w : World.world (State := State).

Definition excl (f : thread -> bool) (ths : list (N * thread)) : Prop :=
  forall t1 t2 th1 th2, get_thread ths t1 = Some th1 -> get_thread ths t2 = Some th2 ->
    f th1 = true -> f th2 = true -> t1 = t2.

(* a thread that does not hold the lock afterwards *)
Lemma excl_put_free f ths t th : excl f ths -> f th = false -> excl f (put_thread ths t th).
Proof.
  intros E F t1 t2 th1 th2 G1 G2 H1 H2.
  destruct (N.eq_dec t1 t) as [->|N1]; [rewrite get_put_same in G1; injection G1 as <-; congruence|].
  destruct (N.eq_dec t2 t) as [->|N2]; [rewrite get_put_same in G2; injection G2 as <-; congruence|].
  rewrite get_put_other in G1 by exact N1. rewrite get_put_other in G2 by exact N2. eauto.
Qed.
(* a thread that held it and still does *)
Lemma excl_put_keep f ths t th0 th : excl f ths -> get_thread ths t = Some th0 -> f th0 = true ->
  excl f (put_thread ths t th).
Proof.
  intros E G0 F0 t1 t2 th1 th2 G1 G2 H1 H2.
  destruct (N.eq_dec t1 t) as [->|N1]; destruct (N.eq_dec t2 t) as [->|N2]; auto.
  - rewrite get_put_other in G2 by exact N2. symmetry. eapply E; eauto.
  - rewrite get_put_other in G1 by exact N1. eapply E; eauto.
  - rewrite get_put_other in G1 by exact N1. rewrite get_put_other in G2 by exact N2. eauto.
Qed.
(* a thread that takes it when nobody holds it *)
Lemma excl_put_take f ths t th : existsb (fun p => f (snd p)) ths = false -> excl f (put_thread ths t th).
Proof.
  intros X t1 t2 th1 th2 G1 G2 H1 H2.
  destruct (N.eq_dec t1 t) as [->|N1]; destruct (N.eq_dec t2 t) as [->|N2]; auto.
  - rewrite get_put_other in G2 by exact N2. pose proof (existsb_get f _ _ _ X G2). congruence.
  - rewrite get_put_other in G1 by exact N1. pose proof (existsb_get f _ _ _ X G1). congruence.
  - rewrite get_put_other in G1 by exact N1. pose proof (existsb_get f _ _ _ X G1). congruence.
Qed.

Definition inv_locks w : Prop := excl holds_tx (w_threads w) /\ excl holds_subs (w_threads w).

Theorem step_locks w t w' : inv_locks w -> step w t = Some w' -> inv_locks w'.
Proof.
  intros [ET ES] H. step_cases H; use_frames.
  all: try (match goal with HB : (_ =? reducer_tid)%N = true |- _ => apply N.eqb_eq in HB; subst end).
  all: unfold inv_locks; rew_frames.
  all: repeat match goal with
       | HF : tx_free _ = true |- _ => unfold tx_free in HF; apply negb_true_iff in HF
       | HF : subs_free _ = true |- _ => unfold subs_free in HF; apply negb_true_iff in HF
       end.
  all: split.
  all: repeat first
       [ (apply excl_put_free; [|reflexivity])
       | (eapply excl_put_keep; [|eassumption|reflexivity])
       | (apply excl_put_take; assumption) ].
  all: try assumption.
Qed.

Lemma init_locks reducers mws progs : inv_locks (init_world cfg reducers mws progs).
Proof.
  assert (A : forall (f : thread -> bool) l i, f (TReducer RRecv) = false ->
              (forall p, f (TClient Client p PIdle) = false) ->
              excl f (client_threads (State := State) i l ++ [(reducer_tid, TReducer RRecv)])).
  { intros f l i FR FC t1 t2 th1 th2 G1 G2 H1 H2. exfalso.
    assert (B : forall l i t th, get_thread (client_threads (State := State) i l ++ [(reducer_tid, TReducer RRecv)]) t = Some th -> f th = false).
    { induction l0 as [|p r IH]; intros i0 t0 th0; cbn [client_threads app get_thread].
      - destruct (N.eqb t0 reducer_tid); [|discriminate]. intros E; injection E as <-. exact FR.
      - destruct (N.eqb t0 i0); [intros E; injection E as <-; apply FC|apply IH]. }
    apply B in G1. congruence. }
  split; apply A; reflexivity.
Qed.

Theorem reachable_locks reducers mws progs w : reachable cfg reducers mws progs w -> inv_locks w.
Proof.
  intros [sched H]. eapply (run_invariant cfg inv_locks); [|apply init_locks|exact H].
  intros; eapply step_locks; eauto.
Qed.
End WorldLocks.
