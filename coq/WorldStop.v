(* WorldStop.v — closing and stopping (C04, C15): nothing enters the queue after close, the reducer
   leaves its loop with an empty queue, a stopped store stays quiet. *)
From RS Require Import Base Channel ChannelProofs Pipeline PipelineProofs Selector Script World WorldTactics Hist WorldProofs WorldInv WorldQueue.

Section WorldStop.
Context {State : Type}.
Variable cfg : wconfig (State := State).
Notation world := (world (State := State)).
Notation step := (step cfg).
Notation event := (event (State := State)).
Notation thread := (thread (State := State)).
Implicit Types w : World.world (State := State).
Implicit Types h : list event.

(* ---------- free locks: no thread holds them ---------- *)
Lemma existsb_get (f : thread -> bool) (l : list (N * thread)) t th :
  existsb (fun p => f (snd p)) l = false -> get_thread l t = Some th -> f th = false.
Proof.
  induction l as [|[t' th'] r IH]; cbn; [discriminate|].
  intros E. apply orb_false_iff in E. destruct E as [E1 E2].
  destruct (N.eqb t t'); [intros G; injection G as <-; exact E1|now apply IH].
Qed.

Lemma tx_free_get w t th : tx_free w = true -> get_thread (w_threads w) t = Some th -> holds_tx th = false.
Proof. unfold tx_free. intros E. apply negb_true_iff in E. now apply existsb_get. Qed.

(* ---------- I_closed: once the sender is taken no dispatcher is inside a send --------------- *)
Definition is_sending (th : thread) : bool :=
  match th with TClient _ _ (PSending _ _ _) => true | _ => false end.
Definition is_close_sending (th : thread) : bool :=
  match th with TClient _ _ (PCloseSending _ _) => true | _ => false end.

(* the queue: actions, then at most one exit marker, which is last *)
Definition exit_last (l : list (item aid)) : Prop :=
  forall l1 l2, l = l1 ++ IExit :: l2 -> l2 = [].

Definition post_exit (pc : rpc (State := State)) : bool :=
  match pc with
  | RClearLock | RClear _ | RClearCtx _ _ | RClearJoin _ _ | RClearIterSend _ _ _ | RDone => true
  | _ => false
  end.

Definition reducer_pc w : option rpc :=
  match get_thread (w_threads w) reducer_tid with Some (TReducer pc) => Some pc | _ => None end.

Definition inv_closed w : Prop :=
  (* open: no marker in the queue, the sender exists *)
  (w_tx_open w = true -> tx_alive (w_dq w) = true /\ ~ In IExit (q (w_dq w)) /\
                        threads_all (fun th => is_close_sending th = false) (w_threads w)) /\
  (* closed: nobody is inside a dispatch send *)
  (w_tx_open w = false -> threads_all (fun th => is_sending th = false) (w_threads w)) /\
  exit_last (q (w_dq w)).

End WorldStop.
