(* WorldStop.v — closing and stopping (C04, C15): nothing enters the queue after close, the reducer
   leaves its loop with an empty queue, a stopped store stays quiet. *)
From RS Require Import Base Channel ChannelProofs Pipeline PipelineProofs Selector Script World WorldTactics Hist WorldProofs WorldInv WorldQueue.

Section WorldStop.
Context {State : Type}.
Variable cfg : wconfig (State := State).
Notation world := (world (State := State)).
Notation step := (step cfg).
Notation event := (event (State := State)).
Notation thread := (thread (State := State)).
Implicit Types w : World.world (State := State).
Implicit Types h : list event.

(* ---------- free locks: no thread holds them ---------- *)
Lemma existsb_get (f : thread -> bool) (l : list (N * thread)) t th :
  existsb (fun p => f (snd p)) l = false -> get_thread l t = Some th -> f th = false.
Proof.
  induction l as [|[t' th'] r IH]; cbn; [discriminate|].
  intros E. apply orb_false_iff in E. destruct E as [E1 E2].
  destruct (N.eqb t t'); [intros G; injection G as <-; exact E1|now apply IH].
Qed.

Lemma tx_free_get w t th : tx_free w = true -> get_thread (w_threads w) t = Some th -> holds_tx th = false.
Proof. unfold tx_free. intros E. apply negb_true_iff in E. now apply existsb_get. Qed.

(* ---------- the close protocol ------------------------------------------------------------
   open:    the sender exists, no exit marker is queued, nobody is sending the marker
   closing: the sender has been taken; its owner is inside the send of the marker (holding TX);
            no dispatcher is inside a send
   closed:  the marker was sent (or lost under DropLatest) and the queue is disconnected; nothing is
            sent any more; the marker, if queued, is the last item; once the reducer has left its
            loop the queue is empty *)
Definition is_sending (th : thread) : bool :=
  match th with TClient _ _ (PSending _ _ _) => true | _ => false end.
Definition is_close_sending (th : thread) : bool :=
  match th with TClient _ _ (PCloseSending _ _) => true | _ => false end.
Definition post_exit (pc : rpc (State := State)) : bool :=
  match pc with
  | RClearLock | RClear _ | RClearCtx _ _ | RClearJoin _ _ | RClearIterSend _ _ _ | RDone => true
  | _ => false
  end.
Definition is_post (th : thread) : bool := match th with TReducer pc => post_exit pc | _ => false end.

Definition exit_last (l : list (item aid)) : Prop := forall l1 l2, l = l1 ++ IExit :: l2 -> l2 = [].

Definition th_open (th : thread) : Prop := is_close_sending th = false /\ is_post th = false.
Definition th_closing (th : thread) : Prop := is_sending th = false /\ is_post th = false.
Definition th_closed (th : thread) : Prop := is_sending th = false /\ is_close_sending th = false.
Definition th_not_post (th : thread) : Prop := is_post th = false.

Definition threads_all_but (tc : N) (P : thread -> Prop) (l : list (N * thread)) : Prop :=
  forall t th, t <> tc -> get_thread l t = Some th -> P th.
Lemma threads_all_but_put tc P l t th :
  threads_all_but tc P l -> (t = tc \/ P th) -> threads_all_but tc P (put_thread l t th).
Proof.
  intros H Hp t0 th0 Hne G. destruct (N.eq_dec t0 t) as [->|Hn].
  - rewrite get_put_same in G. injection G as <-. destruct Hp; [contradiction|assumption].
  - rewrite get_put_other in G by assumption. eapply H; eauto.
Qed.

Lemma threads_all_put_but tc P l th :
  threads_all_but tc P l -> P th -> threads_all P (put_thread l tc th).
Proof.
  intros H Hp t0 th0 G. destruct (N.eq_dec t0 tc) as [->|Hn].
  - rewrite get_put_same in G. now injection G as <-.
  - rewrite get_put_other in G by assumption. eapply H; eauto.
Qed.

Inductive close_state w : Prop :=
| CSOpen : w_tx_open w = true -> tx_alive (w_dq w) = true -> ~ In IExit (q (w_dq w)) ->
           threads_all th_open (w_threads w) -> close_state w
| CSClosing : w_tx_open w = false -> tx_alive (w_dq w) = true -> ~ In IExit (q (w_dq w)) ->
           threads_all th_closing (w_threads w) ->
           (exists tc, threads_all_but tc (fun th => is_close_sending th = false) (w_threads w)) ->
           close_state w
| CSClosed : w_tx_open w = false -> tx_alive (w_dq w) = false -> exit_last (q (w_dq w)) ->
           threads_all th_closed (w_threads w) ->
           (threads_all th_not_post (w_threads w) \/ q (w_dq w) = []) -> close_state w.

Lemma exit_last_nil : exit_last [].
Proof. intros l1 l2 E. destruct l1; discriminate. Qed.
Lemma exit_last_no_exit l : ~ In IExit l -> exit_last l.
Proof. intros N l1 l2 E. exfalso. apply N. rewrite E. apply in_or_app. right. now left. Qed.
Lemma exit_last_snoc_exit l : ~ In IExit l -> exit_last (l ++ [IExit]).
Proof.
  intros N l1 l2 E. destruct l2 as [|y l2]; [reflexivity|exfalso].
  assert (L : l1 ++ IExit :: y :: l2 = (l1 ++ [IExit]) ++ y :: l2) by (rewrite <- app_assoc; reflexivity).
  rewrite L in E. destruct l2 as [|z l2] using rev_ind.
  - apply app_inj_tail in E. destruct E as [E _]. apply N. rewrite E. apply in_or_app. right. now left.
  - clear IHl2. rewrite app_comm_cons, app_assoc in E. apply app_inj_tail in E. destruct E as [E _].
    apply N. rewrite E. apply in_or_app. left. apply in_or_app. right. now left.
Qed.
Lemma exit_last_tail x l : exit_last (x :: l) -> exit_last l.
Proof. intros H l1 l2 E. apply (H (x :: l1) l2). cbn. now rewrite E. Qed.
Lemma exit_last_head_exit l : exit_last (IExit :: l) -> l = [].
Proof. intros H. apply (H [] l). reflexivity. Qed.


(* ---------- what a dispatch-queue phase does, as far as the close protocol cares ---------- *)
Definition same_ctl w w1 : Prop :=
  w_tx_open w1 = w_tx_open w /\ w_threads w1 = w_threads w /\ w_pool w1 = w_pool w /\
  w_subs w1 = w_subs w /\ w_next_tid w1 = w_next_tid w /\ w_state w1 = w_state w /\
  w_reducers w1 = w_reducers w /\ w_mws w1 = w_mws w /\ w_lasts w1 = w_lasts w /\
  w_iter_done w1 = w_iter_done w.

Lemma dq_phase_frame w x ph w1 sr : dq_phase w x ph = Some (w1, sr) ->
  tx_alive (w_dq w1) = tx_alive (w_dq w) /\ w_chans w1 = w_chans w /\ same_ctl w w1 /\
  ((q (w_dq w1) = q (w_dq w) ++ [x] /\ sr = SDone true) \/
   (exists old, q (w_dq w) = old :: q (w_dq w1) /\ sr = SMore SDo3) \/
   (q (w_dq w1) = q (w_dq w) /\ sr <> SDone true)).
Proof.
  unfold dq_phase. destruct (send_phase (w_dq w) x ph) as [[[dq' sr'] dr]|] eqn:E; [|discriminate].
  intros H; injection H as <- <-. cbn.
  pose proof (send_phase_inv _ _ _ _ _ _ E) as (_ & _ & T & _).
  split; [exact T|split; [reflexivity|split; [repeat split|]]].
  apply send_phase_contents in E. destruct E as [(Q & -> & _)|[(old & Q & _ & -> & _ & _)|(Q & NT & _)]].
  - left. auto.
  - right; left. eauto.
  - right; right. split; [exact Q|]. intros ->. now apply NT.
Qed.

Lemma dq_phase_no_exit_act w a ph w1 sr : dq_phase w (IAct a) ph = Some (w1, sr) ->
  ~ In IExit (q (w_dq w)) -> ~ In IExit (q (w_dq w1)).
Proof.
  intros H N. apply dq_phase_frame in H. destruct H as (_ & _ & _ & [(Q & _)|[(old & Q & _)|(Q & _)]]).
  - rewrite Q. intros I. apply in_app_or in I. destruct I as [I|[I|[]]]; [now apply N|discriminate].
  - intros I. apply N. rewrite Q. now right.
  - now rewrite Q.
Qed.
Lemma dq_phase_no_exit_more w x ph w1 ph' : dq_phase w x ph = Some (w1, SMore ph') ->
  ~ In IExit (q (w_dq w)) -> ~ In IExit (q (w_dq w1)).
Proof.
  intros H N. apply dq_phase_frame in H. destruct H as (_ & _ & _ & [(_ & E)|[(old & Q & _)|(Q & _)]]).
  - discriminate.
  - intros I. apply N. rewrite Q. now right.
  - now rewrite Q.
Qed.
Lemma dq_phase_exit_done w ph w1 ok : dq_phase w IExit ph = Some (w1, SDone ok) ->
  ~ In IExit (q (w_dq w)) -> exit_last (q (w_dq w1)).
Proof.
  intros H N. apply dq_phase_frame in H. destruct H as (_ & _ & _ & [(Q & _)|[(old & Q & E)|(Q & _)]]).
  - rewrite Q. now apply exit_last_snoc_exit.
  - discriminate.
  - rewrite Q. now apply exit_last_no_exit.
Qed.

Lemma sub_phase_frame w sid x ph w1 sr : sub_phase w sid x ph = Some (w1, sr) ->
  w_dq w1 = w_dq w /\ same_ctl w w1.
Proof.
  unfold sub_phase. destruct (get_chan (w_chans w) sid) as [c|].
  - destruct (send_phase c x ph) as [[[c' sr'] dr]|]; [|discriminate].
    intros H; injection H as <- <-. cbn. split; [reflexivity|repeat split].
  - intros H; injection H as <- <-. split; [reflexivity|repeat split].
Qed.

(* frame facts of the phases that occurred in a leaf *)
Ltac use_frames :=
  repeat match goal with
  | H : dq_phase _ _ _ = Some (_, _) |- _ =>
      let F := fresh "FR" in pose proof (dq_phase_frame _ _ _ _ _ H) as F;
      destruct F as (? & ? & (? & ? & ? & ? & ? & ? & ? & ? & ? & ?) & _); revert H
  | H : sub_phase _ _ _ _ = Some (_, _) |- _ =>
      let F := fresh "FR" in pose proof (sub_phase_frame _ _ _ _ _ _ H) as F;
      destruct F as (? & (? & ? & ? & ? & ? & ? & ? & ? & ? & ?)); revert H
  end; intros.

Ltac rew_frames :=
  simp_world;
  repeat match goal with
  | E : w_threads ?w1 = _ |- context [w_threads ?w1] => rewrite E
  | E : w_tx_open ?w1 = _ |- context [w_tx_open ?w1] => rewrite E
  | E : tx_alive (w_dq ?w1) = _ |- context [tx_alive (w_dq ?w1)] => rewrite E
  | E : w_dq ?w1 = _ |- context [w_dq ?w1] => rewrite E
  | E : w_next_tid ?w1 = _ |- context [w_next_tid ?w1] => rewrite E
  | E : w_pool ?w1 = _ |- context [w_pool ?w1] => rewrite E
  | E : w_subs ?w1 = _ |- context [w_subs ?w1] => rewrite E
  | E : w_chans ?w1 = _ |- context [w_chans ?w1] => rewrite E
  | E : w_state ?w1 = _ |- context [w_state ?w1] => rewrite E
  | E : w_reducers ?w1 = _ |- context [w_reducers ?w1] => rewrite E
  | E : w_mws ?w1 = _ |- context [w_mws ?w1] => rewrite E
  | E : w_lasts ?w1 = _ |- context [w_lasts ?w1] => rewrite E
  | E : w_iter_done ?w1 = _ |- context [w_iter_done ?w1] => rewrite E
  end; simp_world.

Lemma holds_tx_false th : holds_tx th = false -> is_sending th = false /\ is_close_sending th = false.
Proof. destruct th as [r p pc| |]; [destruct pc|..]; cbn; intros; auto; discriminate. Qed.

Ltac recv_facts :=
  repeat match goal with
  | H : recv ?c = Some (?o, ?c') |- _ =>
      let F := fresh "RF" in pose proof (recv_some _ _ _ H) as F; destruct F as (? & ? & ? & ?); revert H
  end; intros.

Ltac ta_solve TA :=
  rew_frames;
  repeat (apply threads_all_put; [|unfold th_open, th_closing, th_closed, th_not_post; cbn; auto]);
  first [ exact TA
        | (let t0 := fresh in let th0 := fresh in let G0 := fresh in
           intros t0 th0 G0; specialize (TA t0 th0 G0);
           unfold th_open, th_closing, th_closed, th_not_post in *; tauto) ].

Ltac no_exit NE :=
  rew_frames;
  first [ exact NE
        | (eapply dq_phase_no_exit_act; [eassumption|exact NE])
        | (eapply dq_phase_no_exit_more; [eassumption|exact NE])
        | (match goal with Q : q ?c = _ :: q ?c' |- ~ In IExit (q ?c') =>
             let I := fresh in intros I; apply NE; rewrite Q; right; exact I end) ].

Lemma open_free_upgrade w : tx_free w = true -> threads_all th_open (w_threads w) ->
  threads_all (fun th => th_closing th /\ th_closed th /\ th_not_post th) (w_threads w).
Proof.
  intros F TA t th G. destruct (TA t th G) as [C P]. pose proof (tx_free_get w t th F G) as HT.
  apply holds_tx_false in HT. destruct HT as [S _]. unfold th_closing, th_closed, th_not_post. auto.
Qed.

Ltac but_solve TB :=
  destruct TB as [tc TB]; exists tc; rew_frames;
  repeat (apply threads_all_but_put; [|first [right; reflexivity | idtac]]);
  first [ exact TB | idtac ].

Theorem step_close w t w' : close_state w -> step w t = Some w' -> close_state w'.
Proof.
  intros CS H. step_cases H; use_frames; recv_facts.
  all: destruct CS as [O A NE TA|O A NE TA TB|O A EL TA PQ].
  all: try congruence.
  all: try (match goal with G : get_thread (w_threads _) _ = Some _ |- _ =>
              let F := fresh "F" in pose proof (TA _ _ G) as F; cbn in F; destruct F; discriminate end).
  (* most steps stay in the same state *)
  all: try (apply CSOpen; [rew_frames; congruence|rew_frames; congruence|no_exit NE|ta_solve TA]; fail).
  all: try (apply CSClosing; [rew_frames; congruence|rew_frames; congruence|no_exit NE|ta_solve TA|but_solve TB]; fail).
  (* closed stays closed *)
  all: try (apply CSClosed;
            [ rew_frames; congruence | rew_frames; congruence
            | rew_frames; first [exact EL | (match goal with Q : q ?c = _ :: q ?c' |- exit_last (q ?c') =>
                                               rewrite Q in EL; eapply exit_last_tail; exact EL end)]
            | ta_solve TA
            | rew_frames; destruct PQ as [PQ|PQ];
              [ first [ solve [left; ta_solve PQ]
                      | (exfalso; match goal with G : get_thread (w_threads _) _ = Some _ |- _ =>
                                   let F := fresh in pose proof (PQ _ _ G) as F; cbn in F; discriminate F end)
                      | right; first [ assumption
                                     | (match goal with Q : q ?c = IExit :: q ?c' |- q ?c' = [] =>
                                          rewrite Q in EL; exact (exit_last_head_exit _ EL) end)
                                     | tauto ] ]
              | right; first [ exact PQ | congruence
                             | (match goal with Q : q ?c = _ :: _ |- _ => rewrite PQ in Q; discriminate end) ] ] ]; fail).
  (* the marker cannot be received while it is known not to be queued *)
  all: try (match goal with Q : q ?c = IExit :: _, NE : ~ In IExit (q ?c) |- _ =>
              exfalso; apply NE; rewrite Q; left; reflexivity end).
  all: try (match goal with Q : q ?c = [] /\ _ , A : tx_alive ?c = true |- _ =>
              destruct Q as (_ & _ & Q); congruence end).
  (* closing: only the closer itself is inside the send of the marker *)
  all: try (destruct TB as [tc TB];
       (destruct (N.eq_dec t tc) as [E|Hne];
        [subst tc|exfalso; pose proof (TB _ _ Hne Heqo) as F; discriminate F]);
       assert (TC : threads_all_but t th_closed (w_threads w))
         by (intros t0 th0 Hn G0; split; [apply (TA t0 th0 G0)|exact (TB t0 th0 Hn G0)]);
       assert (TP : threads_all th_not_post (w_threads w)) by (intros t0 th0 G0; apply (TA t0 th0 G0))).
  (* open -> closing: close() took the sender and is parked inside the send of the marker *)
  - pose proof (open_free_upgrade w Heqb TA) as TU.
    apply CSClosing; [rew_frames; reflexivity|rew_frames; exact A
                     |rew_frames; exact (dq_phase_no_exit_more _ _ _ _ _ Heqo0 NE)| |exists t].
    + rew_frames. apply threads_all_put; [|split; reflexivity].
      intros t0 th0 G0. apply (TU t0 th0 G0).
    + rew_frames. apply threads_all_but_put; [|left; reflexivity].
      intros t0 th0 _ G0. apply (TU t0 th0 G0).
  (* open -> closed: the marker was sent (or rejected) at once *)
  - pose proof (open_free_upgrade w Heqb TA) as TU.
    apply CSClosed; [rew_frames; reflexivity|rew_frames; reflexivity
                    |rew_frames; exact (dq_phase_exit_done _ _ _ _ Heqo0 NE)| |left].
    + rew_frames. apply threads_all_put; [|split; reflexivity]. intros t0 th0 G0. apply (TU t0 th0 G0).
    + rew_frames. apply threads_all_put; [|reflexivity]. intros t0 th0 G0. apply (TU t0 th0 G0).
  - pose proof (open_free_upgrade w Heqb TA) as TU.
    apply CSClosed; [rew_frames; reflexivity|rew_frames; reflexivity
                    |rew_frames; exact (dq_phase_exit_done _ _ _ _ Heqo0 NE)| |left].
    + rew_frames. apply threads_all_put; [|split; reflexivity]. intros t0 th0 G0. apply (TU t0 th0 G0).
    + rew_frames. apply threads_all_put; [|reflexivity]. intros t0 th0 G0. apply (TU t0 th0 G0).
  - pose proof (open_free_upgrade w Heqb TA) as TU.
    apply CSClosed; [rew_frames; reflexivity|rew_frames; reflexivity
                    |rew_frames; exact (dq_phase_exit_done _ _ _ _ Heqo0 NE)| |left].
    + rew_frames. apply threads_all_put; [|split; reflexivity]. intros t0 th0 G0. apply (TU t0 th0 G0).
    + rew_frames. apply threads_all_put; [|reflexivity]. intros t0 th0 G0. apply (TU t0 th0 G0).
  - apply CSClosing; [rew_frames; congruence|rew_frames; congruence
                     |rew_frames; exact (dq_phase_no_exit_more _ _ _ _ _ Heqo0 NE)| |exists t].
    + rew_frames. apply threads_all_put; [exact TA|split; reflexivity].
    + rew_frames. apply threads_all_but_put; [exact TB|left; reflexivity].
  - apply CSClosed; [rew_frames; congruence|rew_frames; reflexivity
                    |rew_frames; exact (dq_phase_exit_done _ _ _ _ Heqo0 NE)| |left].
    + rew_frames. apply threads_all_put_but; [exact TC|split; reflexivity].
    + rew_frames. apply threads_all_put; [exact TP|reflexivity].
  - apply CSClosed; [rew_frames; congruence|rew_frames; reflexivity
                    |rew_frames; exact (dq_phase_exit_done _ _ _ _ Heqo0 NE)| |left].
    + rew_frames. apply threads_all_put_but; [exact TC|split; reflexivity].
    + rew_frames. apply threads_all_put; [exact TP|reflexivity].
  - apply CSClosed; [rew_frames; congruence|rew_frames; reflexivity
                    |rew_frames; exact (dq_phase_exit_done _ _ _ _ Heqo0 NE)| |left].
    + rew_frames. apply threads_all_put_but; [exact TC|split; reflexivity].
    + rew_frames. apply threads_all_put; [exact TP|reflexivity].
Qed.

Lemma init_close reducers mws progs : close_state (init_world cfg reducers mws progs).
Proof.
  apply CSOpen; try reflexivity; [intros []|].
  intros t th G. unfold init_world in G. cbn in G.
  assert (A : forall l i, get_thread (client_threads (State := State) i l ++ [(reducer_tid, TReducer RRecv)]) t = Some th ->
              th_open th).
  { induction l as [|p r IH]; intros i; cbn.
    - destruct (N.eqb t reducer_tid); [|discriminate]. intros E; injection E as <-. split; reflexivity.
    - destruct (N.eqb t i); [intros E; injection E as <-; split; reflexivity|apply IH]. }
  eapply A; eauto.
Qed.

Theorem reachable_close reducers mws progs w :
  reachable cfg reducers mws progs w -> close_state w.
Proof.
  intros [sched H]. eapply (run_invariant cfg close_state); [|apply init_close|exact H].
  intros; eapply step_close; eauto.
Qed.


(* ---------- the reducer thread exists and is never overwritten ---------- *)
Definition inv_tids w : Prop :=
  (exists pc, get_thread (w_threads w) reducer_tid = Some (TReducer pc)) /\ (1000 <= w_next_tid w)%N.

Lemma reducer_put_other (l : list (N * thread)) t th pc :
  t <> reducer_tid -> get_thread l reducer_tid = Some (TReducer pc) ->
  get_thread (put_thread l t th) reducer_tid = Some (TReducer pc).
Proof. intros Hne G. rewrite get_put_other; auto. Qed.

Theorem step_tids w t w' : inv_tids w -> step w t = Some w' -> inv_tids w'.
Proof.
  intros [[pc0 R] NT] H. step_cases H; use_frames.
  all: try (apply N.eqb_eq in Heqb; subst t).
  all: split; [|rew_frames; unfold first_worker_tid in *; try lia].
  all: rew_frames.
  all: try (eexists; apply get_put_same).
  all: repeat match goal with
       | |- context [get_thread (put_thread _ ?t0 _) reducer_tid] =>
           rewrite (get_put_other _ t0 reducer_tid) by
             (first [ (intros E0; rewrite <- E0 in *; congruence)
                    | (unfold chan_tid, reducer_tid; lia)
                    | (unfold reducer_tid; lia) ])
       end.
  all: try (eexists; exact R).
Qed.


Lemma client_threads_get (progs : list (list call)) : forall i t th,
  get_thread (client_threads (State := State) i progs ++ [(reducer_tid, TReducer RRecv)]) t = Some th ->
  (t < i + N.of_nat (length progs))%N \/ (t = reducer_tid /\ th = TReducer RRecv).
Proof.
  induction progs as [|p r IH]; intros i t th; cbn [client_threads app get_thread length].
  - destruct (N.eqb_spec t reducer_tid); [|discriminate]. intros E; injection E as <-. right. auto.
  - destruct (N.eqb_spec t i).
    + intros _. left. lia.
    + intros G. apply IH in G. destruct G as [G|G]; [left; lia|right; exact G].
Qed.

Lemma client_threads_reducer (progs : list (list call)) : forall i,
  (i + N.of_nat (length progs) <= reducer_tid)%N ->
  get_thread (client_threads (State := State) i progs ++ [(reducer_tid, TReducer RRecv)]) reducer_tid
  = Some (TReducer RRecv).
Proof.
  induction progs as [|p r IH]; intros i L; cbn [client_threads app get_thread length] in *.
  - now rewrite N.eqb_refl.
  - destruct (N.eqb_spec reducer_tid i); [lia|]. apply IH. lia.
Qed.

(* at most 100 client programs: their tids 0..n-1 stay below the reducer's *)
Lemma init_tids reducers mws progs : (length progs <= 100)%nat ->
  inv_tids (init_world cfg reducers mws progs).
Proof.
  intros L. split; [|unfold init_world; cbn; unfold first_worker_tid; lia].
  exists RRecv. unfold init_world. cbn [w_threads]. apply client_threads_reducer. unfold reducer_tid. lia.
Qed.

Theorem reachable_tids reducers mws progs w : (length progs <= 100)%nat ->
  reachable cfg reducers mws progs w -> inv_tids w.
Proof.
  intros L [sched H]. eapply (run_invariant cfg inv_tids); [|apply init_tids; exact L|exact H].
  intros; eapply step_tids; eauto.
Qed.

(* ---------- the pool join ---------- *)
Lemma forallb_get (f : thread -> bool) (l : list (N * thread)) t th :
  forallb (fun p => f (snd p)) l = true -> get_thread l t = Some th -> f th = true.
Proof.
  induction l as [|[t' th'] r IH]; cbn; [discriminate|].
  intros E. apply andb_true_iff in E. destruct E as [E1 E2].
  destruct (N.eqb t t'); [intros G; injection G as <-; exact E1|now apply IH].
Qed.

Lemma pool_idle_reducer w pc : pool_idle w = true ->
  get_thread (w_threads w) reducer_tid = Some (TReducer pc) -> pc = RDone.
Proof.
  unfold pool_idle. intros F G.
  pose proof (forallb_get (fun th => negb (is_pool_thread th) || thread_finished th) _ _ _ F G) as E. cbn in E.
  destruct pc; try discriminate; reflexivity.
Qed.

(* when the reducer has left its loop the store is closed and the queue is empty *)
Lemma reducer_done_closed w : close_state w ->
  get_thread (w_threads w) reducer_tid = Some (TReducer RDone) ->
  w_tx_open w = false /\ tx_alive (w_dq w) = false /\ q (w_dq w) = [].
Proof.
  intros CS G. destruct CS as [O A NE TA|O A NE TA TB|O A EL TA PQ].
  - destruct (TA _ _ G) as [_ F]. discriminate.
  - destruct (TA _ _ G) as [_ F]. discriminate.
  - split; [exact O|split; [exact A|]]. destruct PQ as [PQ|PQ]; [|exact PQ].
    pose proof (PQ _ _ G) as F. discriminate.
Qed.


(* ---------- C04: the barrier ---------- *)
Theorem stop_barrier reducers mws progs w : (length progs <= 100)%nat ->
  reachable cfg reducers mws progs w -> pool_idle w = true ->
  get_thread (w_threads w) reducer_tid = Some (TReducer RDone) /\
  w_tx_open w = false /\ q (w_dq w) = [] /\
  (cfg_pol cfg = Block -> rev (enqs (w_hist w)) = rev (deqs (w_hist w))).
Proof.
  intros L R PI.
  destruct (reachable_tids reducers mws progs w L R) as [[pc G] _].
  pose proof (pool_idle_reducer w pc PI G) as ->.
  pose proof (reachable_close reducers mws progs w R) as CS.
  destruct (reducer_done_closed w CS G) as (O & _ & Q).
  split; [exact G|split; [exact O|split; [exact Q|]]].
  intros B. destruct (block_lossless cfg w (reachable_queue cfg reducers mws progs w R) B) as (_ & _ & E).
  rewrite E, Q. cbn. now rewrite app_nil_r.
Qed.

(* ---------- C04: a stopped store stays quiet ---------- *)
(* events that must not happen any more: reducer-context callbacks, effect runs, queue traffic,
   write-backs, accepted dispatches *)
Definition loud (e : event) : bool :=
  match e with
  | ECb XReducer _ => true
  | ECb _ (CbEffectRun _) => true
  | EEnq _ | EEnqExit | EDeq _ | EWrite _ _ | ESpawn _ _ => true
  | ERet _ (CDispatch _ _) ROk => true
  | _ => false
  end.

Definition stopped w : Prop :=
  close_state w /\ inv_tids w /\ pool_idle w = true /\ w_pool w = false.

Lemma forallb_put (f : thread -> bool) (l : list (N * thread)) t th :
  forallb (fun p => f (snd p)) l = true -> f th = true ->
  forallb (fun p => f (snd p)) (put_thread l t th) = true.
Proof.
  intros H Hf. induction l as [|[t' th'] r IH]; cbn in *.
  - now rewrite Hf.
  - apply andb_true_iff in H. destruct H as [H1 H2].
    destruct (N.eqb t t'); cbn; [now rewrite Hf, H2|rewrite H1; now apply IH].
Qed.

Lemma loud_cb_chan sid (c : cb State aid) :
  (forall k, c <> CbEffectRun k) -> loud (ECb (XChan sid) c) = false.
Proof. destruct c; cbn; intros H; try reflexivity. exfalso. now apply (H k). Qed.


Definition louds h := filter loud h.

Lemma louds_app h1 h2 : louds (h1 ++ h2) = louds h1 ++ louds h2.
Proof. apply filter_app. Qed.
Lemma louds_sub_events sid x sr dr : louds (rev (sub_events (State := State) sid x sr dr)) = [].
Proof.
  unfold sub_events. rewrite rev_app_distr, louds_app.
  assert (D : forall (l : list (State * aid)), louds (rev (map (fun _ => ESubDrop (State := State) sid) l)) = []).
  { induction l as [|c r IH]; [reflexivity|]. cbn. rewrite louds_app, IH. reflexivity. }
  rewrite D, app_nil_r. destruct sr as [ph|[|]]; [|destruct x as [[s a]|]|]; reflexivity.
Qed.

Lemma louds_cons e h : louds (e :: h) = if loud e then e :: louds h else louds h.
Proof. reflexivity. Qed.

Lemma sub_phase_louds w sid x ph w1 sr : sub_phase w sid x ph = Some (w1, sr) ->
  louds (w_hist w1) = louds (w_hist w).
Proof.
  unfold sub_phase. destruct (get_chan (w_chans w) sid) as [c|].
  - destruct (send_phase c x ph) as [[[c' sr'] dr]|]; [|discriminate].
    intros H; injection H as <- <-. cbn. now rewrite louds_app, louds_sub_events.
  - intros H; injection H as <- <-. reflexivity.
Qed.

Theorem step_stopped w t w' : stopped w -> step w t = Some w' ->
  stopped w' /\ louds (w_hist w') = louds (w_hist w) /\ w_state w' = w_state w.
Proof.
  intros (CS & TI & PI & PO) H.
  assert (CS' : close_state w') by (eapply step_close; eauto).
  assert (TI' : inv_tids w') by (eapply step_tids; eauto).
  destruct TI as [[pc G] _]. pose proof (pool_idle_reducer w pc PI G) as ->.
  destruct (reducer_done_closed w CS G) as (O & A & Q).
  assert (PIG : forall t0 th0, get_thread (w_threads w) t0 = Some th0 ->
                negb (is_pool_thread th0) || thread_finished th0 = true).
  { intros t0 th0 G0. exact (forallb_get (fun th => negb (is_pool_thread th) || thread_finished th) _ _ _ PI G0). }
  step_cases H; use_frames.
  (* the reducer is done, pool threads are finished: their steps do not exist *)
  all: try (apply N.eqb_eq in Heqb; subst t; rewrite G in Heqo; discriminate Heqo).
  all: try congruence.
  (* a pool worker cannot be the stepping thread *)
  all: try (match goal with G0 : get_thread (w_threads _) _ = Some (TClient ?r ?p ?pc) |- _ =>
              pose proof (PIG _ _ G0) as PF; cbn in PF;
              first
              [ is_var r; destruct r as [|?];
                [clear PF
                |exfalso; cbn in PF;
                 repeat match type of PF with context [match ?x with _ => _ end] => destruct x end;
                 cbn in PF; discriminate PF]
              | lazymatch r with
                | Client => clear PF
                | Worker _ =>
                    exfalso; cbn in PF;
                    repeat match type of PF with context [match ?x with _ => _ end] => destruct x end;
                    cbn in PF; discriminate PF
                end ] end).
  (* no send on the dispatch queue happens in a closed store *)
  all: try (match goal with G0 : get_thread (w_threads _) _ = Some (TClient _ _ _) |- _ =>
              let CS0 := fresh in pose proof CS as CS0;
              destruct CS0 as [O1 _ _ _|O1 A1 _ _ _|_ _ _ TA1 _]; [congruence|congruence|];
              let F := fresh in pose proof (TA1 _ _ G0) as F; cbn in F; destruct F; discriminate end).
  (* what remains: clients and channeled threads; nothing loud, the pool stays idle *)
  all: split; [split; [exact CS'|split; [exact TI'|split]]|split].
  all: try (rew_frames; exact PO).
  all: try (rew_frames; reflexivity).
  all: try (unfold pool_idle in *; rew_frames; repeat (apply (forallb_put (fun th => negb (is_pool_thread th) || thread_finished th)); [|reflexivity]); first [exact PI|assumption]).
  all: try (rew_frames; rewrite ?louds_cons; cbn [loud];
            repeat match goal with H : sub_phase _ _ _ _ = Some (?w1, _) |- context [w_hist ?w1] =>
                     rewrite (sub_phase_louds _ _ _ _ _ _ H) end;
            repeat (break_goal_match; cbn [loud]); reflexivity).
Qed.

(* ... and for ever: along every continuation of the run *)
Theorem run_stopped : forall sched w w', stopped w -> run cfg w sched = Some w' ->
  stopped w' /\ louds (w_hist w') = louds (w_hist w) /\ w_state w' = w_state w.
Proof.
  induction sched as [|t r IH]; intros w w' S H; cbn in H.
  - injection H as <-. auto.
  - destruct (step w t) as [w1|] eqn:E; [|discriminate].
    destruct (step_stopped w t w1 S E) as (S1 & L1 & ST1).
    destruct (IH w1 w' S1 H) as (S2 & L2 & ST2). split; [exact S2|split; congruence].
Qed.

(* the world in which a stop() that took the pool returns is a stopped world *)
Theorem stop_return_stopped reducers mws progs w : (length progs <= 100)%nat ->
  reachable cfg reducers mws progs w -> pool_idle w = true -> w_pool w = false -> stopped w.
Proof.
  intros L R PI PO. split; [eapply reachable_close; eauto|split; [eapply reachable_tids; eauto|auto]].
Qed.

End WorldStop.

(* the same tactics, for use outside this file *)
Ltac use_frames :=
  repeat match goal with
  | H : dq_phase _ _ _ = Some (_, _) |- _ =>
      let F := fresh "FR" in pose proof H as F; apply dq_phase_frame in F;
      destruct F as (? & ? & (? & ? & ? & ? & ? & ? & ? & ? & ? & ?) & _); revert H
  | H : sub_phase _ _ _ _ = Some (_, _) |- _ =>
      let F := fresh "FR" in pose proof H as F; apply sub_phase_frame in F;
      destruct F as (? & (? & ? & ? & ? & ? & ? & ? & ? & ? & ?)); revert H
  end; intros.

Ltac rew_frames :=
  simp_world;
  repeat match goal with
  | E : w_threads ?w1 = _ |- context [w_threads ?w1] => rewrite E
  | E : w_tx_open ?w1 = _ |- context [w_tx_open ?w1] => rewrite E
  | E : tx_alive (w_dq ?w1) = _ |- context [tx_alive (w_dq ?w1)] => rewrite E
  | E : w_dq ?w1 = _ |- context [w_dq ?w1] => rewrite E
  | E : w_next_tid ?w1 = _ |- context [w_next_tid ?w1] => rewrite E
  | E : w_pool ?w1 = _ |- context [w_pool ?w1] => rewrite E
  | E : w_subs ?w1 = _ |- context [w_subs ?w1] => rewrite E
  | E : w_chans ?w1 = _ |- context [w_chans ?w1] => rewrite E
  | E : w_state ?w1 = _ |- context [w_state ?w1] => rewrite E
  | E : w_reducers ?w1 = _ |- context [w_reducers ?w1] => rewrite E
  | E : w_mws ?w1 = _ |- context [w_mws ?w1] => rewrite E
  | E : w_lasts ?w1 = _ |- context [w_lasts ?w1] => rewrite E
  | E : w_iter_done ?w1 = _ |- context [w_iter_done ?w1] => rewrite E
  end; simp_world.

(* a thread-table invariant after a step: the stepping thread's new entry satisfies it *)
Ltac solve_threads_all T :=
  rew_frames; repeat (apply threads_all_put; [|cbn; eauto]); try exact T.

