(* WorldFold.v — the state is the sequential fold of the per-action pipeline over the actions the
   reducer has taken (C01), for programs that do not register reducers or middlewares at run time
   (the registries are then constant; runtime registration is C07's subject). *)
From RS Require Import Base Channel ChannelProofs Pipeline PipelineProofs Selector Script World WorldTactics Hist WorldProofs WorldInv WorldQueue WorldStop.

Section WorldFold.
Context {State : Type}.
Variable cfg : wconfig (State := State).
Variables RS0 MS0 : list N.      (* the registries, fixed at build time *)
Notation world := (world (State := State)).
Notation step := (step cfg).
Notation event := (event (State := State)).
Notation thread := (thread (State := State)).
Implicit Types w : World.world (State := State).
Implicit Types h : list event.

Definition MWS := map (cfg_mw cfg) MS0.
Definition RS := map (cfg_reducer cfg) RS0.
Definition init0 := cfg_init cfg.

(* what one action does to the state *)
Definition step_fn (s : State) (a : aid) : State := post_state MWS RS s a.

(* the write-backs (newest first) form a chain: each is step_fn of the previous one *)
Fixpoint chain_ok (ws : list (aid * State)) : Prop :=
  match ws with
  | [] => True
  | (a, s) :: r => s = step_fn (prev_state init0 r) a /\ chain_ok r
  end.

(* ---------- static programs ---------- *)
Definition static_call (c : call) : Prop :=
  match c with CAddReducer _ | CAddMiddleware _ => False | _ => True end.
Definition static_thread (th : thread) : Prop :=
  match th with TClient _ prog _ => Forall static_call prog | _ => True end.

Lemma static_body b : Forall static_call (calls_of_body b).
Proof. induction b as [|[e a| |] r IH]; cbn; auto; constructor; cbn; auto. Qed.
Lemma static_eff e : Forall static_call (prog_of_eff e).
Proof. unfold prog_of_eff. destruct (e_kind e); try apply static_body. constructor; cbn; auto. Qed.

(* ---------- the reducer's program counter, relative to the history ---------- *)
Definition pc_ok (D : list aid) (WS : list (aid * State)) (cur : State) (pc : rpc (State := State)) : Prop :=
  match pc with
  | RBeforeReduce a => D = a :: map fst WS
  | RReduce a go => D = a :: map fst WS /\ go = negb (vetoed MWS a cur)
  | RWrite a s _ _ => D = a :: map fst WS /\ s = step_fn cur a
  | _ => D = map fst WS
  end.

Definition red_ok w : Prop :=
  forall pc, get_thread (w_threads w) reducer_tid = Some (TReducer pc) ->
             pc_ok (deqs (w_hist w)) (writes (w_hist w)) (w_state w) pc.

Definition inv_fold w : Prop :=
  let h := w_hist w in
  w_reducers w = RS0 /\ w_mws w = MS0 /\
  threads_all static_thread (w_threads w) /\
  w_state w = prev_state init0 (writes h) /\
  chain_ok (writes h) /\
  red_ok w.

Definition fold_core w : Prop :=
  w_reducers w = RS0 /\ w_mws w = MS0 /\
  w_state w = prev_state init0 (writes (w_hist w)) /\ chain_ok (writes (w_hist w)).

Lemma deqs_dq_events x sr dr : deqs (rev (dq_events (State := State) x sr dr)) = [].
Proof.
  unfold dq_events. rewrite rev_app_distr. unfold deqs. rewrite flat_map_app.
  assert (D : forall (f : aid -> event), (forall a, ev_deq (f a) = []) ->
              forall l, flat_map ev_deq (rev (map f l)) = []).
  { intros f Hf. induction l as [|c r IH]; [reflexivity|]. cbn. rewrite flat_map_app, IH. cbn. now rewrite Hf. }
  destruct sr as [ph|[|]]; [|destruct x|]; rewrite D by reflexivity; reflexivity.
Qed.
Lemma deqs_sub_events sid x sr dr : deqs (rev (sub_events (State := State) sid x sr dr)) = [].
Proof.
  unfold sub_events. rewrite rev_app_distr. unfold deqs. rewrite flat_map_app.
  rewrite (proj_subdrop ev_deq sid dr) by reflexivity. rewrite app_nil_r.
  destruct sr as [ph|[|]]; [|destruct x as [[s a]|]|]; reflexivity.
Qed.

(* the phases change neither the registries, nor the state, nor the write-backs, nor what was taken *)
Lemma dq_phase_fold w x ph w1 sr : dq_phase w x ph = Some (w1, sr) ->
  w_reducers w1 = w_reducers w /\ w_mws w1 = w_mws w /\ w_state w1 = w_state w /\
  writes (w_hist w1) = writes (w_hist w) /\ deqs (w_hist w1) = deqs (w_hist w) /\ w_threads w1 = w_threads w.
Proof.
  unfold dq_phase. destruct (send_phase (w_dq w) x ph) as [[[dq' sr'] dr]|]; [|discriminate].
  intros H; injection H as <- <-. unfold emits, upd_metrics, set_dq, set_hist, set_metrics.
  cbn [w_reducers w_mws w_state w_hist w_threads].
  rewrite writes_app, writes_dq_events, deqs_app, deqs_dq_events. repeat split.
Qed.
Lemma sub_phase_fold w sid x ph w1 sr : sub_phase w sid x ph = Some (w1, sr) ->
  w_reducers w1 = w_reducers w /\ w_mws w1 = w_mws w /\ w_state w1 = w_state w /\
  writes (w_hist w1) = writes (w_hist w) /\ deqs (w_hist w1) = deqs (w_hist w) /\ w_threads w1 = w_threads w.
Proof.
  unfold sub_phase. destruct (get_chan (w_chans w) sid) as [c|]; [|intros H; injection H as <- <-; repeat split].
  destruct (send_phase c x ph) as [[[c' sr'] dr]|]; [|discriminate].
  intros H; injection H as <- <-. unfold emits, upd_metrics, set_chan, set_chans, set_hist, set_metrics.
  cbn [w_reducers w_mws w_state w_hist w_threads].
  rewrite writes_app, writes_sub_events, deqs_app, deqs_sub_events. repeat split.
Qed.

Ltac fold_phases :=
  repeat match goal with
  | HH : dq_phase _ _ _ = Some (_, _) |- _ =>
      apply dq_phase_fold in HH; destruct HH as (? & ? & ? & ? & ? & ?)
  | HH : sub_phase _ _ _ _ = Some (_, _) |- _ =>
      apply sub_phase_fold in HH; destruct HH as (? & ? & ? & ? & ? & ?)
  end.

(* rewrite the projections of the new history back to those of the old one *)
Ltac simp_hist :=
  simp_world; unfold cb_events;
  repeat (progress (unfold writes, deqs;
                    repeat first [ rewrite flat_map_app | rewrite (proj_cb ev_write) by reflexivity
                                 | rewrite (proj_cb ev_deq) by reflexivity ];
                    cbn [flat_map ev_write ev_deq app]));
  repeat match goal with
  | E : flat_map ev_write (w_hist ?w1) = flat_map ev_write (w_hist _) |- context [flat_map ev_write (w_hist ?w1)] => rewrite E
  | E : flat_map ev_deq (w_hist ?w1) = flat_map ev_deq (w_hist _) |- context [flat_map ev_deq (w_hist ?w1)] => rewrite E
  | E : w_state ?w1 = w_state _ |- context [w_state ?w1] => rewrite E
  | E : w_reducers ?w1 = w_reducers _ |- context [w_reducers ?w1] => rewrite E
  | E : w_mws ?w1 = w_mws _ |- context [w_mws ?w1] => rewrite E
  | E : w_threads ?w1 = w_threads _ |- context [w_threads ?w1] => rewrite E
  end.

Theorem step_fold w t w' : inv_fold w -> step w t = Some w' -> inv_fold w'.
Proof.
  intros (R & M & T1 & ST & CH & T2) H. step_cases H; fold_phases.
  all: unfold red_ok in T2; unfold writes, deqs in *.
  (* registering reducers or middlewares at run time is excluded *)
  all: try (match goal with
            | G : get_thread (w_threads _) _ = Some (TClient _ (CAddReducer _ :: _) _) |- _ =>
                let F := fresh in pose proof (T1 _ _ G) as F; cbn in F; inversion F; contradiction
            | G : get_thread (w_threads _) _ = Some (TClient _ (CAddMiddleware _ :: _) _) |- _ =>
                let F := fresh in pose proof (T1 _ _ G) as F; cbn in F; inversion F; contradiction
            end).
  all: unfold inv_fold.
  all: split; [simp_hist; first [assumption|reflexivity|congruence]
             |split; [simp_hist; first [assumption|reflexivity|congruence]|split; [|split; [|split]]]].
  (* static programs: the tail of a static program is static, workers' programs are static *)
  all: try (match goal with |- threads_all static_thread _ =>
              simp_hist;
              try (match goal with G : get_thread (w_threads _) _ = Some (TClient _ _ _) |- _ =>
                     let F := fresh "SF" in pose proof (T1 _ _ G) as F; cbn in F; try (inversion F; subst) end);
              repeat (apply threads_all_put; [|cbn; auto using static_body, static_eff]); exact T1 end).
  (* state and chain: unchanged unless this is the write-back *)
  all: try (simp_hist; first [exact ST | exact CH | assumption | reflexivity]).
  (* the reducer's pc relation: untouched by steps of other threads *)
  all: try (match goal with
            | G : get_thread (w_threads _) ?t0 = Some (TClient _ _ _) |- red_ok _ => idtac
            | G : get_thread (w_threads _) ?t0 = Some (TChan _ _) |- red_ok _ => idtac
            end;
            unfold red_ok; intros pc0 G0; simp_hist; revert G0; simp_world;
            repeat match goal with E : w_threads ?w1 = w_threads _ |- context [w_threads ?w1] => rewrite E end;
            repeat match goal with
            | |- get_thread (put_thread _ ?t1 _) reducer_tid = _ -> _ =>
                let EQ := fresh "EQ" in let NEQ := fresh "NEQ" in
                destruct (N.eq_dec reducer_tid t1) as [EQ|NEQ];
                [rewrite EQ, get_put_same; intros G0; discriminate G0
                |rewrite (get_put_other _ t1 reducer_tid) by exact NEQ]
            end;
            intros G0; apply (T2 _ G0)).
  (* the reducer's own steps *)
  all: apply N.eqb_eq in Heqb; subst t; pose proof (T2 _ Heqo) as F; cbn [pc_ok] in F.
  all: try (match goal with |- red_ok _ =>
              unfold red_ok; intros pc0 G0; simp_hist; revert G0; simp_world;
              repeat match goal with E : w_threads ?w1 = w_threads _ |- context [w_threads ?w1] => rewrite E end;
              rewrite get_put_same; intros G0; injection G0 as <-; cbn [pc_ok map fst] end).
  all: try exact F.
  all: try (rewrite F; reflexivity).
  - (* before_reduce decided whether the reducers run *)
    split; [exact F|]. unfold mws_of in Heqp. rewrite M in Heqp. fold MWS in Heqp.
    rewrite br_phase_spec in Heqp. cbn zeta in Heqp. injection Heqp as <- _ _.
    unfold vetoed, br_verdicts. reflexivity.
  - (* the chain ran *)
    destruct F as [FD FG]. split; [exact FD|].
    unfold reducers_of in Heqp. rewrite R in Heqp. fold RS in Heqp.
    rewrite run_reducers_spec in Heqp. cbn zeta in Heqp. injection Heqp as <- _ _ _.
    unfold step_fn, post_state. symmetry in FG. apply negb_true_iff in FG. rewrite FG. reflexivity.
  - (* vetoed: the state is left alone *)
    destruct F as [FD FG]. split; [exact FD|].
    unfold step_fn, post_state. symmetry in FG. apply negb_false_iff in FG. rewrite FG. reflexivity.
  - (* the write-back extends the chain *)
    destruct F as [FD FS]. simp_hist. cbn [chain_ok]. split; [|exact CH]. rewrite <- ST. exact FS.
  - destruct F as [FD FS]. exact FD.
Qed.

Lemma init_fold progs : Forall (Forall static_call) progs ->
  inv_fold (init_world cfg RS0 MS0 progs).
Proof.
  intros SP. unfold inv_fold. cbn. repeat split; auto.
  - intros t th G.
    assert (A : forall l i, Forall (Forall static_call) l ->
                get_thread (client_threads (State := State) i l ++ [(reducer_tid, TReducer RRecv)]) t = Some th ->
                static_thread th).
    { induction l as [|p r IH]; intros i FA; cbn.
      - destruct (N.eqb t reducer_tid); [|discriminate]. intros E; injection E as <-. exact I.
      - inversion FA; subst. destruct (N.eqb t i); [intros E; injection E as <-; assumption|now apply IH]. }
    eapply A; eauto.
  - intros pc G.
    assert (A : forall l i, get_thread (client_threads (State := State) i l ++ [(reducer_tid, TReducer RRecv)]) reducer_tid = Some (TReducer pc) -> pc = RRecv).
    { induction l as [|p r IH]; intros i; cbn [client_threads app get_thread].
      - rewrite N.eqb_refl. intros E; injection E as <-. reflexivity.
      - destruct (N.eqb reducer_tid i); [discriminate|apply IH]. }
    unfold init_world in G. cbn [w_threads] in G. apply A in G. subst. reflexivity.
Qed.

(* programs that never register reducers or middlewares at run time *)
Theorem reachable_fold progs w : Forall (Forall static_call) progs ->
  reachable cfg RS0 MS0 progs w -> inv_fold w.
Proof.
  intros SP [sched H]. eapply (run_invariant cfg inv_fold); [|apply init_fold; exact SP|exact H].
  intros; eapply step_fold; eauto.
Qed.

(* the sequence of write-backs, oldest first, is the fold of the pipeline over the actions written *)
Fixpoint fold_states (s : State) (l : list aid) : list State :=
  match l with [] => [] | a :: r => step_fn s a :: fold_states (step_fn s a) r end.

Lemma chain_ok_fold : forall ws, chain_ok ws ->
  map snd (rev ws) = fold_states init0 (map fst (rev ws)).
Proof.
  induction ws as [|[a s] r IH]; intros C; [reflexivity|]. cbn in C. destruct C as [E C].
  cbn [rev]. rewrite !map_app. cbn [map fst snd].
  assert (G : forall l s0, fold_states s0 (l ++ [a]) =
            fold_states s0 l ++ [step_fn (match rev (fold_states s0 l) with [] => s0 | x :: _ => x end) a]).
  { induction l as [|b l IHl]; intros s0; [reflexivity|]. cbn [app fold_states]. rewrite IHl. cbn [app]. f_equal.
    f_equal. f_equal. cbn [rev]. destruct (rev (fold_states (step_fn s0 b) l)); reflexivity. }
  rewrite G, <- (IH C). f_equal. f_equal. rewrite E. f_equal.
  rewrite <- map_rev, rev_involutive. destruct r as [|[a1 s1] r1]; reflexivity.
Qed.


(* what has been written back is what has been taken, except possibly the action in progress *)
Lemma taken_vs_written w : inv_fold w -> inv_tids w ->
  let ws := rev (writes (w_hist w)) in
  rev (deqs (w_hist w)) = map fst ws \/ exists a, rev (deqs (w_hist w)) = map fst ws ++ [a].
Proof.
  unfold inv_fold. cbn zeta. intros (_ & _ & _ & _ & _ & RO) [[pc G] _]. specialize (RO pc G).
  rewrite map_rev.
  destruct pc; cbn [pc_ok] in RO;
    first [ left; rewrite RO; reflexivity
          | right; exists a; rewrite RO; reflexivity
          | right; exists a; destruct RO as [RD _]; rewrite RD; reflexivity ].
Qed.

End WorldFold.

