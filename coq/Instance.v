(* Instance.v — the model instantiated with scripted callbacks (State := the application log). *)
From RS Require Import Base Channel Pipeline Selector Script World.

Definition script_config (sc : scripts) (cap : nat) (pol : policy) : wconfig (State := sstate) :=
  mkWConfig (reducer_of sc) (mw_of sc) (sel_of sc) [] cap pol.

(* subscribers registered before the client threads start *)
Inductive initsub := ISDirect (sid : N) | ISSelector (sid sel : N) | ISChan (sid : N) (cap : nat) (p : policy).

Fixpoint add_init_subs (w : world (State := sstate)) (l : list initsub) : world :=
  match l with
  | [] => w
  | ISDirect sid :: r => add_init_subs (set_subs w (w_subs w ++ [mkSub sid SKDirect])) r
  | ISSelector sid sel :: r => add_init_subs (set_subs w (w_subs w ++ [mkSub sid (SKSelector sel)])) r
  | ISChan sid c p :: r =>
      let w1 := set_chan w sid (chan_new c p) in
      let w2 := set_thread w1 (chan_tid sid) (TChan sid false) in
      add_init_subs (set_subs w2 (w_subs w2 ++ [mkSub sid SKChan])) r
  end.

Definition scenario_world (sc : scripts) (cap : nat) (pol : policy) (reducers mws : list N)
           (subs : list initsub) (progs : list (list call)) : world :=
  add_init_subs (init_world (script_config sc cap pol) reducers mws progs) subs.
