(* Script.v — scenario scripts as data, and their interpretation into the callback functions the
   generic model takes. Instance used by the correspondence: Action := N (a unique id),
   State := list (N * N), the log of (reducer id, action id) applications. Both the extracted
   runner and in-Coq evaluation build callbacks through these definitions. *)
From RS Require Import Base Pipeline Selector.

Definition aid := N.
Definition sstate := list (N * N).

(* which dispatch entry point a call uses *)
Inductive entry := EStoreImpl | EStoreTrait | EDispatcher.

(* effect bodies are finite scripts of dispatcher operations *)
Inductive bop := BDispatch (e : entry) (a : aid) | BPanic | BNop.
Inductive effkind := KAction (a : aid) | KTask | KThunk | KFunction.
Record eff := mkEff { e_id : N; e_kind : effkind; e_body : list bop }.

Fixpoint lookup {B} (k : N) (tbl : list (N * B)) (d : B) : B :=
  match tbl with
  | [] => d
  | (k', v) :: r => if N.eqb k k' then v else lookup k r d
  end.

(* a scripted reducer: appends (id, action) to the log; the table says Dispatch/Keep + effect *)
Record rscript := mkRscript { rs_id : N; rs_default : bool; rs_table : list (N * (bool * option eff)) }.

Definition mk_reducer (sc : rscript) : reducer sstate aid eff :=
  fun s a =>
    let '(d, e) := lookup a (rs_table sc) (rs_default sc, None) in
    if d then Dispatch (s ++ [(rs_id sc, a)]) e else Keep (s ++ [(rs_id sc, a)]) e.

(* a scripted middleware: verdicts keyed by action id; before_effect also removes effect ids *)
Record mwscript := mkMwscript {
  ms_id : N;
  ms_br : list (N * verdict);
  ms_be : list (N * (verdict * list N));
  ms_bd : list (N * verdict) }.

Definition mk_mw (sc : mwscript) : middleware sstate aid eff :=
  mkMw (fun a _ => lookup a (ms_br sc) VContinue)
       (fun a _ effs =>
          let '(v, rm) := lookup a (ms_be sc) (VContinue, []) in
          (filter (fun e => negb (memN (e_id e) rm)) effs, v))
       (fun a _ => lookup a (ms_bd sc) VContinue).

(* a scripted selector: the value is looked up by the last action in the log (0 if none) *)
Definition mk_sel (tbl : list (N * N)) : sstate -> N :=
  fun s => match rev s with [] => 0%N | (_, a) :: _ => lookup a tbl 0%N end.

(* the tables of a scenario *)
Record scripts := mkScripts {
  sc_reducers : list rscript;
  sc_mws : list mwscript;
  sc_sels : list (N * list (N * N)) }.

Definition find_rscript (sc : scripts) (id : N) : rscript :=
  match find (fun r => N.eqb (rs_id r) id) (sc_reducers sc) with
  | Some r => r
  | None => mkRscript id true []
  end.
Definition find_mwscript (sc : scripts) (id : N) : mwscript :=
  match find (fun m => N.eqb (ms_id m) id) (sc_mws sc) with
  | Some m => m
  | None => mkMwscript id [] [] []
  end.
Definition reducer_of (sc : scripts) (id : N) := mk_reducer (find_rscript sc id).
Definition mw_of (sc : scripts) (id : N) := mk_mw (find_mwscript sc id).
Definition sel_of (sc : scripts) (id : N) := mk_sel (lookup id (sc_sels sc) []).

(* subscribers of the sequential runs: direct ones and selector ones *)
Inductive ssub := SSDirect (sid : N) | SSSelector (sid : N) (sel : N).

Fixpoint set_assoc (k v : N) (l : list (N * N)) : list (N * N) :=
  match l with
  | [] => [(k, v)]
  | (k', v') :: r => if N.eqb k k' then (k, v) :: r else (k', v') :: set_assoc k v r
  end.
Fixpoint get_assoc (k : N) (l : list (N * N)) : option N :=
  match l with
  | [] => None
  | (k', v) :: r => if N.eqb k k' then Some v else get_assoc k r
  end.

(* one notification round over the subscribers, in registration order; `lasts` holds the
   last delivered value of every selector subscriber *)
Fixpoint notify_subs (sc : scripts) (subs : list ssub) (lasts : list (N * N)) (s : sstate) (a : aid)
  : list (N * N) * list (cb sstate aid) :=
  match subs with
  | [] => (lasts, [])
  | SSDirect sid :: r =>
      let '(l', ev) := notify_subs sc r lasts s a in (l', CbNotify sid s a :: ev)
  | SSSelector sid sel :: r =>
      let v := sel_of sc sel s in
      let '(last', fired) := Selector.sel_notify N.eqb (get_assoc sid lasts) v in
      let lasts1 := match last' with Some x => set_assoc sid x lasts | None => lasts end in
      let '(l', ev) := notify_subs sc r lasts1 s a in
      (l', (if fired then [CbOnChange sid v a] else []) ++ ev)
  end.

(* engine S: a whole single-producer run through a fixed configuration; returns the final state
   and, per action, the outcome (computed without subscribers) and the notification events *)
Fixpoint seq_loop (sc : scripts) (mws : list (middleware sstate aid eff))
         (rs : list (reducer sstate aid eff)) (subs : list ssub) (lasts : list (N * N))
         (s : sstate) (l : list aid) : sstate * list (outcome sstate aid eff * list (cb sstate aid)) :=
  match l with
  | [] => (s, [])
  | a :: r =>
      let o := process_action e_id mws rs [] s a in
      let '(lasts', ev) := if o_notified o then notify_subs sc subs lasts (o_state o) a else (lasts, []) in
      let '(s', os) := seq_loop sc mws rs subs lasts' (o_state o) r in
      (s', (o, ev) :: os)
  end.

Definition seq_run (sc : scripts) (rs mws : list N) (subs : list ssub) (l : list aid) :=
  seq_loop sc (map (mw_of sc) mws) (map (reducer_of sc) rs) subs [] [] l.
