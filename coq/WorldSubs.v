(* WorldSubs.v — subscription channels (channeled subscribers, iterators): what is received is
   what was forwarded, in order (C10, C14). *)
From RS Require Import Base Channel ChannelProofs Pipeline PipelineProofs Selector Script World WorldTactics Hist WorldProofs WorldInv WorldQueue WorldStop.

Section WorldSubs.
Context {State : Type}.
Variable cfg : wconfig (State := State).
Notation world := (world (State := State)).
Notation step := (step cfg).
Notation event := (event (State := State)).
Notation thread := (thread (State := State)).
Implicit Types w : World.world (State := State).
Implicit Types h : list event.

(* the part of the history since the channel of sid was (last) created; newest first *)
Definition is_new (sid : N) (e : event) : bool :=
  match e with ESubNew s => N.eqb s sid | _ => false end.
Fixpoint since (sid : N) h : list event :=
  match h with
  | [] => []
  | e :: r => if is_new sid e then [] else e :: since sid r
  end.

Definition ev_subsend (sid : N) (e : event) : list aid :=
  match e with ESubSend s a => if N.eqb s sid then [a] else [] | _ => [] end.
Definition ev_subrecv (sid : N) (e : event) : list aid :=
  match e with ESubRecv s a => if N.eqb s sid then [a] else [] | _ => [] end.
Definition subsends sid h := flat_map (ev_subsend sid) (since sid h).
Definition subrecvs sid h := flat_map (ev_subrecv sid) (since sid h).

Lemma since_app sid l h : existsb (is_new sid) l = false -> since sid (l ++ h) = l ++ since sid h.
Proof.
  induction l as [|e r IH]; cbn; [reflexivity|]. intros E. apply orb_false_iff in E. destruct E as [E1 E2].
  rewrite E1. now rewrite IH.
Qed.

Lemma no_new_cb sid x (l : list (cb State aid)) : existsb (is_new sid) (rev (map (ECb x) l)) = false.
Proof.
  induction l as [|c r IH]; [reflexivity|]. cbn. rewrite existsb_app, IH. reflexivity.
Qed.
Lemma no_new_dq sid x sr dr : existsb (is_new sid) (rev (dq_events (State := State) x sr dr)) = false.
Proof.
  unfold dq_events. rewrite rev_app_distr, existsb_app.
  assert (D : forall (f : aid -> event), (forall a, is_new sid (f a) = false) ->
              forall l, existsb (is_new sid) (rev (map f l)) = false).
  { intros f Hf. induction l as [|c r IH]; [reflexivity|]. cbn. rewrite existsb_app, IH. cbn. now rewrite Hf. }
  destruct sr as [ph|[|]]; [|destruct x|]; cbn; rewrite D by reflexivity; reflexivity.
Qed.
Lemma no_new_sub sid s x sr dr : existsb (is_new sid) (rev (sub_events (State := State) s x sr dr)) = false.
Proof.
  unfold sub_events. rewrite rev_app_distr, existsb_app.
  assert (D : forall (l : list (State * aid)), existsb (is_new sid) (rev (map (fun _ => ESubDrop (State := State) s) l)) = false).
  { induction l as [|c r IH]; [reflexivity|]. cbn. rewrite existsb_app, IH. reflexivity. }
  rewrite D, orb_false_r. destruct sr as [ph|[|]]; [|destruct x as [[s0 a0]|]|]; reflexivity.
Qed.

(* the items of a subscription queue, as action ids *)
Definition qacts (c : chan (State * aid)) : list aid := map snd (acts (q c)).

(* I_sub: per channel, since its creation: received ++ queued is an in-order subsequence of sent,
   and equal to it under BlockOnFull *)
Definition chan_ok (sid : N) (c : chan (State * aid)) h : Prop :=
  subseq (rev (qacts c) ++ subrecvs sid h) (subsends sid h) /\
  (pol c = Block -> subsends sid h = rev (qacts c) ++ subrecvs sid h).

Definition inv_subq w : Prop :=
  forall sid c, get_chan (w_chans w) sid = Some c -> chan_ok sid c (w_hist w).


Definition subquiet (e : event) : bool :=
  match e with ESubNew _ | ESubSend _ _ | ESubRecv _ _ => false | _ => true end.

Lemma proj_cons_quiet sid e h : subquiet e = true ->
  subsends sid (e :: h) = subsends sid h /\ subrecvs sid (e :: h) = subrecvs sid h.
Proof.
  intros Q. unfold subsends, subrecvs. cbn [since].
  destruct e; cbn in Q; try discriminate; cbn; auto.
Qed.

Lemma chan_ok_cons_quiet sid c e h : subquiet e = true -> chan_ok sid c h -> chan_ok sid c (e :: h).
Proof.
  intros Q H. unfold chan_ok. destruct (proj_cons_quiet sid e h Q) as [-> ->]. exact H.
Qed.

Lemma proj_app_quiet sid l h : forallb subquiet l = true ->
  subsends sid (l ++ h) = subsends sid h /\ subrecvs sid (l ++ h) = subrecvs sid h.
Proof.
  induction l as [|e r IH]; cbn [app forallb]; [auto|].
  intros E. apply andb_true_iff in E. destruct E as [E1 E2].
  destruct (proj_cons_quiet sid e (r ++ h) E1) as [-> ->]. now apply IH.
Qed.
Lemma chan_ok_app_quiet sid c l h : forallb subquiet l = true -> chan_ok sid c h -> chan_ok sid c (l ++ h).
Proof.
  intros Q H. unfold chan_ok. destruct (proj_app_quiet sid l h Q) as [-> ->]. exact H.
Qed.

Lemma quiet_cb x (l : list (cb State aid)) : forallb subquiet (rev (map (ECb x) l)) = true.
Proof. induction l as [|c r IH]; [reflexivity|]. cbn. rewrite forallb_app, IH. reflexivity. Qed.
Lemma quiet_dq x sr dr : forallb subquiet (rev (dq_events (State := State) x sr dr)) = true.
Proof.
  unfold dq_events. rewrite rev_app_distr, forallb_app.
  assert (D : forall (f : aid -> event), (forall a, subquiet (f a) = true) ->
              forall l, forallb subquiet (rev (map f l)) = true).
  { intros f Hf. induction l as [|c r IH]; [reflexivity|]. cbn. rewrite forallb_app, IH. cbn. now rewrite Hf. }
  destruct sr as [ph|[|]]; [|destruct x|]; cbn; rewrite D by reflexivity; reflexivity.
Qed.

Lemma dq_phase_subq w x ph w1 sr : dq_phase w x ph = Some (w1, sr) -> inv_subq w -> inv_subq w1.
Proof.
  unfold dq_phase. destruct (send_phase (w_dq w) x ph) as [[[dq' sr'] dr]|]; [|discriminate].
  intros H; injection H as <- <-. intros I sid c G. cbn in G.
  unfold emits, upd_metrics, set_dq, set_hist, set_metrics; cbn [w_hist].
  apply chan_ok_app_quiet; [apply quiet_dq|]. now apply I.
Qed.

(* events of another channel do not matter *)
Lemma proj_other sid s x sr dr h : s <> sid ->
  subsends sid (rev (sub_events s x sr dr) ++ h) = subsends sid h /\
  subrecvs sid (rev (sub_events s x sr dr) ++ h) = subrecvs sid h.
Proof.
  intros Hne. unfold subsends, subrecvs. rewrite since_app by apply no_new_sub.
  rewrite !flat_map_app.
  assert (Z : forall {X} (f : event -> list X), (forall s0, f (ESubDrop s0) = []) -> f (match x with IAct (_, a) => ESubSend s a | IExit => ESubDrop s end) = [] ->
            flat_map f (rev (sub_events s x sr dr)) = []).
  { intros X f H1 H2. unfold sub_events. rewrite rev_app_distr, flat_map_app.
    rewrite (proj_subdrop f s dr) by exact H1. rewrite app_nil_r.
    destruct sr as [?|[|]]; [|destruct x as [[s0 a0]|]|]; cbn; rewrite ?H2; reflexivity. }
  assert (NE : N.eqb s sid = false) by now apply N.eqb_neq.
  rewrite !Z; auto; destruct x as [[s0 a0]|]; cbn; rewrite ?NE; reflexivity.
Qed.

Lemma sub_phase_subq w sid x ph w1 sr : sub_phase w sid x ph = Some (w1, sr) -> inv_subq w -> inv_subq w1.
Proof.
  unfold sub_phase. destruct (get_chan (w_chans w) sid) as [c|] eqn:G.
  2:{ intros H; injection H as <- <-. auto. }
  destruct (send_phase c x ph) as [[[c' sr'] dr]|] eqn:E; [|discriminate].
  intros H; injection H as <- <-. intros I sid0 c0 G0.
  unfold emits, upd_metrics, set_chan, set_chans, set_hist, set_metrics in *; cbn [w_hist w_chans] in *.
  destruct (N.eq_dec sid0 sid) as [->|Hne].
  - rewrite get_put_chan_same in G0. injection G0 as <-.
    destruct (I sid c G) as [SUB BLK]. unfold chan_ok, subsends, subrecvs in *.
    rewrite since_app by apply no_new_sub. rewrite !flat_map_app.
    pose proof (send_phase_inv _ _ _ _ _ _ E) as (_ & P' & _ & _).
    assert (DROPS : forall {X} (f : event -> list X), (forall s0, f (ESubDrop s0) = []) ->
              flat_map f (rev (map (fun _ : State * aid => ESubDrop (State := State) sid) dr)) = [])
      by (intros; now apply proj_subdrop).
    unfold qacts in *.
    apply send_phase_contents in E. destruct E as [(Q & -> & ->)|[(old & Q & -> & -> & -> & PO)|(Q & NT & D)]].
    + (* appended *)
      rewrite Q, acts_app, map_app, rev_app_distr. unfold sub_events. cbn [map app rev].
      destruct x as [[s0 a0]|]; cbn; rewrite ?N.eqb_refl; cbn.
      * split; [now apply subseq_take|]. intros B. rewrite P' in B. now rewrite (BLK B).
      * split; [exact SUB|]. intros B. rewrite P' in B. exact (BLK B).
    + (* DropOldest evicted the head *)
      rewrite Q in SUB, BLK. unfold sub_events. rewrite rev_app_distr, !flat_map_app, !DROPS by reflexivity.
      cbn [rev app flat_map]. destruct old as [[s1 a1]|]; cbn in *.
      * rewrite <- !app_assoc in *. cbn in *. split; [eapply subseq_remove_mid; exact SUB|].
        intros B. rewrite P' in B. congruence.
      * split; [exact SUB|]. intros B. rewrite P' in B. exact (BLK B).
    + (* unchanged *)
      rewrite Q. unfold sub_events. rewrite rev_app_distr, !flat_map_app, !DROPS by reflexivity.
      assert (EV : match sr', x with SDone true, IAct (_, a) => [ESubSend (State := State) sid a] | _, _ => [] end = []).
      { destruct sr' as [?|[|]]; [reflexivity| |reflexivity]. exfalso. now apply NT. }
      rewrite EV. cbn. split; [exact SUB|]. intros B. rewrite P' in B. exact (BLK B).
  - rewrite get_put_chan_other in G0 by assumption.
    unfold chan_ok. destruct (proj_other sid0 sid x sr' dr (w_hist w) (not_eq_sym Hne)) as [-> ->].
    now apply I.
Qed.


(* ---------- generic: the history grew by events that are quiet for subscription channels -------- *)
Lemma inv_subq_quiet w w' l : w_chans w' = w_chans w -> w_hist w' = l ++ w_hist w ->
  forallb subquiet l = true -> inv_subq w -> inv_subq w'.
Proof.
  intros C H Q I sid c G. rewrite C in G. rewrite H. apply chan_ok_app_quiet; [exact Q|]. now apply I.
Qed.

(* a channel was created (or re-created) for sid *)
Lemma inv_subq_new w w' sid n p l l2 : w_chans w' = put_chan (w_chans w) sid (chan_new n p) ->
  w_hist w' = l ++ ESubNew sid :: l2 ++ w_hist w -> forallb subquiet l = true -> forallb subquiet l2 = true ->
  inv_subq w -> inv_subq w'.
Proof.
  intros C H Q Q2 I0 sid0 c G. rewrite C in G. rewrite H.
  assert (I : forall sid1 c1, get_chan (w_chans w) sid1 = Some c1 -> chan_ok sid1 c1 (l2 ++ w_hist w))
    by (intros; apply chan_ok_app_quiet; [exact Q2|now apply I0]).
  apply chan_ok_app_quiet; [exact Q|].
  destruct (N.eq_dec sid0 sid) as [->|Hne].
  - rewrite get_put_chan_same in G. injection G as <-.
    unfold chan_ok, subsends, subrecvs, qacts. cbn. rewrite N.eqb_refl. cbn. split; [constructor|reflexivity].
  - rewrite get_put_chan_other in G by assumption.
    unfold chan_ok, subsends, subrecvs. cbn [since is_new].
    assert (NE : N.eqb sid sid0 = false) by (apply N.eqb_neq; auto). rewrite NE. cbn [flat_map ev_subsend ev_subrecv app].
    now apply I.
Qed.

(* the consumer took the head *)
Lemma inv_subq_recv w w' sid c c' s a l l2 : get_chan (w_chans w) sid = Some c ->
  recv c = Some (Some (IAct (s, a)), c') ->
  w_chans w' = put_chan (w_chans w) sid c' -> w_hist w' = l ++ ESubRecv sid a :: l2 ++ w_hist w ->
  forallb subquiet l = true -> forallb subquiet l2 = true -> inv_subq w -> inv_subq w'.
Proof.
  intros G R C H Q Q2 I0 sid0 c0 G0. rewrite C in G0. rewrite H. apply chan_ok_app_quiet; [exact Q|].
  assert (I : forall sid1 c1, get_chan (w_chans w) sid1 = Some c1 -> chan_ok sid1 c1 (l2 ++ w_hist w))
    by (intros; apply chan_ok_app_quiet; [exact Q2|now apply I0]).
  apply recv_some in R. destruct R as (_ & P & _ & QQ).
  destruct (N.eq_dec sid0 sid) as [->|Hne].
  - rewrite get_put_chan_same in G0. injection G0 as <-.
    destruct (I sid c G) as [SUB BLK]. unfold chan_ok, subsends, subrecvs, qacts in *.
    cbn [since is_new flat_map ev_subsend ev_subrecv]. rewrite N.eqb_refl. cbn [app].
    rewrite QQ in SUB, BLK. cbn in SUB, BLK. rewrite <- app_assoc in SUB, BLK. cbn in SUB, BLK.
    split; [exact SUB|]. intros B. rewrite P in B. exact (BLK B).
  - rewrite get_put_chan_other in G0 by assumption.
    unfold chan_ok, subsends, subrecvs. cbn [since is_new flat_map ev_subsend ev_subrecv].
    assert (NE : N.eqb sid sid0 = false) by (apply N.eqb_neq; auto). rewrite NE. cbn [app].
    now apply I.
Qed.

(* an exit marker or nothing was taken, or the channel was disconnected: same actions queued *)
Lemma inv_subq_same_acts w w' sid c c' l : get_chan (w_chans w) sid = Some c ->
  qacts c' = qacts c -> pol c' = pol c ->
  w_chans w' = put_chan (w_chans w) sid c' -> w_hist w' = l ++ w_hist w ->
  forallb subquiet l = true -> inv_subq w -> inv_subq w'.
Proof.
  intros G QA P C H Q I sid0 c0 G0. rewrite C in G0. rewrite H. apply chan_ok_app_quiet; [exact Q|].
  destruct (N.eq_dec sid0 sid) as [->|Hne].
  - rewrite get_put_chan_same in G0. injection G0 as <-.
    destruct (I sid c G) as [SUB BLK]. unfold chan_ok. rewrite QA, P. auto.
  - rewrite get_put_chan_other in G0 by assumption. now apply I.
Qed.


(* compute l such that h = l ++ base, from the syntactic shape of h *)
Ltac hist_prefix h base :=
  lazymatch h with
  | base => constr:(@nil (World.event (State := State)))
  | ?e :: ?r => let p := hist_prefix r base in constr:(e :: p)
  | ?l ++ ?r => let p := hist_prefix r base in constr:(l ++ p)
  end.

Ltac quiet_side :=
  cbn [forallb subquiet andb app]; rewrite ?forallb_app, ?quiet_cb; reflexivity.

Ltac hist_eq := cbn [app]; rewrite ?app_nil_r, <- ?app_assoc; reflexivity.

(* close a leaf whose world is built by setters on `w0` (w or the result of a phase) *)
Ltac subq_quiet w0 I0 :=
  match goal with
  | |- inv_subq ?w1 =>
      let h := eval cbn [w_hist set_chan spawn_worker emit emits upd_metrics set_thread set_state set_dq
                         set_tx_open set_reducers set_mws set_subs set_chans set_lasts set_iter_done
                         set_pool set_threads set_next_tid set_metrics set_hist set_rpc] in (w_hist w1) in
      let hh := eval unfold cb_events in h in
      let p := hist_prefix hh (w_hist w0) in
      apply (inv_subq_quiet w0 w1 p); [reflexivity|unfold cb_events; simp_world; hist_eq|quiet_side|exact I0]
  end.

Theorem step_subq w t w' : inv_subq w -> step w t = Some w' -> inv_subq w'.
Proof.
  intros I H. step_cases H.
  all: repeat match goal with
       | HH : dq_phase ?w0 _ _ = Some (?w1, _), I0 : inv_subq _ |- _ =>
           let J := fresh "J" in assert (J : inv_subq w1) by (eapply dq_phase_subq; [exact HH|exact I0]);
           clear HH; clear I0
       | HH : sub_phase ?w0 _ _ _ = Some (?w1, _), I0 : inv_subq _ |- _ =>
           let J := fresh "J" in assert (J : inv_subq w1) by (eapply sub_phase_subq; [exact HH|exact I0]);
           clear HH; clear I0
       end.
  all: try (match goal with J : inv_subq ?w0 |- _ => subq_quiet w0 J end; fail).
  (* channel creation *)
  all: try (match goal with
            | J : inv_subq ?w0 |- inv_subq ?w1 =>
              let h := eval cbn [w_hist set_chan spawn_worker emit emits upd_metrics set_thread set_state set_dq
                         set_tx_open set_reducers set_mws set_subs set_chans set_lasts set_iter_done
                         set_pool set_threads set_next_tid set_metrics set_hist set_rpc] in (w_hist w1) in
              lazymatch h with
              | context [ESubNew ?sid :: ?base] =>
                  let p := hist_prefix h (ESubNew sid :: base) in
                  let p2 := hist_prefix base (w_hist w0) in
                  eapply (inv_subq_new w0 w1 sid _ _ p p2);
                  [simp_world; reflexivity|simp_world; hist_eq|quiet_side|quiet_side|exact J]
              end
            end; fail).
  (* the consumer took an item *)
  all: repeat match goal with R : recv _ = Some (Some (IAct ?x), _) |- _ => is_var x; destruct x end.
  all: cbn [snd].
  all: try (match goal with
            | J : inv_subq ?w0, G : get_chan (w_chans ?w0) ?sid = Some ?c,
              R : recv ?c = Some (Some (IAct ?x), ?c') |- inv_subq ?w1 =>
              let h := eval cbn [w_hist set_chan spawn_worker emit emits upd_metrics set_thread set_state set_dq
                         set_tx_open set_reducers set_mws set_subs set_chans set_lasts set_iter_done
                         set_pool set_threads set_next_tid set_metrics set_hist set_rpc] in (w_hist w1) in
              lazymatch h with
              | context [ESubRecv sid ?a :: ?base] =>
                  let p := hist_prefix h (ESubRecv sid a :: base) in
                  let p2 := hist_prefix base (w_hist w0) in
                  eapply (inv_subq_recv w0 w1 sid c c' _ a p p2);
                  [exact G|exact R|simp_world; reflexivity|simp_world; hist_eq|quiet_side|quiet_side|exact J]
              end
            end; fail).
  (* the channel was disconnected, or an exit marker / nothing was taken: same queued actions *)
  all: try (match goal with
            | J : inv_subq ?w0, G : get_chan (w_chans ?w0) ?sid = Some ?c |- inv_subq ?w1 =>
              let h := eval cbn [w_hist set_chan spawn_worker emit emits upd_metrics set_thread set_state set_dq
                         set_tx_open set_reducers set_mws set_subs set_chans set_lasts set_iter_done
                         set_pool set_threads set_next_tid set_metrics set_hist set_rpc] in (w_hist w1) in
              let p := hist_prefix h (w_hist w0) in
              first
              [ eapply (inv_subq_same_acts w0 w1 sid c (disconnect c) p);
                [exact G|reflexivity|reflexivity|simp_world; reflexivity|simp_world; hist_eq|quiet_side|exact J]
              | match goal with
                | R : recv c = Some (Some IExit, ?c') |- _ =>
                    pose proof (recv_some _ _ _ R) as (_ & PP & _ & QQ);
                    eapply (inv_subq_same_acts w0 w1 sid c c' p);
                    [exact G|unfold qacts; rewrite QQ; reflexivity|exact PP
                    |simp_world; reflexivity|simp_world; hist_eq|quiet_side|exact J]
                end ]
            end; fail).
Qed.

Lemma init_subq reducers mws progs : inv_subq (init_world cfg reducers mws progs).
Proof. intros sid c G. discriminate. Qed.

Theorem reachable_subq reducers mws progs w :
  reachable cfg reducers mws progs w -> inv_subq w.
Proof.
  intros [sched H]. eapply (run_invariant cfg inv_subq); [|apply init_subq|exact H].
  intros; eapply step_subq; eauto.
Qed.

(* what the consumer of a channel has received so far is an in-order subsequence of what was
   forwarded to it, and under BlockOnFull exactly: forwarded = received ++ still queued *)
Corollary received_subseq w sid c : inv_subq w -> get_chan (w_chans w) sid = Some c ->
  subseq (subrecvs sid (w_hist w)) (subsends sid (w_hist w)).
Proof.
  intros I G. destruct (I sid c G) as [SUB _].
  remember (rev (qacts c)) as l. clear Heql.
  induction l as [|x l IH]; [exact SUB|]. apply IH. apply (subseq_remove_mid [] _ _ x). exact SUB.
Qed.

Corollary block_channel_lossless w sid c : inv_subq w -> get_chan (w_chans w) sid = Some c ->
  pol c = Block ->
  rev (subsends sid (w_hist w)) = rev (subrecvs sid (w_hist w)) ++ qacts c.
Proof.
  intros I G B. destruct (I sid c G) as [_ BLK]. rewrite (BLK B), rev_app_distr, rev_involutive. reflexivity.
Qed.

End WorldSubs.
