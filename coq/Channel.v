(* Channel.v — the bounded backpressure channel (channel.rs:54-142 over crossbeam `bounded`).
   A channel is a FIFO list of items with a capacity, a policy and a flag saying whether a
   sender is still alive. The DropOldest send is three separate operations (try_send,
   try_recv, try_send) because the consumer may run between them. *)
From RS Require Import Base.

Section Chan.
Context {A : Type}.

Record chan := mkChan { q : list (item A); cap : nat; pol : policy; tx_alive : bool }.

Definition chan_new (c : nat) (p : policy) : chan := mkChan [] c p true.
Definition is_full (c : chan) : bool := Nat.leb (cap c) (length (q c)).
Definition set_q (c : chan) (l : list (item A)) : chan := mkChan l (cap c) (pol c) (tx_alive c).
Definition disconnect (c : chan) : chan := mkChan (q c) (cap c) (pol c) false.

(* crossbeam try_send: None = Full *)
Definition try_send (c : chan) (x : item A) : option chan :=
  if is_full c then None else Some (set_q c (q c ++ [x])).

(* crossbeam try_recv: the head if any *)
Definition try_recv (c : chan) : option (item A) * chan :=
  match q c with
  | [] => (None, c)
  | x :: r => (Some x, set_q c r)
  end.

(* crossbeam blocking send: enabled iff not full (None = the caller must wait) *)
Definition send_block (c : chan) (x : item A) : option chan := try_send c x.

(* blocking recv: Some (Some x) = an item; Some None = disconnected and drained;
   None = the caller must wait *)
Definition recv (c : chan) : option (option (item A) * chan) :=
  match q c with
  | x :: r => Some (Some x, set_q c r)
  | [] => if tx_alive c then None else Some (None, c)
  end.

(* what a dropped item adds to the dropped-actions counter *)
Definition dropped_action (o : option (item A)) : list A :=
  match o with Some (IAct a) => [a] | _ => [] end.

(* ---- the policy send, as a small state machine -------------------------------------------
   phases: SStart (nothing done yet), SBlockWait (Block: parked before the blocking send),
   SDo2 (DropOldest after a Full try_send: about to try_recv), SDo3 (about to try_send again).
   One call of send_phase performs the code up to the next park point. *)
Inductive sphase := SStart | SBlockWait | SDo2 | SDo3.

Inductive sresult :=
| SMore (ph : sphase)          (* parked at the next point *)
| SDone (ok : bool).           (* send returned Ok/Err *)

(* None = not enabled (only the blocking send on a full queue); the third component lists the
   actions this phase counted as dropped *)
Definition send_phase (c : chan) (x : item A) (ph : sphase) : option (chan * sresult * list A) :=
  match ph with
  | SStart =>
      match pol c with
      | Block => Some (c, SMore SBlockWait, [])
      | DropOldest =>
          match try_send c x with
          | Some c' => Some (c', SDone true, [])
          | None => Some (c, SMore SDo2, [])
          end
      | DropLatest =>
          match try_send c x with
          | Some c' => Some (c', SDone true, [])
          | None => Some (c, SDone false, dropped_action (Some x))
          end
      end
  | SBlockWait =>
      match send_block c x with
      | Some c' => Some (c', SDone true, [])
      | None => None
      end
  | SDo2 =>
      match pol c with
      | DropOldest => let '(old, c') := try_recv c in Some (c', SMore SDo3, dropped_action old)
      | _ => Some (c, SMore SDo3, [])     (* unreachable: only DropOldest parks here *)
      end
  | SDo3 =>
      match try_send c x with
      | Some c' => Some (c', SDone true, [])
      | None => Some (c, SDone false, [])
      end
  end.

(* ---- the whole send with no consumer running in between (used for bursts, C06) ---------- *)
Definition send_seq (c : chan) (x : item A) : option (chan * bool * list A) :=
  match pol c with
  | Block => match send_block c x with Some c' => Some (c', true, []) | None => None end
  | DropOldest =>
      match try_send c x with
      | Some c' => Some (c', true, [])
      | None =>
          let '(old, c1) := try_recv c in
          match try_send c1 x with
          | Some c2 => Some (c2, true, dropped_action old)
          | None => Some (c1, false, dropped_action old)
          end
      end
  | DropLatest =>
      match try_send c x with
      | Some c' => Some (c', true, [])
      | None => Some (c, false, dropped_action (Some x))
      end
  end.

End Chan.
Arguments chan A : clear implicits.
