(* WorldNotify.v — the notification stream of direct subscribers (C03, C07): the deliveries made
   in the reducer context are exactly, snapshot by snapshot and in the order of the snapshot,
   one call per direct subscriber of the snapshot, with the action and the state of the snapshot. *)
From RS Require Import Base Channel ChannelProofs Pipeline PipelineProofs Selector Script World WorldTactics Hist WorldProofs WorldInv WorldQueue WorldStop WorldMetrics.

Section WorldNotify.
Context {State : Type}.
Variable cfg : wconfig (State := State).
Notation world := (world (State := State)).
Notation step := (step cfg).
Notation event := (event (State := State)).
Implicit Types w : World.world (State := State).
Implicit Types h : list event.

Definition delivery : Type := (N * State * aid)%type.

Definition is_direct (x : subentry) : bool := match se_kind x with SKDirect => true | _ => false end.
(* what a snapshot owes: one call per direct subscriber, in the order of the snapshot *)
Definition snap_deliv (a : aid) (s : State) (snap : list subentry) : list delivery :=
  map (fun x => (se_id x, s, a)) (filter is_direct snap).

(* newest first, like the history *)
Definition ev_deliv (e : event) : list delivery :=
  match e with ECb XReducer (CbNotify sid s a) => [(sid, s, a)] | _ => [] end.
Definition ev_owed (e : event) : list delivery :=
  match e with ESnapshot a s snap => rev (snap_deliv a s snap) | _ => [] end.
Definition delivs h : list delivery := flat_map ev_deliv h.
Definition owed h : list delivery := flat_map ev_owed h.

(* calls of the current snapshot still to be made *)
Definition pending (pc : rpc (State := State)) : list delivery :=
  match pc with
  | RNotify a s rest _ | RNotifySend a s _ rest _ _ => snap_deliv a s rest
  | _ => []
  end.

Definition inv_notify w : Prop :=
  forall pc, get_thread (w_threads w) reducer_tid = Some (TReducer pc) ->
    rev (owed (w_hist w)) = rev (delivs (w_hist w)) ++ pending pc.

Lemma delivs_app h1 h2 : delivs (h1 ++ h2) = delivs h1 ++ delivs h2.
Proof. apply flat_map_app. Qed.
Lemma owed_app h1 h2 : owed (h1 ++ h2) = owed h1 ++ owed h2.
Proof. apply flat_map_app. Qed.

Lemma flat_map_nil {A B} (f : A -> list B) (l : list A) : (forall e, In e l -> f e = []) -> flat_map f l = [].
Proof. induction l as [|x r IH]; cbn; [reflexivity|]. intros H. rewrite (H x), IH; auto. Qed.

Definition quiet {B} (f : event -> list B) : Prop :=
  forall e, (forall x, e <> ESnapshot (fst (fst x)) (snd (fst x)) (snd x)) ->
            (forall sid s a, e <> ECb XReducer (CbNotify sid s a)) -> f e = [].
Lemma quiet_deliv : quiet ev_deliv.
Proof. intros e _ H. destruct e as [| | x c| | | | | | | | | | | | | | | | | ]; try reflexivity.
  destruct x; try reflexivity. destruct c; try reflexivity. exfalso. eapply H; reflexivity. Qed.
Lemma quiet_owed : quiet ev_owed.
Proof. intros e H _. destruct e; try reflexivity. exfalso. apply (H (a, s, snap)). reflexivity. Qed.

Lemma dq_events_quiet {B} (f : event -> list B) x sr dr : quiet f ->
  flat_map f (rev (dq_events (State := State) x sr dr)) = [].
Proof.
  intros Q. apply flat_map_nil. intros e I. apply in_rev in I. unfold dq_events in I.
  apply Q; intros; intros ->; apply in_app_or in I; destruct I as [I|I];
    try (apply in_map_iff in I; destruct I as (? & I & _); destruct sr as [?|[|]]; discriminate I);
    destruct sr as [?|[|]]; try destruct x; cbn in I; try contradiction; destruct I as [I|[]]; discriminate I.
Qed.
Lemma sub_events_quiet {B} (f : event -> list B) sid x sr dr : quiet f ->
  flat_map f (rev (sub_events (State := State) sid x sr dr)) = [].
Proof.
  intros Q. apply flat_map_nil. intros e I. apply in_rev in I. unfold sub_events in I.
  apply Q; intros; intros ->; apply in_app_or in I; destruct I as [I|I];
    try (apply in_map_iff in I; destruct I as (? & I & _); discriminate I);
    destruct sr as [?|[|]]; try destruct x as [[? ?]|]; cbn in I; try contradiction; destruct I as [I|[]]; discriminate I.
Qed.
Lemma cb_events_quiet {B} (f : event -> list B) (l : list (cb State aid)) : quiet f ->
  (forall c, In c l -> forall sid s a, c <> CbNotify sid s a) ->
  flat_map f (rev (map (ECb XReducer) l)) = [].
Proof.
  intros Q NN. apply flat_map_nil. intros e I. apply in_rev in I. apply in_map_iff in I.
  destruct I as (c & <- & I). apply Q; [intros; discriminate|]. intros sid s a E. injection E as ->.
  eapply NN; eauto.
Qed.

Lemma dq_phase_notify w x ph w1 sr : dq_phase w x ph = Some (w1, sr) ->
  delivs (w_hist w1) = delivs (w_hist w) /\ owed (w_hist w1) = owed (w_hist w).
Proof.
  unfold dq_phase. destruct (send_phase (w_dq w) x ph) as [[[dq' sr'] dr]|]; [|discriminate].
  intros H; injection H as <- <-. simp_world. rewrite delivs_app, owed_app.
  unfold delivs at 1, owed at 1. rewrite !dq_events_quiet by (apply quiet_deliv || apply quiet_owed). auto.
Qed.
Lemma sub_phase_notify w sid x ph w1 sr : sub_phase w sid x ph = Some (w1, sr) ->
  delivs (w_hist w1) = delivs (w_hist w) /\ owed (w_hist w1) = owed (w_hist w).
Proof.
  unfold sub_phase. destruct (get_chan (w_chans w) sid) as [c|]; [|intros H; injection H as <- <-; auto].
  destruct (send_phase c x ph) as [[[c' sr'] dr]|]; [|discriminate].
  intros H; injection H as <- <-. simp_world. rewrite delivs_app, owed_app.
  unfold delivs at 1, owed at 1. rewrite !sub_events_quiet by (apply quiet_deliv || apply quiet_owed). auto.
Qed.

Definition no_notify (l : list (cb State aid)) : Prop :=
  forall c, In c l -> forall sid s a, c <> CbNotify sid s a.

Lemma br_no_notify (mws : list (middleware State aid eff)) i a s flag f n evs :
  br_phase i mws a s flag = (f, n, evs) -> no_notify evs.
Proof.
  rewrite br_phase_spec. cbn zeta. intros H; inversion H; subst. intros c I sid s0 a0 ->.
  apply br_events_args in I. destruct I as [(? & ? & I)|(? & I)]; discriminate I.
Qed.
Lemma bd_no_notify (mws : list (middleware State aid eff)) i a s flag f n evs :
  bd_phase i mws a s flag = (f, n, evs) -> no_notify evs.
Proof.
  rewrite bd_phase_spec. cbn zeta. intros H; inversion H; subst. intros c I sid s0 a0 ->.
  apply bd_events_args in I. destruct I as [(? & ? & I)|(? & I)]; discriminate I.
Qed.
Lemma be_no_notify (mws : list (middleware State aid eff)) i a s effs effs' n evs :
  be_phase e_id i mws a s effs = (effs', n, evs) -> no_notify evs.
Proof.
  rewrite be_phase_spec. cbn zeta. intros H; inversion H; subst. intros c I sid s0 a0 ->.
  apply be_events_args in I. destruct I as [(? & ? & ? & ? & I)|(? & I)]; discriminate I.
Qed.
Lemma reducers_no_notify (rs : list (reducer State aid eff)) j s a effs nd s' effs' nd' evs :
  run_reducers e_id j rs s a effs nd = (s', effs', nd', evs) -> no_notify evs.
Proof.
  rewrite run_reducers_spec. cbn zeta. intros H; inversion H; subst. intros c I sid s0 a0 ->.
  apply in_map_iff in I. destruct I as ([[? ?] ?] & I & _). discriminate I.
Qed.

Ltac simp_notify :=
  simp_world; unfold cb_events;
  repeat (progress (rewrite ?delivs_app, ?owed_app)).

Theorem step_notify w t w' : inv_notify w -> step w t = Some w' -> inv_notify w'.
Proof.
  intros I H. step_cases H; use_frames.
  all: repeat match goal with
       | HH : dq_phase _ _ _ = Some (_, _) |- _ => apply dq_phase_notify in HH; destruct HH as [? ?]
       | HH : sub_phase _ _ _ _ = Some (_, _) |- _ => apply sub_phase_notify in HH; destruct HH as [? ?]
       end.
  all: try (match goal with HB : (_ =? reducer_tid)%N = true |- _ => apply N.eqb_eq in HB; subst end).
  all: repeat match goal with
       | HP : br_phase _ _ _ _ _ = (_, _, _) |- _ => apply br_no_notify in HP
       | HP : bd_phase _ _ _ _ _ = (_, _, _) |- _ => apply bd_no_notify in HP
       | HP : be_phase _ _ _ _ _ _ = (_, _, _) |- _ => apply be_no_notify in HP
       | HP : run_reducers _ _ _ _ _ _ _ = (_, _, _, _) |- _ => apply reducers_no_notify in HP
       end.
  all: unfold inv_notify in *; rew_frames; intros pc' G'.
  all: try (assert (GR : get_thread (w_threads w) reducer_tid = Some (TReducer pc')) by
        (repeat match type of G' with
           | get_thread (put_thread _ ?t' _) reducer_tid = _ =>
               let EQ := fresh "EQ" in
               destruct (N.eq_dec reducer_tid t') as [EQ|EQ];
               [ rewrite <- EQ in G'; rewrite get_put_same in G'; discriminate G'
               | rewrite get_put_other in G' by exact EQ ]
           end; exact G');
        specialize (I _ GR)).
  all: try (match goal with G : get_thread (w_threads _) reducer_tid = Some (TReducer _) |- _ =>
              specialize (I _ G) end;
            rewrite get_put_same in G'; injection G' as <-).
  all: unfold delivs, owed in *; simp_world; unfold cb_events;
       repeat (progress (rewrite ?flat_map_app; cbn [flat_map app]));
       repeat match goal with
       | Q : no_notify ?l |- context [flat_map ev_deliv (rev (map (ECb XReducer) ?l))] =>
           rewrite (cb_events_quiet ev_deliv l quiet_deliv Q)
       | Q : no_notify ?l |- context [flat_map ev_owed (rev (map (ECb XReducer) ?l))] =>
           rewrite (cb_events_quiet ev_owed l quiet_owed Q)
       end;
       cbn [flat_map ev_owed ev_deliv app pending] in *;
       repeat match goal with
       | E : flat_map ev_deliv (w_hist ?x) = _ |- context [flat_map ev_deliv (w_hist ?x)] => rewrite E
       | E : flat_map ev_owed (w_hist ?x) = _ |- context [flat_map ev_owed (w_hist ?x)] => rewrite E
       end.
  all: try exact I.
  all: try (rewrite I, ?app_nil_r; reflexivity).
  all: unfold snap_deliv, is_direct in *; cbn [filter map] in *;
       repeat match goal with E : se_kind ?x = _ |- _ => rewrite E in * end; cbn [map rev app] in *;
       rewrite ?rev_app_distr, ?rev_involutive, ?app_nil_r in *; cbn [rev app]; rewrite <- ?app_assoc; cbn [app].
  all: try exact I.
  all: try (rewrite I, ?app_nil_r; reflexivity).
Qed.

Lemma init_notify reducers mws progs : (length progs <= 100)%nat ->
  inv_notify (init_world cfg reducers mws progs).
Proof.
  intros L pc G. unfold init_world in G. cbn [w_threads] in G.
  rewrite client_threads_reducer in G by (unfold reducer_tid; lia). injection G as <-. reflexivity.
Qed.

Theorem reachable_notify reducers mws progs w : (length progs <= 100)%nat ->
  reachable cfg reducers mws progs w -> inv_notify w.
Proof.
  intros L [sched H]. eapply (run_invariant cfg inv_notify); [|apply init_notify; exact L|exact H].
  intros; eapply step_notify; eauto.
Qed.

(* the calls made so far, oldest first, followed by the calls of the current snapshot still to
   be made, are exactly what the snapshots taken so far owe *)
Theorem notify_stream reducers mws progs w pc : (length progs <= 100)%nat ->
  reachable cfg reducers mws progs w ->
  get_thread (w_threads w) reducer_tid = Some (TReducer pc) ->
  rev (owed (w_hist w)) = rev (delivs (w_hist w)) ++ pending pc.
Proof. intros L R G. exact (reachable_notify _ _ _ _ L R pc G). Qed.
End WorldNotify.
