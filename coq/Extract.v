(* Extract.v — extraction of the executable model to OCaml. ExtrOcamlBasic only. *)
Require Extraction.
Require Import ExtrOcamlBasic.
From RS Require Import Base Channel Pipeline Selector Builder Script.
Extraction Blacklist List String Int.
Extraction "model.ml" seq_run sel_stream dedup apply_bcalls build builder_new send_phase send_seq
  recv try_recv chan_new do2_dropped process_action lastn.
