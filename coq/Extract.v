(* Extract.v — extraction of the executable model to OCaml. ExtrOcamlBasic only. *)
Require Extraction.
Require Import ExtrOcamlBasic.
From RS Require Import Base Channel Pipeline Selector Builder Script World Instance.
Extraction Blacklist List String Int.
Extraction "model.ml" seq_run sel_stream dedup apply_bcalls build builder_new send_phase send_seq
  recv try_recv chan_new process_action lastn
  step enabled run label_of_thread scenario_world script_config thread_finished get_thread.
