(* WorldForward.v — what the reducer forwards into a subscription channel (channeled subscriber,
   state iterator) is what the snapshots owe it (C10 "the sequence a direct subscriber would
   receive", C14 "every notifying action since the iterator was created"):
   for programs whose registration calls carry pairwise distinct identifiers, in every reachable
   world, for every subscription channel with the blocking policy whose sender is still alive:
   the actions forwarded so far (oldest first), followed by what the notification in progress
   still has to forward, are exactly one entry per snapshot that contains the subscriber, in
   snapshot order. *)
From RS Require Import Base Channel ChannelProofs Pipeline PipelineProofs Selector Script World WorldTactics Hist WorldProofs WorldInv WorldQueue WorldStop WorldSubs WorldMetrics WorldEffects WorldLive WorldSids.

Section WorldForward.
Context {State : Type}.
Variable cfg : wconfig (State := State).
Notation world := (world (State := State)).
Notation step := (step cfg).
Notation event := (event (State := State)).
Notation thread := (thread (State := State)).
Implicit Types w : World.world (State := State).
Implicit Types h : list event.

Definition is_fwd (x : subentry) : bool :=
  match se_kind x with SKChan | SKIter => true | _ => false end.
Definition owes (sid : N) (x : subentry) : bool := is_fwd x && N.eqb (se_id x) sid.
(* what one snapshot owes the channel of sid: the action once per forwarding entry with that id *)
Definition snap_fwd (sid : N) (a : aid) (snap : list subentry) : list aid :=
  map (fun _ => a) (filter (owes sid) snap).

Definition ev_fowed (sid : N) (e : event) : list aid :=
  match e with ESnapshot a _ snap => snap_fwd sid a snap | _ => [] end.
Definition fowed sid h : list aid := flat_map (ev_fowed sid) h.      (* newest first *)

Definition cur_fwd (sid : N) (a : aid) (cur : subentry) : list aid :=
  if N.eqb (se_id cur) sid then [a] else [].
(* what the notification in progress has still to forward to sid *)
Definition pendingf (sid : N) (pc : rpc (State := State)) : list aid :=
  match pc with
  | RNotify a _ rest _ => snap_fwd sid a rest
  | RNotifySend a _ cur rest _ _ => cur_fwd sid a cur ++ snap_fwd sid a rest
  | _ => []
  end.
Definition bad_phase (sid : N) (pc : rpc (State := State)) : Prop :=
  match pc with RNotifySend _ _ cur _ _ ph => se_id cur = sid /\ ph <> SBlockWait | _ => False end.

Definition alive_block (chans : list (N * chan (State * aid))) (sid : N) : Prop :=
  exists c, get_chan chans sid = Some c /\ pol c = Block /\ tx_alive c = true.

Definition fwd_ok (sid : N) (chans : list (N * chan (State * aid))) h (pc : rpc (State := State)) : Prop :=
  alive_block chans sid ->
  rev (fowed sid h) = rev (subsends sid h) ++ pendingf sid pc /\ ~ bad_phase sid pc.

Definition inv_fwd w : Prop :=
  forall sid pc, get_thread (w_threads w) reducer_tid = Some (TReducer pc) ->
    fwd_ok sid (w_chans w) (w_hist w) pc.

(* nothing is owed to an identifier no registration call has been invoked for *)
Definition inv_h w : Prop :=
  forall sid, ~ In sid (hist_regs (w_hist w)) -> fowed sid (w_hist w) = [].

(* ---------- events that neither forward nor owe ---------- *)
Definition fquiet (e : event) : bool :=
  match e with ESubNew _ | ESubSend _ _ | ESnapshot _ _ _ => false | _ => true end.

Lemma fowed_app sid h1 h2 : fowed sid (h1 ++ h2) = fowed sid h1 ++ fowed sid h2.
Proof. apply flat_map_app. Qed.

Lemma fquiet_cons sid e h : fquiet e = true ->
  fowed sid (e :: h) = fowed sid h /\ subsends sid (e :: h) = subsends sid h.
Proof.
  intros Q. unfold fowed, subsends. cbn [since flat_map].
  destruct e; cbn in Q; try discriminate; cbn; auto.
Qed.
Lemma fquiet_app sid l h : forallb fquiet l = true ->
  fowed sid (l ++ h) = fowed sid h /\ subsends sid (l ++ h) = subsends sid h.
Proof.
  induction l as [|e r IH]; cbn [app forallb]; [auto|].
  intros E. apply andb_true_iff in E. destruct E as [E1 E2].
  destruct (fquiet_cons sid e (r ++ h) E1) as [-> ->]. now apply IH.
Qed.

Lemma fquiet_cb x (l : list (cb State aid)) : forallb fquiet (rev (map (ECb x) l)) = true.
Proof. induction l as [|c r IH]; [reflexivity|]. cbn. rewrite forallb_app, IH. reflexivity. Qed.
Lemma fquiet_dq x sr dr : forallb fquiet (rev (dq_events (State := State) x sr dr)) = true.
Proof.
  unfold dq_events. rewrite rev_app_distr, forallb_app.
  assert (D : forall (f : aid -> event), (forall a, fquiet (f a) = true) ->
              forall l, forallb fquiet (rev (map f l)) = true).
  { intros f Hf. induction l as [|c r IH]; [reflexivity|]. cbn. rewrite forallb_app, IH. cbn. now rewrite Hf. }
  destruct sr as [ph|[|]]; [|destruct x|]; cbn; rewrite D by reflexivity; reflexivity.
Qed.
Lemma fquiet_subdrops sid (l : list (State * aid)) :
  forallb fquiet (rev (map (fun _ => ESubDrop (State := State) sid) l)) = true.
Proof. induction l as [|c r IH]; [reflexivity|]. cbn. rewrite forallb_app, IH. reflexivity. Qed.

(* the events of one phase of a send on the channel of s *)
Lemma sub_events_fwd sid s x sr dr h :
  fowed sid (rev (sub_events s x sr dr) ++ h) = fowed sid h /\
  subsends sid (rev (sub_events s x sr dr) ++ h) =
    match sr, x with
    | SDone true, IAct (_, a) => if N.eqb s sid then [a] else []
    | _, _ => []
    end ++ subsends sid h.
Proof.
  unfold sub_events. rewrite rev_app_distr, <- app_assoc.
  assert (E : forall l, forallb fquiet l = true ->
     fowed sid (l ++ rev (map (fun _ => ESubDrop (State := State) s) dr) ++ h) = fowed sid h /\
     subsends sid (l ++ rev (map (fun _ => ESubDrop (State := State) s) dr) ++ h) = subsends sid h).
  { intros l Q. destruct (fquiet_app sid l (rev (map (fun _ => ESubDrop (State := State) s) dr) ++ h) Q) as [-> ->].
    apply fquiet_app. apply fquiet_subdrops. }
  destruct sr as [ph|[|]]; [apply (E []); reflexivity| |apply (E []); reflexivity].
  destruct x as [[s0 a0]|]; [|apply (E []); reflexivity].
  cbn [rev app]. split.
  - unfold fowed. cbn [flat_map ev_fowed app]. apply (fquiet_app sid _ h (fquiet_subdrops s dr)).
  - unfold subsends. cbn [since is_new]. cbn [flat_map ev_subsend].
    destruct (N.eqb s sid); cbn [app]; [f_equal|]; apply (fquiet_app sid _ h (fquiet_subdrops s dr)).
Qed.

(* ---------- channel tables: nothing becomes an alive blocking channel by itself ---------- *)
Definition chans_back (sid : N) (old new : list (N * chan (State * aid))) : Prop :=
  alive_block new sid -> alive_block old sid.

Lemma chans_back_refl sid l : chans_back sid l l.
Proof. intros H; exact H. Qed.
Lemma chans_back_put sid l s c c' : get_chan l s = Some c ->
  (tx_alive c' = true -> pol c' = pol c /\ tx_alive c = true) -> chans_back sid l (put_chan l s c').
Proof.
  intros G H (c0 & G0 & P & A). destruct (N.eq_dec sid s) as [->|NE].
  - rewrite get_put_chan_same in G0. injection G0 as <-. destruct (H A) as [PP AA].
    exists c. repeat split; auto; congruence.
  - rewrite get_put_chan_other in G0 by exact NE. exists c0. auto.
Qed.
Lemma chans_back_trans sid l1 l2 l3 : chans_back sid l1 l2 -> chans_back sid l2 l3 -> chans_back sid l1 l3.
Proof. unfold chans_back. auto. Qed.

(* ---------- the transfer lemma: a step that is quiet for forwarding ---------- *)
Lemma fwd_transfer sid chans chans' h l pc pc' :
  chans_back sid chans chans' -> forallb fquiet l = true ->
  pendingf sid pc' = pendingf sid pc -> (bad_phase sid pc' -> bad_phase sid pc) ->
  fwd_ok sid chans h pc -> fwd_ok sid chans' (l ++ h) pc'.
Proof.
  intros CB Q P B F AB. destruct (F (CB AB)) as [E NB].
  destruct (fquiet_app sid l h Q) as [-> ->]. rewrite P. split; [exact E|]. intros X. apply NB. auto.
Qed.


(* ================= inv_h ================= *)
Definition oquiet (e : event) : bool := match e with ESnapshot _ _ _ => false | _ => true end.
Lemma oquiet_fowed sid l : forallb oquiet l = true -> fowed sid l = [].
Proof.
  induction l as [|e r IH]; [reflexivity|]. cbn [forallb]. intros E. apply andb_true_iff in E.
  destruct E as [E1 E2]. unfold fowed. cbn [flat_map]. fold (fowed sid r). rewrite (IH E2), app_nil_r.
  destruct e; try reflexivity. discriminate.
Qed.
Lemma fquiet_oquiet l : forallb fquiet l = true -> forallb oquiet l = true.
Proof.
  induction l as [|e r IH]; [reflexivity|]. cbn [forallb]. intros E. apply andb_true_iff in E.
  destruct E as [E1 E2]. rewrite (IH E2), andb_true_r. destruct e; try reflexivity; discriminate.
Qed.
Lemma regs_app_not sid l h : ~ In sid (hist_regs (l ++ h)) -> ~ In sid (hist_regs h).
Proof. rewrite hist_regs_app. intros N I. apply N. apply in_or_app. now right. Qed.

Lemma inv_h_ext w0 w1 l : w_hist w1 = l ++ w_hist w0 -> forallb oquiet l = true -> inv_h w0 -> inv_h w1.
Proof.
  intros E Q I sid N. rewrite E in *. rewrite fowed_app, (oquiet_fowed sid l Q). cbn [app].
  apply I. eapply regs_app_not; eauto.
Qed.

Lemma snap_fwd_fresh sid a l : ~ In sid (ids l) -> snap_fwd sid a l = [].
Proof.
  unfold snap_fwd, ids. induction l as [|x r IH]; [reflexivity|]. cbn [map filter In]. intros N.
  unfold owes at 1. destruct (N.eqb_spec (se_id x) sid) as [E|E]; [exfalso; apply N; now left|].
  rewrite andb_false_r. apply IH. intros I. apply N. now right.
Qed.

Lemma inv_h_snapshot w w1 a s : inv_v w -> w_hist w1 = ESnapshot a s (w_subs w) :: w_hist w ->
  inv_h w -> inv_h w1.
Proof.
  intros V E I sid N. rewrite E in *. unfold fowed. cbn [flat_map ev_fowed]. fold (fowed sid (w_hist w)).
  assert (N0 : ~ In sid (hist_regs (w_hist w))) by exact N.
  rewrite (I sid N0), app_nil_r. apply snap_fwd_fresh. intros U. apply N0. apply V. left. exact U.
Qed.

Lemma oquiet_cb x (l : list (cb State aid)) : forallb oquiet (rev (map (ECb x) l)) = true.
Proof. apply fquiet_oquiet, fquiet_cb. Qed.
Lemma oquiet_dq x sr dr : forallb oquiet (rev (dq_events (State := State) x sr dr)) = true.
Proof. apply fquiet_oquiet, fquiet_dq. Qed.
Lemma oquiet_sub s x sr dr : forallb oquiet (rev (sub_events (State := State) s x sr dr)) = true.
Proof.
  unfold sub_events. rewrite rev_app_distr, forallb_app. rewrite (fquiet_oquiet _ (fquiet_subdrops s dr)), andb_true_r.
  destruct sr as [ph|[|]]; [reflexivity| |reflexivity]. destruct x as [[s0 a0]|]; reflexivity.
Qed.

Lemma dq_phase_h w x ph w1 sr : dq_phase w x ph = Some (w1, sr) -> inv_h w -> inv_h w1.
Proof.
  unfold dq_phase. destruct (send_phase (w_dq w) x ph) as [[[dq' sr'] dr]|]; [|discriminate].
  intros H; injection H as <- <-. apply (inv_h_ext w _ (rev (dq_events x sr' dr))); [reflexivity|apply oquiet_dq].
Qed.
Lemma sub_phase_h w s x ph w1 sr : sub_phase w s x ph = Some (w1, sr) -> inv_h w -> inv_h w1.
Proof.
  unfold sub_phase. destruct (get_chan (w_chans w) s) as [c|]; [|intros H; injection H as <- <-; auto].
  destruct (send_phase c x ph) as [[[c' sr'] dr]|]; [|discriminate].
  intros H; injection H as <- <-. apply (inv_h_ext w _ (rev (sub_events s x sr' dr))); [reflexivity|apply oquiet_sub].
Qed.

Ltac hist_prefix h base :=
  lazymatch h with
  | base => constr:(@nil (World.event (State := State)))
  | ?e :: ?r => let p := hist_prefix r base in constr:(e :: p)
  | ?l ++ ?r => let p := hist_prefix r base in constr:(l ++ p)
  end.
Ltac oquiet_side :=
  cbn [forallb oquiet andb app]; rewrite ?forallb_app, ?oquiet_cb; reflexivity.
Ltac hist_eq := cbn [app]; rewrite ?app_nil_r, <- ?app_assoc; reflexivity.
Ltac whist w1 :=
  let h := eval cbn [w_hist set_chan spawn_worker emit emits upd_metrics set_thread set_state set_dq
                     set_tx_open set_reducers set_mws set_subs set_chans set_lasts set_iter_done
                     set_pool set_threads set_next_tid set_metrics set_hist set_rpc] in (w_hist w1) in
  let hh := eval unfold cb_events in h in hh.

Theorem step_h w t w' : inv_v w -> inv_h w -> step w t = Some w' -> inv_h w'.
Proof.
  intros V I H. step_cases H.
  all: repeat match goal with
       | HH : dq_phase ?w0 _ _ = Some (?w1, _), I0 : inv_h _ |- _ =>
           let J := fresh "J" in assert (J : inv_h w1) by (eapply dq_phase_h; [exact HH|exact I0]);
           clear HH; clear I0
       | HH : sub_phase ?w0 _ _ _ = Some (?w1, _), I0 : inv_h _ |- _ =>
           let J := fresh "J" in assert (J : inv_h w1) by (eapply sub_phase_h; [exact HH|exact I0]);
           clear HH; clear I0
       end.
  all: try (match goal with
            | J : inv_h ?w0 |- inv_h ?w1 =>
                let hh := whist w1 in
                let p := hist_prefix hh (w_hist w0) in
                apply (inv_h_ext w0 w1 p); [unfold cb_events; simp_world; hist_eq|oquiet_side|exact J]
            end; fail).
  all: try (match goal with E : w_subs ?w0 = _ |- _ =>
              eapply (inv_h_snapshot w0); [exact V|simp_world; rewrite E; reflexivity|exact I] end).
Qed.


(* ================= inv_fwd ================= *)
Definition red_rel w0 w1 : Prop :=
  forall pc', get_thread (w_threads w1) reducer_tid = Some (TReducer pc') ->
    exists pc, get_thread (w_threads w0) reducer_tid = Some (TReducer pc) /\
      forall sid, alive_block (w_chans w1) sid ->
        pendingf sid pc' = pendingf sid pc /\ (bad_phase sid pc' -> bad_phase sid pc).

Lemma red_rel_same w0 w1 :
  (forall pc', get_thread (w_threads w1) reducer_tid = Some (TReducer pc') ->
               get_thread (w_threads w0) reducer_tid = Some (TReducer pc')) -> red_rel w0 w1.
Proof. intros H pc' G'. exists pc'. split; [auto|]. intros; split; auto. Qed.

Lemma inv_fwd_ext w0 w1 l :
  w_hist w1 = l ++ w_hist w0 -> forallb fquiet l = true ->
  (forall sid, chans_back sid (w_chans w0) (w_chans w1)) -> red_rel w0 w1 -> inv_fwd w0 -> inv_fwd w1.
Proof.
  intros E Q CB RR I sid pc' G'. destruct (RR pc' G') as (pc & G & R). rewrite E.
  intros AB. destruct (R sid AB) as [P B].
  exact (fwd_transfer sid _ _ _ l pc pc' (CB sid) Q P B (I sid pc G) AB).
Qed.

Lemma dq_phase_fwd w x ph w1 sr : dq_phase w x ph = Some (w1, sr) -> inv_fwd w -> inv_fwd w1.
Proof.
  unfold dq_phase. destruct (send_phase (w_dq w) x ph) as [[[dq' sr'] dr]|]; [|discriminate].
  intros H; injection H as <- <-.
  apply (inv_fwd_ext w _ (rev (dq_events x sr' dr))); [reflexivity|apply fquiet_dq| |].
  - intros sid. apply chans_back_refl.
  - apply red_rel_same. auto.
Qed.

Lemma fquiet_sub_exit s sr dr : forallb fquiet (rev (sub_events (State := State) s IExit sr dr)) = true.
Proof.
  unfold sub_events. rewrite rev_app_distr, forallb_app, fquiet_subdrops, andb_true_r.
  destruct sr as [ph|[|]]; reflexivity.
Qed.

Lemma sub_phase_exit_fwd w s ph w1 sr : sub_phase w s IExit ph = Some (w1, sr) -> inv_fwd w -> inv_fwd w1.
Proof.
  unfold sub_phase. destruct (get_chan (w_chans w) s) as [c|] eqn:G; [|intros H; injection H as <- <-; auto].
  destruct (send_phase c IExit ph) as [[[c' sr'] dr]|] eqn:E; [|discriminate].
  intros H; injection H as <- <-.
  apply (inv_fwd_ext w _ (rev (sub_events s IExit sr' dr))); [reflexivity|apply fquiet_sub_exit| |].
  - intros sid. simp_world. apply (chans_back_put sid _ s c c' G).
    apply send_phase_inv in E. destruct E as (_ & P & T & _). intros A. split; congruence.
  - apply red_rel_same. auto.
Qed.

Lemma snap_fwd_cons sid a x rest :
  snap_fwd sid a (x :: rest) = (if owes sid x then [a] else []) ++ snap_fwd sid a rest.
Proof. unfold snap_fwd. cbn [filter]. destruct (owes sid x); reflexivity. Qed.

(* the reducer passes an entry of the snapshot without forwarding *)
Lemma notify_skip_fwd w w1 a s x rest n l pcnew :
  get_thread (w_threads w) reducer_tid = Some (TReducer (RNotify a s (x :: rest) n)) ->
  w_hist w1 = l ++ w_hist w -> forallb fquiet l = true -> w_chans w1 = w_chans w ->
  (forall pc', get_thread (w_threads w1) reducer_tid = Some (TReducer pc') -> pc' = pcnew) ->
  (pcnew = RNotify a s rest n \/ (rest = [] /\ pcnew = RRecv)) ->
  (is_fwd x = false \/ ~ alive_block (w_chans w) (se_id x)) ->
  inv_fwd w -> inv_fwd w1.
Proof.
  intros G EH Q EC GN PN SK I.
  apply (inv_fwd_ext w w1 l EH Q); [intros sid; rewrite EC; apply chans_back_refl| |exact I].
  intros pc' G'. apply GN in G'. subst pc'. eexists; split; [exact G|]. intros sid AB. rewrite EC in AB.
  assert (O : owes sid x = false).
  { unfold owes. destruct SK as [F|NA]; [now rewrite F|].
    destruct (N.eqb_spec (se_id x) sid) as [<-|NE]; [contradiction|apply andb_false_r]. }
  cbn [pendingf]. rewrite snap_fwd_cons, O. cbn [app].
  destruct PN as [->|[-> ->]]; cbn [pendingf bad_phase]; split; auto.
Qed.

(* the snapshot *)
Lemma snapshot_fwd w w1 a s n pcnew :
  get_thread (w_threads w) reducer_tid = Some (TReducer (RSnapshot a s)) ->
  w_hist w1 = ESnapshot a s (w_subs w) :: w_hist w -> w_chans w1 = w_chans w ->
  (forall pc', get_thread (w_threads w1) reducer_tid = Some (TReducer pc') -> pc' = pcnew) ->
  (pcnew = RNotify a s (w_subs w) n \/ (w_subs w = [] /\ pcnew = RRecv)) ->
  inv_fwd w -> inv_fwd w1.
Proof.
  intros G EH EC GN PN I sid pc' G'. apply GN in G'. subst pc'. rewrite EH, EC. intros AB.
  destruct (I sid _ G AB) as [E NB]. cbn [pendingf] in E. rewrite app_nil_r in E.
  unfold fowed, subsends. cbn [flat_map ev_fowed since is_new ev_subsend app].
  fold (fowed sid (w_hist w)). fold (subsends sid (w_hist w)).
  rewrite rev_app_distr, E.
  assert (RV : rev (snap_fwd sid a (w_subs w)) = snap_fwd sid a (w_subs w)).
  { unfold snap_fwd. generalize (filter (owes sid) (w_subs w)). intros l0.
    induction l0 as [|y r IH]; [reflexivity|]. cbn [map rev]. rewrite IH. clear IH.
    induction r as [|z r IH]; [reflexivity|]. cbn [map app]. now rewrite IH. }
  rewrite RV.
  destruct PN as [->|[EE ->]]; cbn [pendingf bad_phase]; [split; [reflexivity|auto]|].
  rewrite EE. cbn. rewrite app_nil_r. split; [reflexivity|auto].
Qed.

(* one phase of a forwarding send *)
Lemma notify_send_fwd w w1 w2 x a s rest n ph sr pc pcnew l :
  get_thread (w_threads w) reducer_tid = Some (TReducer pc) ->
  ((pc = RNotify a s (x :: rest) n /\ ph = SStart /\ is_fwd x = true) \/ pc = RNotifySend a s x rest n ph) ->
  sub_phase w (se_id x) (IAct (s, a)) ph = Some (w1, sr) ->
  w_hist w2 = l ++ w_hist w1 -> forallb fquiet l = true -> w_chans w2 = w_chans w1 ->
  (forall pc', get_thread (w_threads w2) reducer_tid = Some (TReducer pc') -> pc' = pcnew) ->
  match sr with
  | SMore ph' => pcnew = RNotifySend a s x rest n ph'
  | SDone _ => pcnew = RNotify a s rest n \/ (rest = [] /\ pcnew = RRecv)
  end ->
  inv_fwd w -> inv_fwd w2.
Proof.
  intros G PC SP EH Q EC GN PN I sid pc' G'. apply GN in G'. subst pc'. rewrite EH, EC. intros AB.
  destruct (fquiet_app sid l (w_hist w1) Q) as [-> ->].
  assert (PF : pendingf sid pc = cur_fwd sid a x ++ snap_fwd sid a rest).
  { destruct PC as [(-> & _ & F)| ->]; cbn [pendingf]; [|reflexivity].
    rewrite snap_fwd_cons. unfold owes, cur_fwd. rewrite F. reflexivity. }
  assert (DONE : forall pcn, pcn = RNotify a s rest n \/ (rest = [] /\ pcn = RRecv) ->
                   pendingf sid pcn = snap_fwd sid a rest /\ ~ bad_phase sid pcn).
  { intros pcn [->|[-> ->]]; cbn [pendingf bad_phase]; split; auto. }
  unfold sub_phase in SP. destruct (get_chan (w_chans w) (se_id x)) as [c|] eqn:GC.
  2:{ injection SP as <- <-. destruct (DONE _ PN) as [P NB]. rewrite P. split; [|exact NB].
      destruct (I sid pc G AB) as [E _]. rewrite E, PF. unfold cur_fwd.
      destruct (N.eqb_spec (se_id x) sid) as [EQ|NE]; [|reflexivity].
      exfalso. destruct AB as (c0 & G0 & _). rewrite <- EQ in G0. congruence. }
  destruct (send_phase c (IAct (s, a)) ph) as [[[c' sr'] dr]|] eqn:E; [|discriminate].
  injection SP as <- <-. simp_world.
  destruct (sub_events_fwd sid (se_id x) (IAct (s, a)) sr' dr (w_hist w)) as [-> ->].
  revert AB. simp_world. intros AB.
  destruct (N.eqb_spec (se_id x) sid) as [EQ|NE].
  - (* the channel of sid itself *)
    assert (AB0 : alive_block (w_chans w) sid).
    { destruct AB as (c0 & G0 & P0 & A0). rewrite <- EQ in G0. rewrite get_put_chan_same in G0.
      injection G0 as <-. apply send_phase_inv in E. destruct E as (_ & P & T & _).
      exists c. rewrite <- EQ. repeat split; congruence. }
    destruct (I sid pc G AB0) as [EI NB]. rewrite PF in EI. unfold cur_fwd in EI.
    assert (EQB : N.eqb (se_id x) sid = true) by now apply N.eqb_eq.
    rewrite EQB in EI.
    assert (PB : pol c = Block).
    { destruct AB0 as (c0 & G0 & P0 & _). rewrite <- EQ in G0. congruence. }
    destruct PC as [(-> & -> & F)| ->].
    + (* first phase: parks before the blocking send *)
      cbn [send_phase] in E. rewrite PB in E. injection E as <- <- <-.
      subst pcnew. cbn [pendingf bad_phase app]. unfold cur_fwd. rewrite EQB. split; [exact EI|].
      intros [_ X]. now apply X.
    + assert (PH : ph = SBlockWait).
      { destruct ph; try reflexivity; exfalso; apply NB; cbn [bad_phase]; split; auto; discriminate. }
      subst ph. cbn [send_phase] in E. unfold send_block in E.
      destruct (try_send c (IAct (s, a))) as [c1|]; [|discriminate]. injection E as <- <- <-.
      destruct (DONE _ PN) as [P NB']. rewrite P. split; [|exact NB'].
      cbn [app rev]. rewrite EI, <- app_assoc. reflexivity.
  - (* another channel *)
    assert (AB0 : alive_block (w_chans w) sid).
    { destruct AB as (c0 & G0 & P0 & A0). rewrite get_put_chan_other in G0 by auto. exists c0. auto. }
    destruct (I sid pc G AB0) as [EI NB]. rewrite PF in EI. unfold cur_fwd in EI.
    assert (EQB : N.eqb (se_id x) sid = false) by now apply N.eqb_neq.
    rewrite EQB in EI. cbn [app] in EI.
    assert (NOSEND : forall T (u : list T), match sr' with SDone true => @nil T | _ => [] end ++ u = u)
      by (intros; destruct sr' as [?|[|]]; reflexivity).
    rewrite NOSEND.
    destruct sr' as [ph'|ok].
    + subst pcnew. cbn [pendingf bad_phase]. unfold cur_fwd. rewrite EQB. cbn [app]. split; [exact EI|].
      intros [X _]. contradiction.
    + destruct (DONE _ PN) as [P NB']. rewrite P. split; [exact EI|exact NB'].
Qed.


(* a subscription channel is created for a fresh identifier *)
Lemma in_all_pending (ths : list (N * thread)) t th sid :
  get_thread ths t = Some th -> In sid (pending th) -> In sid (all_pending ths).
Proof.
  unfold all_pending. induction ths as [|[t' th'] r IH]; cbn [get_thread flat_map]; [discriminate|].
  destruct (N.eqb t t'); intros G P; apply in_or_app.
  - injection G as ->. now left.
  - right. auto.
Qed.

Lemma pending_not_invoked w sid : inv_u w -> In sid (all_pending (w_threads w)) ->
  ~ In sid (hist_regs (w_hist w)).
Proof.
  intros U P X. specialize (U sid).
  assert (A : forall l, In sid l -> 1 <= cnt sid l).
  { intros l I. unfold cnt. now apply (proj1 (count_occ_In N.eq_dec l sid)). }
  apply A in P. apply A in X. lia.
Qed.

Lemma create_fwd w w1 sid0 n p l l2 :
  inv_u w -> inv_v w -> inv_h w -> In sid0 (all_pending (w_threads w)) ->
  w_hist w1 = l ++ ESubNew sid0 :: l2 ++ w_hist w -> forallb fquiet l = true -> forallb fquiet l2 = true ->
  w_chans w1 = put_chan (w_chans w) sid0 (chan_new n p) ->
  (forall pc', get_thread (w_threads w1) reducer_tid = Some (TReducer pc') ->
               get_thread (w_threads w) reducer_tid = Some (TReducer pc')) ->
  inv_fwd w -> inv_fwd w1.
Proof.
  intros U V IH P EH Q Q2 EC GN I sid pc' G'. apply GN in G'. rewrite EH, EC. intros AB.
  destruct (fquiet_app sid l (ESubNew sid0 :: l2 ++ w_hist w) Q) as [-> ->].
  destruct (N.eq_dec sid sid0) as [->|NE].
  - (* the new channel: nothing owed, nothing forwarded, nothing pending *)
    assert (NU : ~ used sid0 w) by (apply pending_is_fresh; auto).
    assert (NH : ~ In sid0 (hist_regs (w_hist w))) by (apply pending_not_invoked; auto).
    unfold fowed, subsends. cbn [flat_map ev_fowed since is_new app]. rewrite N.eqb_refl. cbn [flat_map rev app].
    fold (fowed sid0 (l2 ++ w_hist w)). rewrite (proj1 (fquiet_app sid0 l2 (w_hist w) Q2)), (IH sid0 NH).
    assert (NT : ~ In sid0 (th_sids (TReducer pc'))).
    { intros X. apply NU. right; right. eauto. }
    destruct pc'; cbn [pendingf bad_phase th_sids] in *; try (split; [reflexivity|tauto]).
    + rewrite snap_fwd_fresh by exact NT. split; [reflexivity|tauto].
    + unfold cur_fwd. destruct (N.eqb_spec (se_id cur) sid0) as [E|E]; [exfalso; apply NT; now left|].
      rewrite snap_fwd_fresh by (intros X; apply NT; now right). split; [reflexivity|]. intros [X _]. contradiction.
  - assert (AB0 : alive_block (w_chans w) sid).
    { destruct AB as (c0 & G0 & P0 & A0). rewrite get_put_chan_other in G0 by auto. exists c0. auto. }
    unfold fowed, subsends. cbn [flat_map ev_fowed since is_new app].
    assert (NEB : N.eqb sid0 sid = false) by (apply N.eqb_neq; auto). rewrite NEB.
    cbn [flat_map ev_subsend app].
    fold (fowed sid (l2 ++ w_hist w)). fold (subsends sid (l2 ++ w_hist w)).
    destruct (fquiet_app sid l2 (w_hist w) Q2) as [-> ->]. exact (I sid pc' G' AB0).
Qed.


Ltac fquiet_side :=
  cbn [forallb fquiet andb app]; rewrite ?forallb_app, ?fquiet_cb; reflexivity.

(* the reducer's entry in the thread table of the new world, for a step of another thread *)
Ltac reducer_untouched :=
  let pc' := fresh "pc'" in let G' := fresh "G'" in
  intros pc' G'; revert G'; rew_frames; intros G';
  repeat match type of G' with
    | get_thread (put_thread _ ?t' _) reducer_tid = _ =>
        let EQ := fresh "EQ" in
        destruct (N.eq_dec reducer_tid t') as [EQ|EQ];
        [ rewrite <- EQ in G'; rewrite get_put_same in G'; discriminate G'
        | rewrite get_put_other in G' by exact EQ ]
    end; exact G'.

Ltac reducer_now :=
  let pc' := fresh "pc'" in let G' := fresh "G'" in
  intros pc' G'; revert G'; rew_frames; rewrite get_put_same; intros G'; injection G' as <-; reflexivity.

Ltac chans_side :=
  let sid := fresh "sid" in
  intros sid; rew_frames;
  first
  [ apply chans_back_refl
  | match goal with
    | G : get_chan (w_chans ?w0) ?s = Some ?c |- chans_back _ (w_chans ?w0) (put_chan (w_chans ?w0) ?s (disconnect ?c)) =>
        apply (chans_back_put sid _ s c _ G); cbn [tx_alive disconnect]; intros X; discriminate X
    | G : get_chan (w_chans ?w0) ?s = Some ?c, R : recv ?c = Some (_, ?c')
      |- chans_back _ (w_chans ?w0) (put_chan (w_chans ?w0) ?s ?c') =>
        apply (chans_back_put sid _ s c c' G);
        let F := fresh "F" in pose proof (recv_some _ _ _ R) as F; destruct F as (_ & ? & ? & _);
        intros X; split; congruence
    end ].

Theorem step_fwd w t w' : inv_u w -> inv_v w -> inv_h w -> inv_fwd w -> step w t = Some w' -> inv_fwd w'.
Proof.
  intros U V IH I H. step_cases H.
  all: try (match goal with HB : (_ =? reducer_tid)%N = true |- _ => apply N.eqb_eq in HB; subst end).
  (* forwarding sends *)
  all: try (match goal with
            | SP : sub_phase ?w0 (se_id ?x) (IAct (?s, ?a)) ?ph = Some (?w1, ?sr),
              G : get_thread (w_threads ?w0) reducer_tid = Some (TReducer ?pc) |- inv_fwd ?w2 =>
                let hh := whist w2 in
                let p := hist_prefix hh (w_hist w1) in
                eapply (notify_send_fwd w0 w1 w2 x a s _ _ ph sr pc _ p G);
                [ first [ right; reflexivity
                        | left; split; [reflexivity|split; [reflexivity|unfold is_fwd;
                            match goal with E : se_kind x = _ |- _ => rewrite E end; reflexivity]] ]
                | exact SP | unfold cb_events; simp_world; hist_eq | fquiet_side | simp_world; reflexivity
                | reducer_now
                | first [ reflexivity | left; reflexivity | right; split; reflexivity ]
                | exact I ]
            end; fail).
  (* other phases *)
  all: repeat match goal with
       | HH : dq_phase ?w0 _ _ = Some (?w1, _), I0 : inv_fwd _ |- _ =>
           let J := fresh "J" in assert (J : inv_fwd w1) by (eapply dq_phase_fwd; [exact HH|exact I0]);
           clear I0
       | HH : sub_phase ?w0 _ IExit _ = Some (?w1, _), I0 : inv_fwd _ |- _ =>
           let J := fresh "J" in assert (J : inv_fwd w1) by (eapply sub_phase_exit_fwd; [exact HH|exact I0]);
           clear I0
       end.
  all: use_frames.
  (* steps of threads other than the reducer, and reducer steps outside a notification *)
  all: try (match goal with
            | J : inv_fwd ?w0 |- inv_fwd ?w1 =>
                let hh := whist w1 in
                let p := hist_prefix hh (w_hist w0) in
                apply (inv_fwd_ext w0 w1 p);
                [ unfold cb_events; simp_world; hist_eq | fquiet_side | chans_side
                | first [ apply red_rel_same; reducer_untouched
                        | (intros pc' G'; revert G'; rew_frames; rewrite get_put_same; intros G'; injection G' as <-;
                           eexists; split; [eassumption|]; intros; cbn [pendingf bad_phase]; split; [reflexivity|tauto]) ]
                | exact J ]
            end; fail).
  (* a subscription channel is created *)
  all: try (match goal with
            | G : get_thread (w_threads ?w0) ?t0 = Some (TClient _ (?c :: _) _) |- inv_fwd ?w1 =>
                lazymatch c with
                | CSubscribed ?sid0 ?n0 ?p0 =>
                    eapply (create_fwd w0 w1 sid0 n0 p0 [] [EInv t0 c] U V IH);
                    [ eapply in_all_pending; [exact G|cbn; left; reflexivity]
                    | simp_world; reflexivity | reflexivity | reflexivity | simp_world; reflexivity
                    | reducer_untouched | exact I ]
                | CIter ?sid0 ?n0 ?p0 =>
                    eapply (create_fwd w0 w1 sid0 n0 p0 [] [EInv t0 c] U V IH);
                    [ eapply in_all_pending; [exact G|cbn; left; reflexivity]
                    | simp_world; reflexivity | reflexivity | reflexivity | simp_world; reflexivity
                    | reducer_untouched | exact I ]
                end
            end; fail).
  (* the snapshot *)
  all: try (match goal with
            | G : get_thread (w_threads ?w0) reducer_tid = Some (TReducer (RSnapshot ?a ?s)), E : w_subs ?w0 = _
              |- inv_fwd ?w1 =>
                eapply (snapshot_fwd w0 w1 a s (length (w_subs w0)) _ G);
                [ simp_world; rewrite E; reflexivity | simp_world; reflexivity | reducer_now
                | first [ right; split; [exact E|reflexivity] | left; rewrite E; reflexivity ]
                | exact I ]
            end; fail).
  (* entries of the snapshot the reducer passes without forwarding *)
  all: try (match goal with
            | G : get_thread (w_threads ?w0) reducer_tid = Some (TReducer (RNotify ?a ?s (?x :: ?rest) ?n))
              |- inv_fwd ?w1 =>
                let hh := whist w1 in
                let p := hist_prefix hh (w_hist w0) in
                eapply (notify_skip_fwd w0 w1 a s x rest n p _ G);
                [ unfold cb_events; simp_world; hist_eq | fquiet_side | simp_world; reflexivity | reducer_now
                | first [ left; reflexivity | right; split; reflexivity ]
                | first [ left; unfold is_fwd; match goal with E : se_kind x = _ |- _ => rewrite E end; reflexivity
                        | right; intros (c0 & G0 & P0 & A0); congruence ]
                | exact I ]
            end; fail).
Qed.


Definition inv_all w : Prop := inv_u w /\ inv_v w /\ inv_h w /\ inv_fwd w.

Lemma init_all reducers mws progs : distinct_regs progs -> inv_all (init_world cfg reducers mws progs).
Proof.
  intros D. destruct (init_uv cfg reducers mws progs D) as [U V].
  split; [exact U|split; [exact V|split]].
  - intros sid _. reflexivity.
  - intros sid pc _ (c & G & _). discriminate G.
Qed.

Theorem reachable_fwd reducers mws progs w : distinct_regs progs ->
  reachable cfg reducers mws progs w -> inv_all w.
Proof.
  intros D [sched H]. eapply (run_invariant cfg inv_all); [|apply init_all; exact D|exact H].
  intros w0 t w1 (U & V & IH & I) ST.
  split; [eapply step_u; eauto|split; [eapply step_v; eauto|split; [eapply step_h; eauto|eapply step_fwd; eauto]]].
Qed.

(* what was forwarded to the blocking channel of sid while its sender is alive, followed by what
   the notification in progress still has to forward, is exactly what the snapshots owe it *)
Theorem forwarded_is_owed reducers mws progs w sid c pc : distinct_regs progs ->
  reachable cfg reducers mws progs w ->
  get_chan (w_chans w) sid = Some c -> pol c = Block -> tx_alive c = true ->
  get_thread (w_threads w) reducer_tid = Some (TReducer pc) ->
  rev (fowed sid (w_hist w)) = rev (subsends sid (w_hist w)) ++ pendingf sid pc.
Proof.
  intros D R G P A GR. destruct (reachable_fwd _ _ _ _ D R) as (_ & _ & _ & I).
  apply (I sid pc GR). exists c. auto.
Qed.

(* ... and with the losslessness of a blocking channel: owed = consumed ++ queued ++ to forward *)
Theorem consumed_is_owed reducers mws progs w sid c pc : distinct_regs progs ->
  reachable cfg reducers mws progs w ->
  get_chan (w_chans w) sid = Some c -> pol c = Block -> tx_alive c = true ->
  get_thread (w_threads w) reducer_tid = Some (TReducer pc) ->
  rev (fowed sid (w_hist w)) = rev (subrecvs sid (w_hist w)) ++ qacts c ++ pendingf sid pc.
Proof.
  intros D R G P A GR. rewrite (forwarded_is_owed _ _ _ _ _ _ _ D R G P A GR).
  rewrite (block_channel_lossless w sid c (reachable_subq cfg _ _ _ _ R) G P), <- app_assoc. reflexivity.
Qed.

End WorldForward.
