(* WorldTactics.v — tactics and small lemmas for case analysis over `step`. *)
From RS Require Import Base Channel Pipeline Selector Script World.

(* destruct the scrutinee of an innermost match occurring in H *)
Ltac break_match_hyp H :=
  match type of H with
  | context [match ?x with _ => _ end] =>
      lazymatch x with
      | context [match _ with _ => _ end] => fail
      | _ => destruct x eqn:?
      end
  end.

(* split H : (big match) = Some w' into its leaves, dropping the impossible ones *)
Ltac explode H :=
  repeat (first [ discriminate H | break_match_hyp H ]);
  try discriminate H.

(* destruct the scrutinee of an innermost match occurring in the goal *)
Ltac break_goal_match :=
  match goal with
  | |- context [match ?x with _ => _ end] =>
      lazymatch x with
      | context [match _ with _ => _ end] => fail
      | _ => destruct x
      end
  end.

Ltac inv_some H := injection H as H; try subst.

Section Lemmas.
Context {State : Type}.
Implicit Types w : world (State := State).

Lemma get_put_same (l : list (N * thread (State := State))) t th :
  get_thread (put_thread l t th) t = Some th.
Proof.
  induction l as [|[t' th'] r IH]; cbn; [now rewrite N.eqb_refl|].
  destruct (N.eqb t t') eqn:E; cbn; [now rewrite N.eqb_refl|now rewrite E].
Qed.

Lemma get_put_other (l : list (N * thread (State := State))) t t' th :
  t' <> t -> get_thread (put_thread l t th) t' = get_thread l t'.
Proof.
  intros Hne. induction l as [|[t0 th0] r IH]; cbn.
  - destruct (N.eqb_spec t' t); [contradiction|reflexivity].
  - destruct (N.eqb_spec t t0); cbn.
    + subst. destruct (N.eqb_spec t' t0); [contradiction|reflexivity].
    + destruct (N.eqb_spec t' t0); [reflexivity|exact IH].
Qed.

Lemma get_put_chan_same (l : list (N * chan (State * aid))) s c : get_chan (put_chan l s c) s = Some c.
Proof.
  induction l as [|[k c'] r IH]; cbn; [now rewrite N.eqb_refl|].
  destruct (N.eqb s k) eqn:E; cbn; [now rewrite N.eqb_refl|now rewrite E].
Qed.

Lemma get_put_chan_other (l : list (N * chan (State * aid))) s s' c :
  s' <> s -> get_chan (put_chan l s c) s' = get_chan l s'.
Proof.
  intros Hne. induction l as [|[k c'] r IH]; cbn.
  - destruct (N.eqb_spec s' s); [contradiction|reflexivity].
  - destruct (N.eqb_spec s k); cbn.
    + subst. destruct (N.eqb_spec s' k); [contradiction|reflexivity].
    + destruct (N.eqb_spec s' k); [reflexivity|exact IH].
Qed.
End Lemmas.
