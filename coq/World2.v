(* World2.v — two stores in one process (C19): the model of a pair of stores is the product of two
   single-store worlds; a step of one leaves the other untouched, in content and in what it can do
   next. (True by the structure of the product: in the model there is no state shared between
   stores. The substance of C19 is the correspondence: the harness runs two real stores, with equal
   names, the same reducer type and shared subscriber objects, in one process.) *)
From RS Require Import Base Channel Pipeline Selector Script World.

Section World2.
Context {State : Type}.
Variables cfgA cfgB : wconfig (State := State).

Record world2 := mkWorld2 { wa : world (State := State); wb : world (State := State) }.
Inductive side := SideA | SideB.

Definition step2 (w : world2) (s : side) (t : N) : option world2 :=
  match s with
  | SideA => option_map (fun a => mkWorld2 a (wb w)) (step cfgA (wa w) t)
  | SideB => option_map (fun b => mkWorld2 (wa w) b) (step cfgB (wb w) t)
  end.

Fixpoint run2 (w : world2) (sched : list (side * N)) : option world2 :=
  match sched with
  | [] => Some w
  | (s, t) :: r => match step2 w s t with Some w' => run2 w' r | None => None end
  end.

Definition is_a (p : side * N) : bool := match fst p with SideA => true | SideB => false end.
Definition is_b (p : side * N) : bool := negb (is_a p).

(* frame: a step of one store changes nothing of the other *)
Theorem step2_frame w s t w' : step2 w s t = Some w' ->
  match s with SideA => wb w' = wb w | SideB => wa w' = wa w end.
Proof.
  destruct s; cbn; [destruct (step cfgA (wa w) t)|destruct (step cfgB (wb w) t)]; cbn;
    intros H; inversion H; reflexivity.
Qed.

(* ... in particular not what the other can do next: same enabledness, same results *)
Theorem step2_other_unaffected w s t w' : step2 w s t = Some w' ->
  match s with
  | SideA => forall t', step cfgB (wb w') t' = step cfgB (wb w) t'
  | SideB => forall t', step cfgA (wa w') t' = step cfgA (wa w) t'
  end.
Proof. intros H. pose proof (step2_frame w s t w' H) as F. destruct s; intros t'; now rewrite F. Qed.

(* the projection of any run of the pair onto one store is a run of that store alone, so every
   per-store theorem holds for it *)
Theorem run2_project : forall sched w w', run2 w sched = Some w' ->
  run cfgA (wa w) (map snd (filter is_a sched)) = Some (wa w') /\
  run cfgB (wb w) (map snd (filter is_b sched)) = Some (wb w').
Proof.
  induction sched as [|[s t] r IH]; intros w w' H; cbn in H.
  - injection H as <-. split; reflexivity.
  - destruct (step2 w s t) as [w1|] eqn:E; [|discriminate].
    destruct (IH w1 w' H) as [HA HB]. pose proof (step2_frame w s t w1 E) as F.
    destruct s; cbn [filter is_a is_b fst negb map snd run]; cbn in E.
    + destruct (step cfgA (wa w) t) as [a|]; [|discriminate]. cbn in E. injection E as <-. cbn in *.
      split; [exact HA|exact HB].
    + destruct (step cfgB (wb w) t) as [b|]; [|discriminate]. cbn in E. injection E as <-. cbn in *.
      split; [exact HA|exact HB].
Qed.

End World2.
