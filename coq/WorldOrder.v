(* WorldOrder.v — real-time order of dispatches (C02): the enqueue of a dispatch lies between its
   invocation and its return; hence a dispatch that returned before another was invoked is
   enqueued first. *)
From RS Require Import Base Channel ChannelProofs Pipeline PipelineProofs Selector Script World WorldTactics Hist WorldProofs WorldInv WorldQueue WorldStop WorldMetrics.

Section WorldOrder.
Context {State : Type}.
Variable cfg : wconfig (State := State).
Notation world := (world (State := State)).
Notation step := (step cfg).
Notation event := (event (State := State)).
Notation thread := (thread (State := State)).
Implicit Types w : World.world (State := State).
Implicit Types h : list event.

(* (A) every enqueue is immediately followed (next newer event) by the return of a dispatch of
   that very action: the enqueue and the return belong to one step *)
Fixpoint adj h : Prop :=
  match h with
  | [] => True
  | ERet _ (CDispatch _ a) _ :: EEnq a' :: rest => a = a' /\ adj rest
  | EEnq _ :: _ => False
  | _ :: rest => adj rest
  end.

(* (B) every enqueue of b is preceded (older) by the invocation of a dispatch of b *)
Definition is_inv_of (b : aid) (e : event) : bool :=
  match e with EInv _ (CDispatch _ b') => N.eqb b' b | _ => false end.
Fixpoint enq_inv h : Prop :=
  match h with
  | [] => True
  | EEnq b :: rest => existsb (is_inv_of b) rest = true /\ enq_inv rest
  | _ :: rest => enq_inv rest
  end.

(* a thread inside a dispatch has invoked it *)
Definition invoked_ok h (th : thread) : Prop :=
  match th with
  | TClient _ _ (PDispatchTx _ a) | TClient _ _ (PSending _ a _) => existsb (is_inv_of a) h = true
  | _ => True
  end.

Definition noenq (e : event) : bool := match e with EEnq _ => false | _ => true end.

Lemma adj_quiet_cons e h : noenq e = true -> adj h -> adj (e :: h).
Proof.
  intros Q A. destruct e; cbn in Q; try discriminate; cbn [adj]; try exact A.
  (* ERet: the next event decides *)
  destruct c; try exact A. destruct h as [|e' rest]; [exact I|].
  destruct e'; try exact A. cbn [adj] in A. contradiction.
Qed.
Lemma adj_quiet_app l h : forallb noenq l = true -> adj h -> adj (l ++ h).
Proof.
  induction l as [|e r IH]; cbn [app forallb]; [auto|]. intros Q A. apply andb_true_iff in Q. destruct Q as [Q1 Q2].
  apply adj_quiet_cons; [exact Q1|now apply IH].
Qed.
Lemma enq_inv_quiet_cons e h : noenq e = true -> enq_inv h -> enq_inv (e :: h).
Proof. intros Q A. destruct e; cbn in Q; try discriminate; exact A. Qed.
Lemma enq_inv_quiet_app l h : forallb noenq l = true -> enq_inv h -> enq_inv (l ++ h).
Proof.
  induction l as [|e r IH]; cbn [app forallb]; [auto|]. intros Q A. apply andb_true_iff in Q. destruct Q as [Q1 Q2].
  apply enq_inv_quiet_cons; [exact Q1|now apply IH].
Qed.
Lemma inv_of_mono b l h : existsb (is_inv_of b) h = true -> existsb (is_inv_of b) (l ++ h) = true.
Proof. intros H. rewrite existsb_app, H. apply orb_true_r. Qed.

Lemma noenq_cb x (l : list (cb State aid)) : forallb noenq (rev (map (ECb x) l)) = true.
Proof. induction l as [|c r IH]; [reflexivity|]. cbn. rewrite forallb_app, IH. reflexivity. Qed.

(* the events of a dispatch-queue phase: the enqueue (if any) is the newest of them *)
Lemma dq_events_shape x sr dr :
  exists l, forallb noenq l = true /\
    rev (dq_events (State := State) x sr dr) =
      match sr, x with SDone true, IAct a => [EEnq a] | _, _ => [] end ++ l.
Proof.
  unfold dq_events. rewrite rev_app_distr.
  assert (D : forall (f : aid -> event), (forall a, noenq (f a) = true) ->
              forallb noenq (rev (map f dr)) = true).
  { intros f Hf. induction dr as [|c r IH]; [reflexivity|]. cbn. rewrite forallb_app, IH. cbn. now rewrite Hf. }
  destruct sr as [ph|[|]].
  - exists (rev (map EDrop dr)). split; [now apply D|reflexivity].
  - destruct x as [a|].
    + exists (rev (map EDrop dr)). split; [now apply D|reflexivity].
    + exists (EEnqExit :: rev (map EDrop dr)). split; [cbn; now apply D|reflexivity].
  - exists (rev (map EReject dr)). split; [now apply D|reflexivity].
Qed.


Lemma dq_phase_shape w x ph w1 sr : dq_phase w x ph = Some (w1, sr) ->
  w_threads w1 = w_threads w /\
  exists l, forallb noenq l = true /\
    w_hist w1 = match sr, x with SDone true, IAct a => [EEnq a] | _, _ => [] end ++ l ++ w_hist w.
Proof.
  unfold dq_phase. destruct (send_phase (w_dq w) x ph) as [[[dq' sr'] dr]|]; [|discriminate].
  intros H; injection H as <- <-. split; [reflexivity|].
  destruct (dq_events_shape x sr' dr) as (l & Q & E). exists l. split; [exact Q|].
  unfold emits, upd_metrics, set_dq, set_hist, set_metrics; cbn [w_hist]. rewrite E, <- app_assoc. reflexivity.
Qed.

Lemma noenq_sub sid x sr dr : forallb noenq (rev (sub_events (State := State) sid x sr dr)) = true.
Proof.
  unfold sub_events. rewrite rev_app_distr, forallb_app.
  assert (D : forall (l : list (State * aid)), forallb noenq (rev (map (fun _ => ESubDrop (State := State) sid) l)) = true).
  { induction l as [|c r IH]; [reflexivity|]. cbn. rewrite forallb_app, IH. reflexivity. }
  rewrite D, andb_true_r. destruct sr as [ph|[|]]; [|destruct x as [[s a]|]|]; reflexivity.
Qed.
Lemma sub_phase_shape w sid x ph w1 sr : sub_phase w sid x ph = Some (w1, sr) ->
  w_threads w1 = w_threads w /\ exists l, forallb noenq l = true /\ w_hist w1 = l ++ w_hist w.
Proof.
  unfold sub_phase. destruct (get_chan (w_chans w) sid) as [c|].
  2:{ intros H; injection H as <- <-. split; [reflexivity|]. exists []. split; reflexivity. }
  destruct (send_phase c x ph) as [[[c' sr'] dr]|]; [|discriminate].
  intros H; injection H as <- <-. split; [reflexivity|].
  exists (rev (sub_events sid x sr' dr)). split; [apply noenq_sub|reflexivity].
Qed.

Definition inv_order w : Prop :=
  adj (w_hist w) /\ enq_inv (w_hist w) /\ threads_all disp_ok (w_threads w) /\
  threads_all (invoked_ok (w_hist w)) (w_threads w).

Lemma invoked_mono l h th : invoked_ok h th -> invoked_ok (l ++ h) th.
Proof.
  unfold invoked_ok. destruct th as [r p pc| |]; auto. destruct pc; auto; apply inv_of_mono.
Qed.
Lemma invoked_mono_cons e h th : invoked_ok h th -> invoked_ok (e :: h) th.
Proof. apply (invoked_mono [e]). Qed.
Lemma threads_invoked_mono l h tbl : threads_all (invoked_ok h) tbl -> threads_all (invoked_ok (l ++ h)) tbl.
Proof. intros H t th G. apply invoked_mono. eapply H; eauto. Qed.
Lemma threads_invoked_cons e h tbl : threads_all (invoked_ok h) tbl -> threads_all (invoked_ok (e :: h)) tbl.
Proof. apply (threads_invoked_mono [e]). Qed.

Ltac order_phases :=
  repeat match goal with
  | HH : dq_phase _ _ _ = Some (_, _) |- _ =>
      apply dq_phase_shape in HH; destruct HH as (? & ? & ? & ?)
  | HH : sub_phase _ _ _ _ = Some (_, _) |- _ =>
      apply sub_phase_shape in HH; destruct HH as (? & ? & ? & ?)
  end;
  cbn [w_threads w_hist set_tx_open set_subs] in *.

Ltac rew_order :=
  simp_world; unfold cb_events;
  repeat match goal with
  | E : w_threads ?w1 = w_threads _ |- context [w_threads ?w1] => rewrite E
  | E : w_hist ?w1 = _ |- context [w_hist ?w1] => rewrite E
  end; cbn [app].

Ltac quiet_solve A0 :=
  repeat first
    [ apply adj_quiet_cons; [reflexivity|]
    | apply adj_quiet_app; [first [apply noenq_cb | assumption | reflexivity]|]
    | apply enq_inv_quiet_cons; [reflexivity|]
    | apply enq_inv_quiet_app; [first [apply noenq_cb | assumption | reflexivity]|] ];
  exact A0.

Theorem step_order w t w' : inv_order w -> step w t = Some w' -> inv_order w'.
Proof.
  intros (A & B & D & V) H. step_cases H; order_phases.
  (* inside a dispatch the head of the program is that dispatch *)
  all: try (match goal with
            | G : get_thread (w_threads _) _ = Some (TClient _ _ (PDispatchTx _ _)) |- _ =>
                let F := fresh in pose proof (D _ _ G) as F; cbn in F; destruct F as [? F]; inversion F; subst;
                let F2 := fresh "IV" in pose proof (V _ _ G) as F2; cbn in F2
            | G : get_thread (w_threads _) _ = Some (TClient _ _ (PSending _ _ _)) |- _ =>
                let F := fresh in pose proof (D _ _ G) as F; cbn in F; destruct F as [? F]; inversion F; subst;
                let F2 := fresh "IV" in pose proof (V _ _ G) as F2; cbn in F2
            end).
  all: repeat match goal with ok : bool |- _ => destruct ok end.
  all: unfold inv_order; split; [|split; [|split]].
  (* the enqueue and the return of its dispatch are adjacent; everything else is quiet *)
  all: try (match goal with |- adj _ => rew_order; first [quiet_solve A | (cbn [adj]; split; [reflexivity|quiet_solve A])] end).
  all: try (match goal with |- enq_inv _ =>
              rew_order;
              first [quiet_solve B
                    | (cbn [enq_inv]; split;
                       [repeat (apply inv_of_mono); first [exact IV | (apply (inv_of_mono [_]); exact IV)]
                       |quiet_solve B])] end).
  all: try (match goal with |- threads_all disp_ok _ => solve_threads_all D end).
  all: try (match goal with |- threads_all (invoked_ok _) _ =>
              rew_order;
              repeat (apply threads_all_put;
                      [|first [exact I
                              | (cbn [invoked_ok existsb is_inv_of]; rewrite N.eqb_refl; reflexivity)
                              | (cbn [invoked_ok]; repeat (apply inv_of_mono);
                                 first [exact IV | (apply (inv_of_mono [_]); exact IV)
                                       | (apply (inv_of_mono [_; _]); exact IV)]) ]]);
              repeat first [ apply threads_invoked_cons | apply threads_invoked_mono ]; exact V end).
Qed.

Lemma init_order reducers mws progs : inv_order (init_world cfg reducers mws progs).
Proof.
  unfold inv_order. cbn [w_hist w_threads init_world]. repeat split; try exact I.
  - intros t th G.
    assert (A : forall l i, get_thread (client_threads (State := State) i l ++ [(reducer_tid, TReducer RRecv)]) t = Some th ->
                disp_ok th).
    { induction l as [|p r IH]; intros i; cbn.
      - destruct (N.eqb t reducer_tid); [|discriminate]. intros E; injection E as <-. exact I.
      - destruct (N.eqb t i); [intros E; injection E as <-; exact I|apply IH]. }
    eapply A; eauto.
  - intros t th G.
    assert (A : forall l i, get_thread (client_threads (State := State) i l ++ [(reducer_tid, TReducer RRecv)]) t = Some th ->
                invoked_ok [] th).
    { induction l as [|p r IH]; intros i; cbn.
      - destruct (N.eqb t reducer_tid); [|discriminate]. intros E; injection E as <-. exact I.
      - destruct (N.eqb t i); [intros E; injection E as <-; exact I|apply IH]. }
    eapply A; eauto.
Qed.

Theorem reachable_order reducers mws progs w :
  reachable cfg reducers mws progs w -> inv_order w.
Proof.
  intros [sched H]. eapply (run_invariant cfg inv_order); [|apply init_order|exact H].
  intros; eapply step_order; eauto.
Qed.

(* ---------- the consequence: real-time order of enqueues ----------
   "x is older than y in h": h = l1 ++ y :: l2 ++ x :: l3 (newest first) *)
Definition older (x y : event) h : Prop := exists l1 l2 l3, h = l1 ++ y :: l2 ++ x :: l3.

(* (A) as a statement about positions: the event just above (newer than) an enqueue of a is the
   return of a dispatch of a *)
Lemma adj_step x h : adj (x :: h) -> adj h \/ exists a' r, h = EEnq a' :: r /\ adj r.
Proof.
  intros A. destruct x; cbn [adj] in A; try (left; exact A); try contradiction.
  destruct c; try (left; exact A). destruct h as [|z h']; [left; exact I|].
  destruct z; try (left; exact A). destruct A as [_ A]. right. eauto.
Qed.

Lemma adj_positions_gen : forall h,
  (adj h \/ exists a' r, h = EEnq a' :: r /\ adj r) ->
  forall l1 a l3, h = l1 ++ EEnq a :: l3 -> l1 <> [] ->
  exists l1' t e r, l1 = l1' ++ [ERet t (CDispatch e a) r].
Proof.
  induction h as [|x h IH]; intros P l1 a l3 E NE; [destruct l1; discriminate|].
  destruct l1 as [|y l1]; [contradiction|]. injection E as -> E.
  destruct l1 as [|z l1].
  - (* y is directly above the enqueue *)
    cbn in E. subst h. destruct P as [A|(a' & r & EQ & A)].
    + destruct y; cbn [adj] in A; try contradiction.
      destruct c; try contradiction. destruct A as [-> _]. exists [], t, e, r. reflexivity.
    + injection EQ as -> <-. cbn [adj] in A. contradiction.
  - assert (P' : adj h \/ exists a' r, h = EEnq a' :: r /\ adj r).
    { destruct P as [A|(a' & r & EQ & A)]; [now apply (adj_step y)|]. injection EQ as _ <-. left. exact A. }
    destruct (IH P' (z :: l1) a l3 E) as (l1' & t & e & r & EQ); [discriminate|].
    exists (y :: l1'), t, e, r. cbn. now rewrite EQ.
Qed.

Lemma adj_positions : forall h l1 a l3, adj h -> h = l1 ++ EEnq a :: l3 ->
  exists l1' t e r, l1 = l1' ++ [ERet t (CDispatch e a) r].
Proof.
  intros h l1 a l3 A E. destruct l1 as [|y l1].
  - cbn in E. subst h. cbn [adj] in A. contradiction.
  - apply (adj_positions_gen h (or_introl A) (y :: l1) a l3 E). discriminate.
Qed.

(* (B) as a statement about positions: below (older than) an enqueue of b there is the invocation
   of a dispatch of b *)
Lemma enq_inv_positions : forall h l1 b l3, enq_inv h -> h = l1 ++ EEnq b :: l3 ->
  existsb (is_inv_of b) l3 = true.
Proof.
  induction h as [|x h IH]; intros l1 b l3 A E; [destruct l1; discriminate|].
  destruct l1 as [|y l1].
  - injection E as -> ->. cbn [enq_inv] in A. apply A.
  - injection E as -> E. eapply IH; [|exact E].
    destruct y; cbn [enq_inv] in A; try exact A. apply A.
Qed.

End WorldOrder.
