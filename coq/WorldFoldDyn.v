(* WorldFoldDyn.v — the state is the sequential fold of the per-action pipeline also when reducers
   and middlewares are registered at run time (C01, C07): for every program and schedule, every
   write-back (a, s) is the pipeline of a applied to the previously written state, run with a
   middleware list MS and a reducer list RS1 that lie between the registry as it was when the
   reducer took a and the registry as it is at the write-back - registries only grow at the end, so
   "between" means: everything registered before the action was taken is in, in registration
   order, and nothing is in that was never registered. *)
From RS Require Import Base Channel ChannelProofs Pipeline PipelineProofs Selector Script World WorldTactics Hist WorldProofs WorldInv WorldQueue WorldStop.

Section WorldFoldDyn.
Context {State : Type}.
Variable cfg : wconfig (State := State).
Variables RS0 MS0 : list N.      (* the registries at build time *)
Notation world := (world (State := State)).
Notation step := (step cfg).
Notation event := (event (State := State)).
Notation thread := (thread (State := State)).
Implicit Types w : World.world (State := State).
Implicit Types h : list event.

Definition addm_call (c : call) : list N := match c with CAddMiddleware id => [id] | _ => [] end.
Definition addr_call (c : call) : list N := match c with CAddReducer id => [id] | _ => [] end.
Definition ev_addm (e : event) : list N := match e with ERet _ c _ => addm_call c | _ => [] end.
Definition ev_addr (e : event) : list N := match e with ERet _ c _ => addr_call c | _ => [] end.
Definition added_m h : list N := flat_map ev_addm h.    (* newest first *)
Definition added_r h : list N := flat_map ev_addr h.
(* the registries as the history says they are *)
Definition mws_all h : list N := MS0 ++ rev (added_m h).
Definition reds_all h : list N := RS0 ++ rev (added_r h).
(* the part of the history older than the newest take *)
Fixpoint after_deq h : list event :=
  match h with
  | [] => []
  | EDeq _ :: r => r
  | _ :: r => after_deq r
  end.
Definition mws_at_deq h := mws_all (after_deq h).
Definition reds_at_deq h := reds_all (after_deq h).

Definition prefix {A} (l1 l2 : list A) : Prop := exists l3, l2 = l1 ++ l3.
Definition between {A} (lo x hi : list A) : Prop := prefix lo x /\ prefix x hi.

Definition init0 := cfg_init cfg.
Definition step_with (MS RS1 : list N) (s : State) (a : aid) : State :=
  post_state (map (cfg_mw cfg) MS) (map (cfg_reducer cfg) RS1) s a.

Definition write_ok (r : list event) (a : aid) (s : State) : Prop :=
  exists MS RS1, between (mws_at_deq r) MS (mws_all r) /\ between (reds_at_deq r) RS1 (reds_all r) /\
                 s = step_with MS RS1 (last_written init0 r) a.

(* every write-back in the history is the pipeline applied to the previous write-back *)
Fixpoint chain_dyn h : Prop :=
  match h with
  | [] => True
  | e :: r => match e with EWrite a s => write_ok r a s | _ => True end /\ chain_dyn r
  end.

Definition pc_dyn h (cur : State) (pc : rpc (State := State)) : Prop :=
  match pc with
  | RReduce a go =>
      exists MS, between (mws_at_deq h) MS (mws_all h) /\ go = negb (vetoed (map (cfg_mw cfg) MS) a cur)
  | RWrite a s _ _ =>
      exists MS RS1, between (mws_at_deq h) MS (mws_all h) /\ between (reds_at_deq h) RS1 (reds_all h) /\
                     s = step_with MS RS1 cur a
  | _ => True
  end.

Definition inv_dyn w : Prop :=
  let h := w_hist w in
  w_mws w = mws_all h /\ w_reducers w = reds_all h /\ w_state w = last_written init0 h /\
  chain_dyn h /\
  forall pc, get_thread (w_threads w) reducer_tid = Some (TReducer pc) -> pc_dyn h (w_state w) pc.

(* a thread whose current call registers a reducer or middleware is before or at its atomic step *)
Definition dadd_ok (th : thread) : Prop :=
  match th with
  | TClient _ (c :: _) pc =>
      (addm_call c = [] /\ addr_call c = []) \/ pc = PIdle \/ (exists k v, pc = PTaskStart k v) \/ pc = PCall
  | _ => True
  end.

(* ---------- lists ---------- *)
Lemma prefix_refl {A} (l : list A) : prefix l l.
Proof. exists []. now rewrite app_nil_r. Qed.
Lemma prefix_app {A} (l1 l2 x : list A) : prefix l1 l2 -> prefix l1 (l2 ++ x).
Proof. intros [l3 ->]. exists (l3 ++ x). now rewrite app_assoc. Qed.
Lemma between_app {A} (lo x hi y : list A) : between lo x hi -> between lo x (hi ++ y).
Proof. intros [P1 P2]. split; [exact P1|now apply prefix_app]. Qed.

(* ---------- projections ---------- *)
Lemma added_m_app h1 h2 : added_m (h1 ++ h2) = added_m h1 ++ added_m h2.
Proof. apply flat_map_app. Qed.
Lemma added_r_app h1 h2 : added_r (h1 ++ h2) = added_r h1 ++ added_r h2.
Proof. apply flat_map_app. Qed.
Lemma mws_all_app l h : mws_all (l ++ h) = mws_all h ++ rev (added_m l).
Proof. unfold mws_all. now rewrite added_m_app, rev_app_distr, app_assoc. Qed.
Lemma reds_all_app l h : reds_all (l ++ h) = reds_all h ++ rev (added_r l).
Proof. unfold reds_all. now rewrite added_r_app, rev_app_distr, app_assoc. Qed.

(* no take and no write-back among the new events *)
Definition dquiet (e : event) : bool := match e with EDeq _ | EWrite _ _ => false | _ => true end.
Lemma dquiet_after l h : forallb dquiet l = true -> after_deq (l ++ h) = after_deq h.
Proof.
  induction l as [|e r IH]; cbn [app forallb]; [auto|]. intros E. apply andb_true_iff in E.
  destruct E as [E1 E2]. destruct e; cbn in E1; try discriminate; cbn [after_deq]; auto.
Qed.
Lemma dquiet_writes l h : forallb dquiet l = true -> writes (l ++ h) = writes h.
Proof.
  induction l as [|e r IH]; cbn [app forallb]; [auto|]. intros E. apply andb_true_iff in E.
  destruct E as [E1 E2]. unfold writes in *. cbn [flat_map]. rewrite (IH E2).
  destruct e; cbn in E1; try discriminate; reflexivity.
Qed.
Lemma dquiet_chain l h : forallb dquiet l = true -> chain_dyn h -> chain_dyn (l ++ h).
Proof.
  induction l as [|e r IH]; cbn [app forallb]; [auto|]. intros E C. apply andb_true_iff in E.
  destruct E as [E1 E2]. cbn [chain_dyn]. split; [|auto]. destruct e; cbn in E1; try discriminate; exact I.
Qed.
Lemma after_deq_suffix h : exists l0, h = l0 ++ after_deq h.
Proof.
  induction h as [|e r [l0 IH]]; [exists []; reflexivity|].
  destruct e; cbn [after_deq]; try (exists (EDeq i :: []); reflexivity);
    match goal with |- exists l1, ?e0 :: r = _ => exists (e0 :: l0); cbn [app]; now rewrite <- IH end.
Qed.
Lemma at_deq_prefix_m h : prefix (mws_at_deq h) (mws_all h).
Proof. destruct (after_deq_suffix h) as [l0 E]. unfold mws_at_deq. rewrite E at 2. rewrite mws_all_app. eexists; reflexivity. Qed.
Lemma at_deq_prefix_r h : prefix (reds_at_deq h) (reds_all h).
Proof. destruct (after_deq_suffix h) as [l0 E]. unfold reds_at_deq. rewrite E at 2. rewrite reds_all_app. eexists; reflexivity. Qed.

Lemma dquiet_cb x (l : list (cb State aid)) : forallb dquiet (rev (map (ECb x) l)) = true.
Proof. induction l as [|c r IH]; [reflexivity|]. cbn. rewrite forallb_app, IH. reflexivity. Qed.
Lemma added_cb x (l : list (cb State aid)) : added_m (rev (map (ECb x) l)) = [] /\ added_r (rev (map (ECb x) l)) = [].
Proof. unfold added_m, added_r. split; apply proj_cb; reflexivity. Qed.

(* the events of the phases *)
Lemma phase_events_quiet (l : list event) :
  (forall e, In e l -> match e with EDeq _ | EWrite _ _ | ERet _ _ _ => False | _ => True end) ->
  forallb dquiet l = true /\ added_m l = [] /\ added_r l = [].
Proof.
  induction l as [|e r IH]; [auto|]. intros H. destruct IH as (Q & M & R); [intros; apply H; now right|].
  pose proof (H e (or_introl eq_refl)) as He. unfold added_m, added_r in *. cbn [forallb flat_map]. rewrite Q, M, R.
  destruct e; try contradiction; auto.
Qed.
Lemma dq_events_dyn x sr dr :
  forallb dquiet (rev (dq_events (State := State) x sr dr)) = true /\
  added_m (rev (dq_events (State := State) x sr dr)) = [] /\ added_r (rev (dq_events (State := State) x sr dr)) = [].
Proof.
  apply phase_events_quiet. intros e I. apply in_rev in I. unfold dq_events in I. apply in_app_or in I.
  destruct I as [I|I].
  - apply in_map_iff in I. destruct I as (? & <- & _). destruct sr as [?|[|]]; exact I.
  - destruct sr as [?|[|]]; try destruct x; cbn in I; try contradiction; destruct I as [<-|[]]; exact I.
Qed.
Lemma sub_events_dyn s x sr dr :
  forallb dquiet (rev (sub_events (State := State) s x sr dr)) = true /\
  added_m (rev (sub_events (State := State) s x sr dr)) = [] /\ added_r (rev (sub_events (State := State) s x sr dr)) = [].
Proof.
  apply phase_events_quiet. intros e I. apply in_rev in I. unfold sub_events in I. apply in_app_or in I.
  destruct I as [I|I].
  - apply in_map_iff in I. destruct I as (? & <- & _). exact I.
  - destruct sr as [?|[|]]; try destruct x as [[? ?]|]; cbn in I; try contradiction; destruct I as [<-|[]]; exact I.
Qed.

(* ---------- the generic step: no take, no write-back; the registries grew as the history says;
   the state and the reducer's program counter are those of before ---------- *)
Lemma dyn_ext w0 w1 l : w_hist w1 = l ++ w_hist w0 -> forallb dquiet l = true ->
  w_mws w1 = w_mws w0 ++ rev (added_m l) -> w_reducers w1 = w_reducers w0 ++ rev (added_r l) ->
  w_state w1 = w_state w0 ->
  (forall pc', get_thread (w_threads w1) reducer_tid = Some (TReducer pc') ->
     get_thread (w_threads w0) reducer_tid = Some (TReducer pc') \/
     match pc' with RReduce _ _ | RWrite _ _ _ _ => False | _ => True end) ->
  inv_dyn w0 -> inv_dyn w1.
Proof.
  intros E Q EM ER ES GP (M & R & ST & CH & PC). unfold inv_dyn. rewrite E.
  split; [rewrite EM, M, mws_all_app; reflexivity|]. split; [rewrite ER, R, reds_all_app; reflexivity|].
  split; [rewrite ES, ST; unfold last_written; now rewrite dquiet_writes|]. split; [now apply dquiet_chain|].
  intros pc' G'. destruct (GP pc' G') as [G|NP].
  - specialize (PC pc' G). rewrite ES.
    destruct pc'; cbn [pc_dyn] in *; try exact I; unfold mws_at_deq, reds_at_deq in *.
    + destruct PC as (MS & B & GO). exists MS. rewrite dquiet_after by exact Q. rewrite mws_all_app.
      split; [now apply between_app|exact GO].
    + destruct PC as (MS & RS1 & B1 & B2 & S). exists MS, RS1. rewrite dquiet_after by exact Q.
      rewrite mws_all_app, reds_all_app. split; [now apply between_app|split; [now apply between_app|exact S]].
  - destruct pc'; try contradiction; exact I.
Qed.

Lemma dq_phase_dyn w x ph w1 sr : dq_phase w x ph = Some (w1, sr) -> inv_dyn w -> inv_dyn w1.
Proof.
  unfold dq_phase. destruct (send_phase (w_dq w) x ph) as [[[dq' sr'] dr]|]; [|discriminate].
  intros H; injection H as <- <-. destruct (dq_events_dyn x sr' dr) as (Q & AM & AR).
  apply (dyn_ext w _ (rev (dq_events x sr' dr))); auto; simp_world; rewrite ?AM, ?AR, ?app_nil_r; auto.
Qed.
Lemma sub_phase_dyn w s x ph w1 sr : sub_phase w s x ph = Some (w1, sr) -> inv_dyn w -> inv_dyn w1.
Proof.
  unfold sub_phase. destruct (get_chan (w_chans w) s) as [c|]; [|intros H; injection H as <- <-; auto].
  destruct (send_phase c x ph) as [[[c' sr'] dr]|]; [|discriminate].
  intros H; injection H as <- <-. destruct (sub_events_dyn s x sr' dr) as (Q & AM & AR).
  apply (dyn_ext w _ (rev (sub_events s x sr' dr))); auto; simp_world; rewrite ?AM, ?AR, ?app_nil_r; auto.
Qed.


(* ---------- threads inside add_reducer / add_middleware ---------- *)
Lemma dadd_body b : match calls_of_body b with c :: _ => addm_call c = [] /\ addr_call c = [] | [] => True end.
Proof. induction b as [|[e a| |] r IH]; cbn; auto. Qed.
Lemma dadd_eff e : match prog_of_eff e with c :: _ => addm_call c = [] /\ addr_call c = [] | [] => True end.
Proof. unfold prog_of_eff. destruct (e_kind e); try apply dadd_body; cbn; auto. Qed.

Theorem step_dadd w t w' : threads_all dadd_ok (w_threads w) -> step w t = Some w' ->
  threads_all dadd_ok (w_threads w').
Proof.
  intros T H. step_cases H; use_frames.
  all: match goal with G : get_thread (w_threads _) _ = Some ?th |- _ =>
         let F := fresh "HO" in pose proof (T _ _ G) as F; cbn [dadd_ok addm_call addr_call] in F end.
  all: solve_threads_all T; cbn [dadd_ok addm_call addr_call].
  all: try (match goal with |- match ?x with _ => _ end => destruct x; try exact I end).
  all: try (left; split; reflexivity).
  all: try (right; left; reflexivity).
  all: try (right; right; right; reflexivity).
  all: try (right; right; left; eauto; fail).
  all: try (match goal with |- match calls_of_body ?b with _ => _ end =>
              pose proof (dadd_body b) as HB; destruct (calls_of_body b); [exact I|left; exact HB] end).
  all: try (match goal with |- match prog_of_eff ?e0 with _ => _ end =>
              pose proof (dadd_eff e0) as HB; destruct (prog_of_eff e0); [exact I|left; exact HB] end).
  all: try (match goal with HO : match ?p with _ => _ end |- match ?p with _ => _ end =>
              let cc := fresh "cc" in
              destruct p as [|cc ?]; [exact I|];
              destruct HO as [HO|[HO|[(? & ? & HO)|HO]]]; try discriminate HO; left; exact HO end).
  all: try (destruct HO as [HO|[HO|[(? & ? & HO)|HO]]]; try discriminate HO; left; exact HO).
Qed.


(* ---------- the reducer's own steps that carry a claim ---------- *)
Lemma dyn_take w0 w1 i : w_hist w1 = EDeq i :: w_hist w0 ->
  w_mws w1 = w_mws w0 -> w_reducers w1 = w_reducers w0 -> w_state w1 = w_state w0 ->
  (forall pc', get_thread (w_threads w1) reducer_tid = Some (TReducer pc') ->
     match pc' with RReduce _ _ | RWrite _ _ _ _ => False | _ => True end) ->
  inv_dyn w0 -> inv_dyn w1.
Proof.
  intros E EM ER ES GP (M & R & ST & CH & PC). unfold inv_dyn. rewrite E.
  change (EDeq i :: w_hist w0) with ([EDeq i] ++ w_hist w0). rewrite mws_all_app, reds_all_app.
  cbn [added_m added_r flat_map ev_addm ev_addr rev app]. rewrite !app_nil_r.
  split; [congruence|split; [congruence|split; [rewrite ES; exact ST|split; [cbn [app chain_dyn]; auto|]]]].
  intros pc' G'. specialize (GP pc' G'). destruct pc'; try contradiction; exact I.
Qed.

Lemma dyn_claim w0 w1 l pcn : w_hist w1 = l ++ w_hist w0 -> forallb dquiet l = true ->
  added_m l = [] -> added_r l = [] ->
  w_mws w1 = w_mws w0 -> w_reducers w1 = w_reducers w0 -> w_state w1 = w_state w0 ->
  (forall pc', get_thread (w_threads w1) reducer_tid = Some (TReducer pc') -> pc' = pcn) ->
  (inv_dyn w0 -> pc_dyn (w_hist w0) (w_state w0) pcn) ->
  inv_dyn w0 -> inv_dyn w1.
Proof.
  intros E Q AM AR EM ER ES GP CL I0. pose proof (CL I0) as C. destruct I0 as (M & R & ST & CH & PC).
  unfold inv_dyn. rewrite E.
  rewrite mws_all_app, reds_all_app, AM, AR. cbn [rev]. rewrite !app_nil_r.
  split; [congruence|split; [congruence|split; [rewrite ES, ST; unfold last_written; now rewrite dquiet_writes|]]].
  split; [now apply dquiet_chain|]. intros pc' G'. rewrite (GP pc' G'), ES.
  destruct pcn; cbn [pc_dyn] in *; try exact I; unfold mws_at_deq, reds_at_deq in *;
    rewrite dquiet_after by exact Q; rewrite ?mws_all_app, ?reds_all_app, ?AM, ?AR; cbn [rev]; rewrite ?app_nil_r; exact C.
Qed.

Lemma dyn_write w0 w1 a s effs nd : get_thread (w_threads w0) reducer_tid = Some (TReducer (RWrite a s effs nd)) ->
  w_hist w1 = EWrite a s :: w_hist w0 ->
  w_mws w1 = w_mws w0 -> w_reducers w1 = w_reducers w0 -> w_state w1 = s ->
  (forall pc', get_thread (w_threads w1) reducer_tid = Some (TReducer pc') ->
     match pc' with RReduce _ _ | RWrite _ _ _ _ => False | _ => True end) ->
  inv_dyn w0 -> inv_dyn w1.
Proof.
  intros G E EM ER ES GP (M & R & ST & CH & PC). specialize (PC _ G). cbn [pc_dyn] in PC.
  unfold inv_dyn. rewrite E.
  change (EWrite a s :: w_hist w0) with ([EWrite a s] ++ w_hist w0). rewrite mws_all_app, reds_all_app.
  cbn [added_m added_r flat_map ev_addm ev_addr rev app]. rewrite !app_nil_r.
  split; [congruence|split; [congruence|split; [rewrite ES; reflexivity|split]]].
  - cbn [app chain_dyn]. split; [|exact CH]. unfold write_ok. rewrite <- ST. exact PC.
  - intros pc' G'. specialize (GP pc' G'). destruct pc'; try contradiction; exact I.
Qed.

Ltac hist_prefix h base :=
  lazymatch h with
  | base => constr:(@nil (World.event (State := State)))
  | ?e :: ?r => let p := hist_prefix r base in constr:(e :: p)
  | ?l ++ ?r => let p := hist_prefix r base in constr:(l ++ p)
  end.
Ltac hist_eq := cbn [app]; rewrite ?app_nil_r, <- ?app_assoc; reflexivity.
Ltac whist w1 :=
  let h := eval cbn [w_hist set_chan spawn_worker emit emits upd_metrics set_thread set_state set_dq
                     set_tx_open set_reducers set_mws set_subs set_chans set_lasts set_iter_done
                     set_pool set_threads set_next_tid set_metrics set_hist set_rpc] in (w_hist w1) in
  let hh := eval unfold cb_events in h in hh.

Ltac dquiet_side :=
  cbn [forallb dquiet andb app]; rewrite ?forallb_app, ?dquiet_cb; reflexivity.
(* added_m / added_r of the new events: [] except for the return of an add call *)
Ltac added_side :=
  rew_frames;
  repeat (progress (rewrite ?added_m_app, ?added_r_app, ?(proj1 (added_cb _ _)), ?(proj2 (added_cb _ _))));
  unfold added_m, added_r; cbn [flat_map ev_addm ev_addr addm_call addr_call app rev];
  repeat match goal with
  | E : addm_call ?c = [] |- context [addm_call ?c] => rewrite E
  | E : addr_call ?c = [] |- context [addr_call ?c] => rewrite E
  end;
  cbn [app rev]; rewrite ?app_nil_r; reflexivity.

Ltac added_nil :=
  unfold added_m, added_r; repeat (cbn [flat_map ev_addm ev_addr app]; rewrite ?flat_map_app);
  rewrite ?(proj_cb ev_addm), ?(proj_cb ev_addr) by reflexivity; reflexivity.

Ltac reducer_side :=
  let pc' := fresh "pc'" in let G' := fresh "G'" in
  intros pc' G'; revert G'; rew_frames; intros G';
  first
  [ (* a step of the reducer into a pc that carries no claim *)
    (rewrite get_put_same in G'; injection G' as <-; right; exact I)
  | (* a step of another thread *)
    (left;
     repeat match type of G' with
       | get_thread (put_thread _ ?t' _) reducer_tid = _ =>
           let EQ := fresh "EQ" in
           destruct (N.eq_dec reducer_tid t') as [EQ|EQ];
           [ rewrite <- EQ in G'; rewrite get_put_same in G'; discriminate G'
           | rewrite get_put_other in G' by exact EQ ]
       end; exact G') ].

Theorem step_dyn w t w' : threads_all dadd_ok (w_threads w) -> inv_dyn w -> step w t = Some w' -> inv_dyn w'.
Proof.
  intros T IV H. step_cases H.
  all: match goal with G : get_thread (w_threads _) _ = Some ?th |- _ =>
         let HO := fresh "HO" in pose proof (T _ _ G) as HO; cbn [dadd_ok addm_call addr_call] in HO end.
  all: try (match goal with HB : (_ =? reducer_tid)%N = true |- _ => apply N.eqb_eq in HB; subst end).
  (* the head call of a thread past its atomic step is no add call *)
  all: try (match goal with HX : (addm_call ?c = [] /\ addr_call ?c = []) \/ _ |- _ =>
              let AM := fresh "AM" in let AR := fresh "AR" in let HY := fresh "HY" in
              destruct HX as [[AM AR]|[HY|[(? & ? & HY)|HY]]]; try discriminate HY end).
  all: try (destruct HO as [[_ HY]|[HY|[(? & ? & HY)|HY]]]; discriminate HY).
  all: try (destruct HO as [[HY _]|[HY|[(? & ? & HY)|HY]]]; discriminate HY).
  all: repeat match goal with
       | HH : dq_phase ?w0 _ _ = Some (?w1, _), I0 : inv_dyn _ |- _ =>
           let J := fresh "J" in assert (J : inv_dyn w1) by (eapply dq_phase_dyn; [exact HH|exact I0]); clear I0
       | HH : sub_phase ?w0 _ _ _ = Some (?w1, _), I0 : inv_dyn _ |- _ =>
           let J := fresh "J" in assert (J : inv_dyn w1) by (eapply sub_phase_dyn; [exact HH|exact I0]); clear I0
       end.
  all: use_frames.
  all: try (match goal with
            | J : inv_dyn ?w0 |- inv_dyn ?w1 =>
                let hh := whist w1 in
                let p := hist_prefix hh (w_hist w0) in
                apply (dyn_ext w0 w1 p);
                [ unfold cb_events; simp_world; hist_eq | dquiet_side | added_side | added_side
                | rew_frames; reflexivity | reducer_side | exact J ]
            end; fail).
  (* the reducer takes an item *)
  all: try (match goal with
            | G : get_thread (w_threads ?w0) reducer_tid = Some (TReducer RRecv) |- inv_dyn ?w1 =>
                eapply (dyn_take w0 w1 _); [simp_world; reflexivity|reflexivity|reflexivity|reflexivity| |exact IV];
                intros pc' G'; revert G'; rew_frames; rewrite get_put_same; intros G'; injection G' as <-; exact I
            end; fail).
  (* the write-back *)
  all: try (match goal with
            | G : get_thread (w_threads ?w0) reducer_tid = Some (TReducer (RWrite ?a ?s ?effs ?nd)) |- inv_dyn ?w1 =>
                eapply (dyn_write w0 w1 a s effs nd G); [simp_world; reflexivity|reflexivity|reflexivity|reflexivity| |exact IV];
                intros pc' G'; revert G'; rew_frames; rewrite get_put_same; intros G'; injection G' as <-; exact I
            end; fail).
  (* before_reduce decided; the chain ran or was vetoed *)
  all: try match goal with
       | G : get_thread (w_threads ?w0) reducer_tid = Some (TReducer _) |- inv_dyn ?w1 =>
           let hh := whist w1 in
           let p := hist_prefix hh (w_hist w0) in
           eapply (dyn_claim w0 w1 p _);
           [ unfold cb_events; simp_world; hist_eq | dquiet_side
           | added_nil | added_nil
           | reflexivity | reflexivity | reflexivity
           | (intros pc' G'; revert G'; rew_frames; rewrite get_put_same; intros G'; injection G' as <-; reflexivity)
           | | exact IV ]
       end.
  - (* before_reduce decided whether the reducers run: with the registry as it is now *)
    intros (M & R & ST & CH & PC). cbn [pc_dyn]. exists (w_mws w). split.
    + split; [rewrite M; apply at_deq_prefix_m|rewrite M; apply prefix_refl].
    + unfold mws_of in Heqp. rewrite br_phase_spec in Heqp. cbn zeta in Heqp. injection Heqp as <- _ _.
      unfold vetoed, br_verdicts. reflexivity.
  - (* the chain ran: with the reducers registered now *)
    intros (M & R & ST & CH & PC). specialize (PC _ Heqo). cbn [pc_dyn] in *.
    destruct PC as (MS & B & GO). exists MS, (w_reducers w). split; [exact B|]. split.
    + split; [rewrite R; apply at_deq_prefix_r|rewrite R; apply prefix_refl].
    + unfold reducers_of in Heqp. rewrite run_reducers_spec in Heqp. cbn zeta in Heqp. injection Heqp as <- _ _ _.
      unfold step_with, post_state. symmetry in GO. apply negb_true_iff in GO. rewrite GO. reflexivity.
  - (* vetoed: the state is left alone *)
    intros (M & R & ST & CH & PC). specialize (PC _ Heqo). cbn [pc_dyn] in *.
    destruct PC as (MS & B & GO). exists MS, (w_reducers w). split; [exact B|]. split.
    + split; [rewrite R; apply at_deq_prefix_r|rewrite R; apply prefix_refl].
    + unfold step_with, post_state. symmetry in GO. apply negb_false_iff in GO. rewrite GO. reflexivity.
Qed.

Lemma init_dyn progs : inv_dyn (init_world cfg RS0 MS0 progs) /\ threads_all dadd_ok (w_threads (init_world cfg RS0 MS0 progs)).
Proof.
  split.
  - unfold inv_dyn, init_world. cbn [w_hist w_mws w_reducers w_state w_threads].
    unfold mws_all, reds_all. cbn. rewrite !app_nil_r. repeat split; auto.
    intros pc G.
    assert (A : forall l i, get_thread (client_threads (State := State) i l ++ [(reducer_tid, TReducer RRecv)]) reducer_tid = Some (TReducer pc) -> pc = RRecv).
    { induction l as [|p r IH]; intros i; cbn [client_threads app get_thread].
      - rewrite N.eqb_refl. intros E; injection E as <-. reflexivity.
      - destruct (N.eqb reducer_tid i); [discriminate|apply IH]. }
    apply A in G. subst. exact I.
  - intros t th G. unfold init_world in G. cbn [w_threads] in G.
    assert (A : forall l i, get_thread (client_threads (State := State) i l ++ [(reducer_tid, TReducer RRecv)]) t = Some th ->
                (exists p, th = TClient Client p PIdle) \/ th = TReducer RRecv).
    { induction l as [|p r IH]; intros i; cbn [client_threads app get_thread].
      - destruct (N.eqb t reducer_tid); [|discriminate]. intros E; injection E as <-. now right.
      - destruct (N.eqb t i); [intros E; injection E as <-; left; eauto|apply IH]. }
    apply A in G. destruct G as [[p ->]| ->]; [|exact I]. cbn [dadd_ok]. destruct p; [exact I|]. right; left. reflexivity.
Qed.

Theorem reachable_dyn progs w : reachable cfg RS0 MS0 progs w -> inv_dyn w.
Proof.
  intros [sched H].
  assert (A : inv_dyn w /\ threads_all dadd_ok (w_threads w)).
  { eapply (run_invariant cfg (fun w => inv_dyn w /\ threads_all dadd_ok (w_threads w))); [|apply init_dyn|exact H].
    intros w0 t w1 [IV T] ST. split; [eapply step_dyn; eauto|eapply step_dadd; eauto]. }
  exact (proj1 A).
Qed.

(* every write-back ever made, in every reachable world of every program (runtime registration
   included), is the pipeline applied to the previously written state with registries between
   "as when the action was taken" and "as at the write-back"; and the state is the last one *)
Theorem writes_are_pipeline_steps progs w : reachable cfg RS0 MS0 progs w ->
  chain_dyn (w_hist w) /\ w_state w = last_written init0 (w_hist w) /\
  w_mws w = mws_all (w_hist w) /\ w_reducers w = reds_all (w_hist w).
Proof. intros R. destruct (reachable_dyn progs w R) as (M & RR & ST & CH & _). auto. Qed.

(* unfolding chain_dyn at one write-back *)
Theorem write_back_is_pipeline_step progs w h2 a s h1 : reachable cfg RS0 MS0 progs w ->
  w_hist w = h2 ++ EWrite a s :: h1 -> write_ok h1 a s.
Proof.
  intros R E. destruct (reachable_dyn progs w R) as (_ & _ & _ & CH & _). rewrite E in CH. clear E.
  induction h2 as [|e r IH]; cbn [app chain_dyn] in CH; [exact (proj1 CH)|exact (IH (proj2 CH))].
Qed.

End WorldFoldDyn.
