(* Witness.v — concrete reachable worlds, by evaluation (vm_compute) of the instantiated model:
   non-vacuity examples and the witnesses of the known findings F3, F4, F5 (the model reproduces
   what the real crate does; the same scenarios + schedules are replayed on the real code by the
   checks, corpus/*_known_*.txt). *)
From RS Require Import Base Channel Pipeline Selector Script World Instance Hist WorldSubs WorldSids WorldForward WorldRegistered WorldFoldDyn WorldFwdFinal.

Definition sc0 : scripts := mkScripts [mkRscript 0%N true []] [] [].
Definition cfg0 := script_config sc0 16 Block.

Definition run0 (w : world (State := sstate)) (sched : list N) := run cfg0 w sched.

Definition hist_has (p : event (State := sstate) -> bool) (w : option (world (State := sstate))) : bool :=
  match w with Some w => existsb p (w_hist w) | None => false end.

(* ---- F5: an iterator released before it returned None hangs: thread 0 is parked inside the
   blocking Exit send on the full capacity-1 channel, holding SUBS; no thread can ever step ---- *)
Definition w_f5 := scenario_world sc0 16 Block [0%N] [] []
  [[CIter 1%N 1 Block; CDispatch EStoreImpl 1%N; CDropIter 1%N]].
Definition sched_f5 : list N := [0;0;0;0;0;0;100;100;100;100;100;100;100;100;100;0]%N.

Theorem C13_iter_drop_refuted :
  exists w, run0 w_f5 sched_f5 = Some w /\
    (forall t, In t (map fst (w_threads w)) -> step cfg0 w t = None) /\
    get_thread (w_threads w) 0%N =
      Some (TClient Client [CDropIter 1%N] (PUnsubIterSend 1%N SBlockWait)).
Proof.
  destruct (run0 w_f5 sched_f5) as [w|] eqn:E; [|vm_compute in E; discriminate].
  exists w. split; [reflexivity|].
  assert (A : forallb (fun t => match step cfg0 w t with None => true | Some _ => false end)
                      (map fst (w_threads w)) = true /\
              get_thread (w_threads w) 0%N =
                Some (TClient Client [CDropIter 1%N] (PUnsubIterSend 1%N SBlockWait))).
  { vm_compute in E. injection E as <-. vm_compute. split; reflexivity. }
  destruct A as [A B]. split; [|exact B].
  intros t Ht. rewrite forallb_forall in A. specialize (A t Ht).
  destruct (step cfg0 w t); [discriminate|reflexivity].
Qed.

(* ---- F3: a direct subscriber is notified after its unsubscribe() has returned ---- *)
Definition w_f3 := scenario_world sc0 16 Block [0%N] [] [ISDirect 1%N; ISDirect 2%N]
  [[CDispatch EStoreImpl 1%N]; [CUnsubscribe 2%N]].
Definition sched_f3 : list N := [0;0;0;100;100;100;100;100;100;100;1;1;100;100]%N.

(* newest first: the notification of subscriber 2 is newer than the return of its unsubscribe *)
Fixpoint notify_after_ret (h : list (event (State := sstate))) (seen_notify : bool) : bool :=
  match h with
  | [] => false
  | ECb XReducer (CbNotify 2%N _ _) :: r => notify_after_ret r true
  | ERet _ (CUnsubscribe 2%N) _ :: r => seen_notify || notify_after_ret r seen_notify
  | _ :: r => notify_after_ret r seen_notify
  end.

Theorem C09_late_notify_refuted :
  exists w, run0 w_f3 sched_f3 = Some w /\ notify_after_ret (w_hist w) false = true.
Proof.
  destruct (run0 w_f3 sched_f3) as [w|] eqn:E; [|vm_compute in E; discriminate].
  exists w. split; [reflexivity|]. vm_compute in E. injection E as <-. vm_compute. reflexivity.
Qed.

(* ---- F4: the effect of an action accepted before stop() is skipped: its effect phase runs after
   stop() took the pool ---- *)
Definition sc4 : scripts :=
  mkScripts [mkRscript 0%N true [(1%N, (true, Some (mkEff 1000%N KTask [])))]] [] [].
Definition cfg4 := script_config sc4 16 Block.
Definition w_f4 := scenario_world sc4 16 Block [0%N] [] []
  [[CDispatch EStoreImpl 1%N; CStop]].
Definition sched_f4 : list N := [0;0;0;0;0;0;0;100;100;100;100;100;100;100;100;100;100;0]%N.

Definition is_skipped (e : event (State := sstate)) : bool :=
  match e with ESpawnSkipped 1000%N => true | _ => false end.
Definition is_run (e : event (State := sstate)) : bool :=
  match e with ECb _ (CbEffectRun 1000%N) => true | _ => false end.

Theorem C11_backlog_refuted :
  exists w, run cfg4 w_f4 sched_f4 = Some w /\
    existsb is_skipped (w_hist w) = true /\ existsb is_run (w_hist w) = false /\
    forallb (fun p => thread_finished (snd p)) (w_threads w) = true.
Proof.
  destruct (run cfg4 w_f4 sched_f4) as [w|] eqn:E; [|vm_compute in E; discriminate].
  exists w. split; [reflexivity|]. vm_compute in E. injection E as <-. vm_compute. repeat split.
Qed.

(* ---- non-vacuity: a reachable stopped world with a processed backlog ---- *)
Definition w_nv := scenario_world sc0 2 Block [0%N] [] [ISDirect 1%N]
  [[CDispatch EStoreImpl 1%N; CDispatch EDispatcher 2%N; CStop; CDispatch EStoreImpl 3%N; CGetState]].

Fixpoint drive (fuel : nat) (w : world (State := sstate)) : world :=
  match fuel with
  | O => w
  | S f =>
      match find (fun t => match step cfg0 w t with Some _ => true | None => false end) (map fst (w_threads w)) with
      | Some t => match step cfg0 w t with Some w' => drive f w' | None => w end
      | None => w
      end
  end.

Example stopped_world_exists :
  let w := drive 200 w_nv in
  w_state w = [(0, 1); (0, 2)]%N /\ pool_idle w = true /\ w_pool w = false /\ w_tx_open w = false /\
  forallb (fun p => thread_finished (snd p)) (w_threads w) = true.
Proof. vm_compute. repeat split. Qed.

(* ---- non-vacuity of C14_every_notification / C10_same_stream: an iterator created at run time,
   three notifying actions, one next(): the snapshots owe it [1;2;3]; it has yielded [1], [2] is
   queued in its capacity-1 channel and the reducer is parked in the blocking send of 3 ---- *)
Definition w_it := scenario_world sc0 16 Block [0%N] [] []
  [[CIter 1%N 1 Block; CDispatch EStoreImpl 1%N; CDispatch EStoreImpl 2%N; CDispatch EStoreImpl 3%N; CNext 1%N]].

Example iterator_stream_exists :
  let w := drive 400 w_it in
  exists c pc, get_chan (w_chans w) 1%N = Some c /\ pol c = Block /\ tx_alive c = true /\
    get_thread (w_threads w) reducer_tid = Some (TReducer pc) /\
    rev (fowed 1%N (w_hist w)) = [1; 2; 3]%N /\ rev (subrecvs 1%N (w_hist w)) = [1%N] /\
    qacts c = [2%N] /\ pendingf 1%N pc = [3%N].
Proof. vm_compute. eexists _, _. repeat split. Qed.

Example iterator_program_distinct :
  distinct_regs [[CIter 1%N 1 Block; CDispatch EStoreImpl 1%N; CDispatch EStoreImpl 2%N; CDispatch EStoreImpl 3%N; CNext 1%N]].
Proof. unfold distinct_regs. cbn. constructor; [intros []|constructor]. Qed.

(* ---- non-vacuity of C03_whole_run_subscriber_in_every_snapshot / C09_notified_while_registered:
   a subscriber added at run time before two dispatches is live at both snapshots ---- *)
Definition w_reg := scenario_world sc0 16 Block [0%N] [] []
  [[CAddSubscriber 7%N; CDispatch EStoreImpl 1%N; CDispatch EStoreImpl 2%N]].
Fixpoint live_at_snapshots (sid : N) (h : list (event (State := sstate))) : list bool :=
  match h with
  | [] => []
  | ESnapshot _ _ _ :: r => reg_live sid r :: live_at_snapshots sid r
  | _ :: r => live_at_snapshots sid r
  end.
Example registered_subscriber_exists :
  live_at_snapshots 7%N (w_hist (drive 400 w_reg)) = [true; true].
Proof. vm_compute. reflexivity. Qed.

(* ---- non-vacuity of C01_fold_runtime_registration / C07_registered_never_left_out: a reducer
   added at run time after the first action was completely processed takes part in the second
   action only ---- *)
Definition w_dyn := scenario_world sc0 16 Block [0%N] [] []
  [[CDispatch EStoreImpl 1%N; CAddReducer 5%N; CDispatch EStoreImpl 2%N]].
Definition sched_dyn : list N := [0;0;0;100;100;100;100;100;100;100]%N.
Example runtime_registration_exists :
  match run0 w_dyn sched_dyn with
  | Some w1 =>
      let w := drive 400 w1 in
      w_state w = [(0, 1); (0, 2); (5, 2)]%N /\ w_reducers w = [0; 5]%N /\
      reds_all [0%N] (w_hist w) = [0; 5]%N /\ length (writes (w_hist w)) = 2
  | None => False
  end.
Proof. vm_compute. repeat split. Qed.

(* ---- non-vacuity of C04_forwarding_is_final / C14_remaining_pairs_after_stop: an iterator
   drained to the end by its own thread while another thread stops the store: the reducer is done
   (releasing), everything forwarded - [1; 2] - was yielded, nothing is queued, None was returned ---- *)
Definition w_end := scenario_world sc0 16 Block [0%N] [] []
  [[CIter 1%N 1 Block; CDispatch EStoreImpl 1%N; CDispatch EStoreImpl 2%N; CDrain 1%N]; [CStop]].
Example drained_iterator_after_stop :
  let w := drive 800 w_end in
  get_thread (w_threads w) reducer_tid = Some (TReducer RDone) /\
  (exists c, get_chan (w_chans w) 1%N = Some c /\ pol c = Block /\ qacts c = []) /\
  rev (subsends 1%N (w_hist w)) = [1; 2]%N /\ rev (subrecvs 1%N (w_hist w)) = [1; 2]%N /\
  memN 1%N (w_iter_done w) = true /\
  forallb (fun p => thread_finished (snd p)) (w_threads w) = true.
Proof. vm_compute. repeat split. eexists. repeat split. Qed.
