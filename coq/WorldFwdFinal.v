(* WorldFwdFinal.v — once the reducer has left its loop (shutdown release in progress or over)
   nothing is forwarded to any subscription channel any more (C04 "channeled subscribers flushed ...
   from then on nothing changes", C10 "nothing is delivered afterwards", C14 "after the store is
   stopped it yields the remaining pairs"): the forwarded stream of every subscriber is final.
   Every program, every schedule. *)
From RS Require Import Base Channel ChannelProofs Pipeline PipelineProofs Selector Script World WorldTactics Hist WorldProofs WorldInv WorldQueue WorldStop WorldSubs WorldMetrics WorldEffects.

Section WorldFwdFinal.
Context {State : Type}.
Variable cfg : wconfig (State := State).
Notation world := (world (State := State)).
Notation step := (step cfg).
Notation run := (run cfg).
Notation event := (event (State := State)).
Implicit Types w : World.world (State := State).
Implicit Types h : list event.

(* everything ever forwarded to sid, newest first (over the whole history) *)
Definition fwd (sid : N) h : list aid := flat_map (ev_subsend sid) h.

(* the reducer has left its loop: the shutdown release is in progress or over *)
Definition releasing_pc (pc : rpc (State := State)) : bool :=
  match pc with
  | RClearLock | RClear _ | RClearCtx _ _ | RClearJoin _ _ | RClearIterSend _ _ _ | RDone => true
  | _ => false
  end.
Definition releasing w : Prop :=
  exists pc, get_thread (w_threads w) reducer_tid = Some (TReducer pc) /\ releasing_pc pc = true.

Definition nofwd (e : event) : bool := match e with ESubSend _ _ => false | _ => true end.
Lemma nofwd_app sid l h : forallb nofwd l = true -> fwd sid (l ++ h) = fwd sid h.
Proof.
  unfold fwd. induction l as [|e r IH]; cbn [app forallb flat_map]; [auto|]. intros E.
  apply andb_true_iff in E. destruct E as [E1 E2]. rewrite (IH E2).
  destruct e; cbn in E1; try discriminate; reflexivity.
Qed.
Lemma nofwd_cb x (l : list (cb State aid)) : forallb nofwd (rev (map (ECb x) l)) = true.
Proof. induction l as [|c r IH]; [reflexivity|]. cbn. rewrite forallb_app, IH. reflexivity. Qed.
Lemma nofwd_dq x sr dr : forallb nofwd (rev (dq_events (State := State) x sr dr)) = true.
Proof.
  unfold dq_events. rewrite rev_app_distr, forallb_app.
  assert (D : forall (f : aid -> event), (forall a, nofwd (f a) = true) ->
              forall l, forallb nofwd (rev (map f l)) = true).
  { intros f Hf. induction l as [|c r IH]; [reflexivity|]. cbn. rewrite forallb_app, IH. cbn. now rewrite Hf. }
  destruct sr as [ph|[|]]; [|destruct x|]; cbn; rewrite D by reflexivity; reflexivity.
Qed.
Lemma nofwd_sub_exit s sr dr : forallb nofwd (rev (sub_events (State := State) s IExit sr dr)) = true.
Proof.
  unfold sub_events. rewrite rev_app_distr, forallb_app.
  assert (D : forall (l : list (State * aid)), forallb nofwd (rev (map (fun _ => ESubDrop (State := State) s) l)) = true).
  { induction l as [|c r IH]; [reflexivity|]. cbn. rewrite forallb_app, IH. reflexivity. }
  rewrite D, andb_true_r. destruct sr as [ph|[|]]; reflexivity.
Qed.

Definition fin w0 w1 : Prop :=
  (releasing w0 -> releasing w1) /\ (releasing w0 -> forall sid, fwd sid (w_hist w1) = fwd sid (w_hist w0)).

Lemma fin_ext w0 w1 l : w_hist w1 = l ++ w_hist w0 -> forallb nofwd l = true ->
  (releasing w0 -> releasing w1) -> fin w0 w1.
Proof. intros E Q R. split; [exact R|]. intros _ sid. rewrite E. now apply nofwd_app. Qed.
Lemma fin_trans w0 w1 w2 : fin w0 w1 -> fin w1 w2 -> fin w0 w2.
Proof. intros [R1 F1] [R2 F2]. split; [auto|]. intros R sid. rewrite (F2 (R1 R)), (F1 R). reflexivity. Qed.

Lemma dq_phase_fin w x ph w1 sr : dq_phase w x ph = Some (w1, sr) -> fin w w1.
Proof.
  unfold dq_phase. destruct (send_phase (w_dq w) x ph) as [[[dq' sr'] dr]|]; [|discriminate].
  intros H; injection H as <- <-. apply (fin_ext w _ (rev (dq_events x sr' dr))); [reflexivity|apply nofwd_dq|auto].
Qed.
Lemma sub_phase_exit_fin w s ph w1 sr : sub_phase w s IExit ph = Some (w1, sr) -> fin w w1.
Proof.
  unfold sub_phase. destruct (get_chan (w_chans w) s) as [c|]; [|intros H; injection H as <- <-; split; auto].
  destruct (send_phase c IExit ph) as [[[c' sr'] dr]|]; [|discriminate].
  intros H; injection H as <- <-. apply (fin_ext w _ (rev (sub_events s IExit sr' dr))); [reflexivity|apply nofwd_sub_exit|auto].
Qed.

Ltac hist_prefix h base :=
  lazymatch h with
  | base => constr:(@nil (World.event (State := State)))
  | ?e :: ?r => let p := hist_prefix r base in constr:(e :: p)
  | ?l ++ ?r => let p := hist_prefix r base in constr:(l ++ p)
  end.
Ltac hist_eq := cbn [app]; rewrite ?app_nil_r, <- ?app_assoc; reflexivity.
Ltac whist w1 :=
  let h := eval cbn [w_hist set_chan spawn_worker emit emits upd_metrics set_thread set_state set_dq
                     set_tx_open set_reducers set_mws set_subs set_chans set_lasts set_iter_done
                     set_pool set_threads set_next_tid set_metrics set_hist set_rpc] in (w_hist w1) in
  let hh := eval unfold cb_events in h in hh.
Ltac nofwd_side := cbn [forallb nofwd andb app]; rewrite ?forallb_app, ?nofwd_cb; reflexivity.

(* releasing is kept: the reducer's entry is untouched, or moves within the release *)
Ltac rel_side Heqo :=
  let pc0 := fresh "pc0" in let G0 := fresh "G0" in let R0 := fresh "R0" in
  intros (pc0 & G0 & R0); revert G0; rew_frames; intros G0;
  first
  [ (* the reducer's own step *)
    (rewrite Heqo in G0; injection G0 as <-; cbn [releasing_pc] in R0;
     first [ discriminate R0
           | (eexists; split; [rew_frames; apply get_put_same|reflexivity]) ])
  | (* another thread *)
    (exists pc0; split; [|exact R0]; rew_frames;
     repeat (rewrite get_put_other;
             [|first [ (intros EQ; rewrite <- EQ in *; congruence)
                     | (unfold reducer_tid, chan_tid in *; lia) ]]);
     exact G0) ].

Theorem step_fin w t w' : (1000 <= w_next_tid w)%N -> step w t = Some w' -> fin w w'.
Proof.
  intros NT H. step_cases H.
  all: try (match goal with HB : (_ =? reducer_tid)%N = true |- _ => apply N.eqb_eq in HB; subst end).
  (* forwarding sends: the reducer is inside a notification, not releasing *)
  all: try (match goal with
            | SP : sub_phase _ _ (IAct _) _ = Some _, G : get_thread (w_threads ?w0) reducer_tid = Some (TReducer ?pc) |- fin ?w0 _ =>
                split; intros (pc0 & G0 & R0); rewrite G in G0; injection G0 as <-; discriminate R0
            end; fail).
  all: repeat match goal with
       | HH : dq_phase ?w0 _ _ = Some (?w1, _) |- _ =>
           let J := fresh "J" in pose proof (dq_phase_fin _ _ _ _ _ HH) as J; revert HH
       | HH : sub_phase ?w0 _ IExit _ = Some (?w1, _) |- _ =>
           let J := fresh "J" in pose proof (sub_phase_exit_fin _ _ _ _ _ HH) as J; revert HH
       end; intros.
  all: use_frames.
  all: try (match goal with
            | J : fin ?wa ?w1 |- fin ?wa ?w2 =>
                let hh := whist w2 in
                let p := hist_prefix hh (w_hist w1) in
                apply (fin_trans wa w1 w2 J); apply (fin_ext w1 w2 p);
                [ unfold cb_events; simp_world; hist_eq | nofwd_side | rel_side Heqo ]
            end; fail).
  all: try (match goal with
            | |- fin ?w0 ?w2 =>
                let hh := whist w2 in
                let p := hist_prefix hh (w_hist w0) in
                apply (fin_ext w0 w2 p);
                [ unfold cb_events; simp_world; hist_eq | nofwd_side | rel_side Heqo ]
            end; fail).
  (* phases on the world with the sender taken / the entries removed: same history and threads *)
  all: try (match goal with
            | J : fin ?wa ?w1 |- fin ?w0 ?w2 =>
                let hh := whist w2 in
                let p := hist_prefix hh (w_hist w1) in
                apply (fin_trans w0 wa w2);
                [ apply (fin_ext w0 wa []); [reflexivity|reflexivity|intros R; exact R]
                | apply (fin_trans wa w1 w2 J); apply (fin_ext w1 w2 p);
                  [ unfold cb_events; simp_world; hist_eq | nofwd_side | rel_side Heqo ] ]
            end; fail).
Qed.


(* along every continuation of a world in which the reducer has left its loop, the forwarded
   stream of every subscriber stays what it is *)
Theorem forwarded_is_final : forall sched w w', fresh_ok w -> releasing w -> run w sched = Some w' ->
  releasing w' /\ forall sid, fwd sid (w_hist w') = fwd sid (w_hist w).
Proof.
  induction sched as [|t r IH]; intros w w' F R H; cbn [World.run] in H.
  - injection H as <-. auto.
  - destruct (World.step cfg w t) as [w1|] eqn:E; [|discriminate].
    destruct (step_fin w t w1 (proj1 (proj2 F)) E) as [R1 F1].
    destruct (IH w1 w' (step_fresh cfg 0%N w t w1 F E) (R1 R) H) as [R2 F2].
    split; [exact R2|]. intros sid. rewrite F2, (F1 R). reflexivity.
Qed.

Theorem reachable_fresh reducers mws progs w : (length progs <= 100)%nat ->
  reachable cfg reducers mws progs w -> fresh_ok w.
Proof.
  intros L [sched H]. eapply (run_invariant cfg fresh_ok); [|exact (proj1 (init_eff cfg 0%N reducers mws progs L))|exact H].
  intros; eapply (step_fresh cfg 0%N); eauto.
Qed.


(* a stopped world (C04): the reducer is done, hence releasing *)
Lemma stopped_releasing w : stopped w -> releasing w.
Proof.
  intros (_ & [[pc G] _] & PI & _). exists pc. split; [exact G|].
  pose proof (pool_idle_reducer w pc PI G) as E. subst pc. reflexivity.
Qed.

End WorldFwdFinal.
