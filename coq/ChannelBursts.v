(* ChannelBursts.v — bursts of any length with no consumer running (C06): the iteration of the
   one-send lemmas of ChannelProofs.v. *)
From RS Require Import Base Channel ChannelProofs.

Section ChannelBursts.
Context {A : Type}.
Implicit Types c : chan A.

(* ---- bursts of any length: the iteration of the one-send lemmas ---- *)
Lemma skipn_add {T} (k j : nat) (l : list T) : skipn (k + j) l = skipn j (skipn k l).
Proof.
  revert l. induction k as [|k IH]; intros l; [reflexivity|].
  destruct l as [|y l']; cbn [Nat.add skipn]; [now destruct j|apply IH].
Qed.
Lemma lastn_app_lastn {T} n (a b : list T) : lastn n (lastn n a ++ b) = lastn n (a ++ b).
Proof.
  unfold lastn. destruct (Nat.le_gt_cases (length a) n) as [L|G].
  - replace (length a - n) with 0 by lia. reflexivity.
  - rewrite !app_length, skipn_length.
    replace (length a - (length a - n) + length b - n) with (length b) by lia.
    replace (length a + length b - n) with ((length a - n) + length b) by lia.
    rewrite skipn_add, (skipn_app (length a - n) a b).
    replace (length a - n - length a) with 0 by lia. reflexivity.
Qed.
Lemma firstn_app_firstn {T} n (a b : list T) : firstn n (firstn n a ++ b) = firstn n (a ++ b).
Proof.
  destruct (Nat.le_gt_cases (length a) n) as [L|G].
  - rewrite (firstn_all2 a) by exact L. reflexivity.
  - rewrite !firstn_app, firstn_length, firstn_firstn.
    replace (Nat.min n n) with n by lia. replace (n - Nat.min n (length a)) with 0 by lia.
    replace (n - length a) with 0 by lia. reflexivity.
Qed.

(* DropOldest: after a burst l with no consumer running the newest `cap` items of queue ++ l remain,
   in order *)
Theorem drop_oldest_burst : forall l c, pol c = DropOldest -> 0 < cap c -> bounded c ->
  q (fst (send_all c l)) = lastn (cap c) (q c ++ l) /\ cap (fst (send_all c l)) = cap c.
Proof.
  induction l as [|x r IH]; intros c P C B; cbn [send_all].
  - cbn [fst]. rewrite app_nil_r. split; [symmetry; apply lastn_short; exact B|reflexivity].
  - destruct (drop_oldest_one c x P C B) as (c' & ok & d & E & Q & C' & P' & B').
    rewrite E. destruct (send_all c' r) as [c'' d'] eqn:SA. cbn [fst].
    assert (P1 : pol c' = DropOldest) by congruence. assert (C1 : 0 < cap c') by lia.
    destruct (IH c' P1 C1 B') as [Q2 C2]. rewrite SA in Q2, C2. cbn [fst] in Q2, C2.
    split; [|congruence]. rewrite Q2, Q, C'. rewrite lastn_app_lastn, <- app_assoc. reflexivity.
Qed.

(* DropLatest: after a burst l with no consumer running the oldest `cap` items of queue ++ l remain,
   in order *)
Theorem drop_latest_burst : forall l c, pol c = DropLatest -> bounded c ->
  q (fst (send_all c l)) = firstn (cap c) (q c ++ l) /\ cap (fst (send_all c l)) = cap c.
Proof.
  induction l as [|x r IH]; intros c P B; cbn [send_all].
  - cbn [fst]. rewrite app_nil_r. split; [symmetry; apply firstn_all2; exact B|reflexivity].
  - destruct (drop_latest_one c x P B) as (c' & ok & d & E & Q & C' & P' & B' & _).
    rewrite E. destruct (send_all c' r) as [c'' d'] eqn:SA. cbn [fst].
    assert (P1 : pol c' = DropLatest) by congruence.
    destruct (IH c' P1 B') as [Q2 C2]. rewrite SA in Q2, C2. cbn [fst] in Q2, C2.
    split; [|congruence]. rewrite Q2, Q, C'. rewrite firstn_app_firstn, <- app_assoc. reflexivity.
Qed.

End ChannelBursts.
