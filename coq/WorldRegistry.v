(* WorldRegistry.v — the subscriber registry and the steps of unsubscribe (pure parts of C09),
   the creation of effect workers (pure parts of C11). *)
From RS Require Import Base Channel ChannelProofs Pipeline PipelineProofs Selector Script World WorldTactics Hist.

Section WorldRegistry.
Context {State : Type}.
Notation world := (world (State := State)).
Implicit Types w : World.world (State := State).

(* after unsubscribe the registry does not contain the subscriber any more *)
Lemma find_after_remove (l : list subentry) sid : find_sub (remove_sub l sid) sid = None.
Proof.
  unfold remove_sub. induction l as [|x r IH]; [reflexivity|]. cbn.
  destruct (N.eqb (se_id x) sid) eqn:E; cbn; [exact IH|]. now rewrite E.
Qed.

(* ... the others are unaffected, and keep their relative (registration) order *)
Lemma find_other_after_remove (l : list subentry) sid sid' : sid' <> sid ->
  find_sub (remove_sub l sid) sid' = find_sub l sid'.
Proof.
  intros Hne. unfold remove_sub. induction l as [|x r IH]; [reflexivity|]. cbn.
  destruct (N.eqb_spec (se_id x) sid) as [E|E]; cbn.
  - destruct (N.eqb_spec (se_id x) sid'); [congruence|exact IH].
  - destruct (N.eqb (se_id x) sid'); [reflexivity|exact IH].
Qed.

Lemma remove_keeps_order (l : list subentry) sid : subseq (remove_sub l sid) l.
Proof.
  unfold remove_sub. induction l as [|x r IH]; [constructor|]. cbn.
  destruct (negb (N.eqb (se_id x) sid)); [apply subseq_take|apply subseq_skip]; exact IH.
Qed.

Lemma remove_twice (l : list subentry) sid : remove_sub (remove_sub l sid) sid = remove_sub l sid.
Proof.
  unfold remove_sub. induction l as [|x r IH]; [reflexivity|]. cbn.
  destruct (N.eqb (se_id x) sid) eqn:E; cbn; [exact IH|]. rewrite E. cbn. now rewrite IH.
Qed.

(* unsubscribe() of something that is not registered (e.g. a second unsubscribe) does nothing:
   no callback, the registry and every queue unchanged; only the call returns *)
Lemma unsubscribe_unregistered w t r sid l :
  subs_free w = true -> find_sub (w_subs w) sid = None ->
  step_client w t r (CUnsubscribe sid :: l) (PUnsubLock sid) =
    Some (emit (set_thread w t (TClient r l PIdle)) (ERet t (CUnsubscribe sid) RUnit)).
Proof. intros F N. unfold step_client. rewrite F, N. reflexivity. Qed.

(* unsubscribe() of a registered direct subscriber: removed, one on_unsubscribe, in the caller's
   context, then the call returns *)
Lemma unsubscribe_direct w t r sid l :
  subs_free w = true -> find_sub (w_subs w) sid = Some (mkSub sid SKDirect) ->
  step_client w t r (CUnsubscribe sid :: l) (PUnsubLock sid) =
    Some (emit (set_thread (emit (set_subs w (remove_sub (w_subs w) sid)) (ECb (XThread t) (CbOnUnsub sid)))
                           t (TClient r l PIdle))
               (ERet t (CUnsubscribe sid) RUnit)).
Proof. intros F N. unfold step_client. rewrite F, N. reflexivity. Qed.

(* an effect handed to the pool becomes exactly one new worker whose first step runs it *)
Lemma spawn_creates_one_worker w k prog vis :
  w_threads (spawn_worker w k prog vis) =
    put_thread (w_threads w) (w_next_tid w) (TClient (Worker k) prog (PTaskStart k vis)) /\
  w_next_tid (spawn_worker w k prog vis) = (w_next_tid w + 2)%N.
Proof. split; reflexivity. Qed.

Lemma worker_start_runs_effect w t k k' prog :
  step_client w t (Worker k') prog (PTaskStart k true) =
    Some (set_thread (emit w (ECb (XThread t) (CbEffectRun k))) t (TClient (Worker k') prog PIdle)).
Proof. reflexivity. Qed.

End WorldRegistry.
