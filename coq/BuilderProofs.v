(* BuilderProofs.v — proofs about Builder.v (C17). *)
From RS Require Import Base Builder.

Lemma build_ok_iff b :
  (exists c, build b = inl c) <->
  (b_capacity b <> 0 /\ b_name b <> 0%N /\ (b_reducers b <> [] \/ b_without b = true)).
Proof.
  unfold build. destruct b as [n rs w c p ms]; cbn.
  destruct w, rs as [|r rs']; cbn;
    (destruct (N.eqb_spec n 0); [split; [intros [? H]; discriminate | intros (_ & H & _); contradiction]|]);
    (destruct (Nat.eqb_spec c 0); [split; [intros [? H]; discriminate | intros (H & _); contradiction]|]);
    try (split; [intros _; repeat split; auto; try (right; reflexivity); left; discriminate | eauto]).
  split; [intros [? H]; discriminate | intros (_ & _ & [H|H]); [contradiction|discriminate]].
Qed.

Lemma build_err_iff b :
  (exists e, build b = inr e) <->
  (b_capacity b = 0 \/ b_name b = 0%N \/ (b_reducers b = [] /\ b_without b = false)).
Proof.
  unfold build. destruct b as [n rs w c p ms]; cbn.
  destruct w, rs as [|r rs']; cbn;
    destruct (N.eqb_spec n 0); destruct (Nat.eqb_spec c 0);
    split; intros H; eauto;
    try (destruct H as [? H]; discriminate);
    try (destruct H as [H|[H|[H1 H2]]]; try contradiction; try discriminate).
Qed.

Lemma build_config b c :
  build b = inl c ->
  c_name c = b_name b /\ c_reducers c = b_reducers b /\ c_capacity c = b_capacity b /\
  c_policy c = b_policy b /\ c_mws c = b_mws b.
Proof.
  unfold build. repeat match goal with |- context[if ?x then _ else _] => destruct x end;
    intros H; inversion H; subst; cbn; auto.
Qed.

(* the five components of a builder; the reducer group is (reducers, without flag) *)
Definition comp_reducers (b : builder) := (b_reducers b, b_without b).

Lemma apply_other_name b c : group_of c <> GName -> b_name (apply_bcall b c) = b_name b.
Proof. destruct c; unfold comp_reducers; cbn; congruence. Qed.
Lemma apply_other_capacity b c : group_of c <> GCapacity -> b_capacity (apply_bcall b c) = b_capacity b.
Proof. destruct c; unfold comp_reducers; cbn; congruence. Qed.
Lemma apply_other_policy b c : group_of c <> GPolicy -> b_policy (apply_bcall b c) = b_policy b.
Proof. destruct c; unfold comp_reducers; cbn; congruence. Qed.
Lemma apply_other_reducers b c : group_of c <> GReducers -> comp_reducers (apply_bcall b c) = comp_reducers b.
Proof. destruct c; unfold comp_reducers; cbn; congruence. Qed.
Lemma apply_other_mws b c : group_of c <> GMiddlewares -> b_mws (apply_bcall b c) = b_mws b.
Proof. destruct c; unfold comp_reducers; cbn; congruence. Qed.

(* calls of different groups commute *)
Lemma apply_commute b c1 c2 :
  group_of c1 <> group_of c2 ->
  apply_bcall (apply_bcall b c1) c2 = apply_bcall (apply_bcall b c2) c1.
Proof. destruct c1, c2; cbn; intros H; try reflexivity; congruence. Qed.

(* each call only reads its own group's component: the effect of a call on its own component is a
   function of that component alone *)
Definition same_on (g : group) (b b' : builder) : Prop :=
  match g with
  | GName => b_name b = b_name b'
  | GReducers => comp_reducers b = comp_reducers b'
  | GCapacity => b_capacity b = b_capacity b'
  | GPolicy => b_policy b = b_policy b'
  | GMiddlewares => b_mws b = b_mws b'
  end.

Lemma apply_same_on g b b' c : same_on g b b' -> same_on g (apply_bcall b c) (apply_bcall b' c).
Proof.
  destruct g, c; cbn; unfold comp_reducers; cbn; intros H; try exact H; try reflexivity;
    try (injection H as H1 H2; congruence); try congruence.
Qed.

Lemma apply_skip g b c : group_of c <> g -> same_on g (apply_bcall b c) b.
Proof. destruct g, c; cbn; unfold comp_reducers; cbn; intros H; try reflexivity; congruence. Qed.

Lemma same_on_trans g a b c : same_on g a b -> same_on g b c -> same_on g a c.
Proof. destruct g; cbn; congruence. Qed.
Lemma same_on_refl g a : same_on g a a.
Proof. destruct g; reflexivity. Qed.

(* independence: the g-component of the result is determined by the calls of group g alone, in
   their relative order — calls of other groups can be inserted, removed or moved freely *)
Lemma apply_calls_filter g : forall l b b',
  same_on g b b' ->
  same_on g (apply_bcalls b l)
            (apply_bcalls b' (filter (fun c => group_eqb (group_of c) g) l)).
Proof.
  induction l as [|c l IH]; intros b b' H; cbn [apply_bcalls fold_left filter]; [exact H|].
  destruct (group_eqb (group_of c) g) eqn:E.
  - cbn [fold_left]. apply IH. now apply apply_same_on.
  - apply IH. eapply same_on_trans; [|exact H]. apply apply_skip.
    intros <-. destruct (group_of c); discriminate.
Qed.

Lemma builder_ext b b' :
  (forall g, same_on g b b') -> b = b'.
Proof.
  intros H. destruct b, b'.
  pose proof (H GName) as H1; pose proof (H GReducers) as H2; pose proof (H GCapacity) as H3;
  pose proof (H GPolicy) as H4; pose proof (H GMiddlewares) as H5.
  cbn in *. unfold comp_reducers in H2; cbn in H2. injection H2 as ? ?. congruence.
Qed.

(* order independence: two call sequences with the same per-group subsequences give the same
   builder, hence the same build() result *)
Theorem order_independent b l1 l2 :
  (forall g, filter (fun c => group_eqb (group_of c) g) l1 =
             filter (fun c => group_eqb (group_of c) g) l2) ->
  apply_bcalls b l1 = apply_bcalls b l2.
Proof.
  intros H. apply builder_ext. intros g.
  eapply same_on_trans; [apply (apply_calls_filter g l1 b b (same_on_refl g b))|].
  rewrite H.
  pose proof (apply_calls_filter g l2 b b (same_on_refl g b)) as H2.
  destruct g; cbn in *; congruence.
Qed.

(* last setting wins for the plain options *)
Lemma apply_bcalls_app b l1 l2 : apply_bcalls b (l1 ++ l2) = apply_bcalls (apply_bcalls b l1) l2.
Proof. unfold apply_bcalls. now rewrite fold_left_app. Qed.

Lemma keep_name : forall l b, Forall (fun c => group_of c <> GName) l -> b_name (apply_bcalls b l) = b_name b.
Proof.
  induction l as [|c l IH]; intros b H; [reflexivity|]. inversion H; subst. cbn [apply_bcalls fold_left].
  change (b_name (apply_bcalls (apply_bcall b c) l) = b_name b). rewrite IH by assumption.
  now apply apply_other_name.
Qed.
Lemma keep_capacity : forall l b, Forall (fun c => group_of c <> GCapacity) l -> b_capacity (apply_bcalls b l) = b_capacity b.
Proof.
  induction l as [|c l IH]; intros b H; [reflexivity|]. inversion H; subst.
  change (b_capacity (apply_bcalls (apply_bcall b c) l) = b_capacity b). rewrite IH by assumption.
  now apply apply_other_capacity.
Qed.
Lemma keep_policy : forall l b, Forall (fun c => group_of c <> GPolicy) l -> b_policy (apply_bcalls b l) = b_policy b.
Proof.
  induction l as [|c l IH]; intros b H; [reflexivity|]. inversion H; subst.
  change (b_policy (apply_bcalls (apply_bcall b c) l) = b_policy b). rewrite IH by assumption.
  now apply apply_other_policy.
Qed.
Lemma keep_reducers : forall l b, Forall (fun c => group_of c <> GReducers) l -> comp_reducers (apply_bcalls b l) = comp_reducers b.
Proof.
  induction l as [|c l IH]; intros b H; [reflexivity|]. inversion H; subst.
  change (comp_reducers (apply_bcalls (apply_bcall b c) l) = comp_reducers b). rewrite IH by assumption.
  now apply apply_other_reducers.
Qed.
Lemma keep_mws : forall l b, Forall (fun c => group_of c <> GMiddlewares) l -> b_mws (apply_bcalls b l) = b_mws b.
Proof.
  induction l as [|c l IH]; intros b H; [reflexivity|]. inversion H; subst.
  change (b_mws (apply_bcalls (apply_bcall b c) l) = b_mws b). rewrite IH by assumption.
  now apply apply_other_mws.
Qed.

Theorem last_name_wins b l1 n l2 :
  Forall (fun c => group_of c <> GName) l2 -> b_name (apply_bcalls b (l1 ++ BName n :: l2)) = n.
Proof.
  intros H. rewrite apply_bcalls_app.
  change (apply_bcalls (apply_bcalls b l1) (BName n :: l2)) with (apply_bcalls (apply_bcall (apply_bcalls b l1) (BName n)) l2).
  now rewrite (keep_name l2).
Qed.
Theorem last_capacity_wins b l1 n l2 :
  Forall (fun c => group_of c <> GCapacity) l2 -> b_capacity (apply_bcalls b (l1 ++ BCapacity n :: l2)) = n.
Proof.
  intros H. rewrite apply_bcalls_app.
  change (apply_bcalls (apply_bcalls b l1) (BCapacity n :: l2)) with (apply_bcalls (apply_bcall (apply_bcalls b l1) (BCapacity n)) l2).
  now rewrite (keep_capacity l2).
Qed.
Theorem last_policy_wins b l1 p l2 :
  Forall (fun c => group_of c <> GPolicy) l2 -> b_policy (apply_bcalls b (l1 ++ BPolicy p :: l2)) = p.
Proof.
  intros H. rewrite apply_bcalls_app.
  change (apply_bcalls (apply_bcalls b l1) (BPolicy p :: l2)) with (apply_bcalls (apply_bcall (apply_bcalls b l1) (BPolicy p)) l2).
  now rewrite (keep_policy l2).
Qed.

(* with_* replaces, add_* appends *)
Lemma with_replaces b :
  (forall r, b_reducers (apply_bcall b (BWithReducer r)) = [r]) /\
  (forall rs, b_reducers (apply_bcall b (BWithReducers rs)) = rs) /\
  (forall m, b_mws (apply_bcall b (BWithMiddleware m)) = [m]) /\
  (forall ms, b_mws (apply_bcall b (BWithMiddlewares ms)) = ms).
Proof. repeat split. Qed.
Lemma add_appends b :
  (forall r, b_reducers (apply_bcall b (BAddReducer r)) = b_reducers b ++ [r]) /\
  (forall m, b_mws (apply_bcall b (BAddMiddleware m)) = b_mws b ++ [m]).
Proof. repeat split. Qed.

(* the without_reducer request stands until a with_reducer(s) call; nothing outside the reducer
   group touches it (this is the statement fix F1 restored) *)
Lemma without_stands b l :
  Forall (fun c => group_of c <> GReducers) l ->
  b_without (apply_bcalls (apply_bcall b BWithoutReducer) l) = true.
Proof.
  intros H. pose proof (keep_reducers l (apply_bcall b BWithoutReducer) H) as K.
  unfold comp_reducers in K. cbn in K. now injection K.
Qed.
