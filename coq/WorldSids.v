(* WorldSids.v — subscription identifiers. Programs whose registration calls carry pairwise
   distinct identifiers (as the real API hands out a fresh Subscription per call): every identifier
   mentioned anywhere in the world comes from a registration call that has been invoked, a
   pending registration's identifier is not in use, and the registry never holds two entries
   with the same identifier. *)
From RS Require Import Base Channel ChannelProofs Pipeline PipelineProofs Selector Script World WorldTactics Hist WorldProofs WorldInv WorldQueue WorldStop WorldMetrics WorldEffects WorldLive.

Section WorldSids.
Context {State : Type}.
Variable cfg : wconfig (State := State).
Notation world := (world (State := State)).
Notation step := (step cfg).
Notation event := (event (State := State)).
Notation thread := (thread (State := State)).
Implicit Types w : World.world (State := State).
Implicit Types h : list event.

Definition reg_sid (c : call) : list N :=
  match c with
  | CAddSubscriber s | CSubscribeSelector s _ | CSubscribed s _ _ | CIter s _ _ => [s]
  | _ => []
  end.
Definition prog_regs (prog : list call) : list N := flat_map reg_sid prog.

(* registrations a thread has still to invoke *)
Definition pending (th : thread) : list N :=
  match th with
  | TClient _ prog PIdle | TClient _ prog (PTaskStart _ _) => prog_regs prog
  | TClient _ prog _ => prog_regs (tl prog)
  | _ => []
  end.
Definition all_pending (ths : list (N * thread)) : list N := flat_map (fun p => pending (snd p)) ths.
Definition ev_reg (e : event) : list N := match e with EInv _ c => reg_sid c | _ => [] end.
Definition hist_regs h : list N := flat_map ev_reg h.

Definition cnt (sid : N) (l : list N) : nat := count_occ N.eq_dec l sid.
Lemma cnt_app sid l1 l2 : cnt sid (l1 ++ l2) = cnt sid l1 + cnt sid l2.
Proof. apply count_occ_app. Qed.

Lemma cnt_cons sid x l : cnt sid (x :: l) = (if N.eq_dec x sid then 1 else 0) + cnt sid l.
Proof. unfold cnt. cbn. destruct (N.eq_dec x sid); reflexivity. Qed.
Lemma cnt_nil sid : cnt sid [] = 0.
Proof. reflexivity. Qed.

Lemma cnt_put_same ths t th0 th' sid : get_thread ths t = Some th0 ->
  cnt sid (all_pending (put_thread ths t th')) + cnt sid (pending th0) =
  cnt sid (all_pending ths) + cnt sid (pending th').
Proof.
  induction ths as [|[t1 th1] r IH]; cbn [get_thread put_thread]; [discriminate|].
  destruct (N.eqb t t1).
  - intros E; injection E as ->. unfold all_pending. cbn [flat_map snd]. rewrite !cnt_app. lia.
  - intros G. specialize (IH G). unfold all_pending in *. cbn [flat_map snd]. rewrite !cnt_app. lia.
Qed.
Lemma cnt_put_le ths t th' sid :
  cnt sid (all_pending (put_thread ths t th')) <= cnt sid (all_pending ths) + cnt sid (pending th').
Proof.
  induction ths as [|[t1 th1] r IH]; cbn [put_thread].
  - unfold all_pending. cbn [flat_map snd]. rewrite !cnt_app. lia.
  - destruct (N.eqb t t1); unfold all_pending in *; cbn [flat_map snd]; rewrite !cnt_app; lia.
Qed.

Lemma put_put_same (ths : list (N * thread)) t a b : put_thread (put_thread ths t a) t b = put_thread ths t b.
Proof.
  induction ths as [|[t1 th1] r IH]; cbn [put_thread].
  - now rewrite N.eqb_refl.
  - destruct (N.eqb t t1) eqn:E; cbn [put_thread]; [now rewrite N.eqb_refl|]. rewrite E. now rewrite IH.
Qed.

Lemma cnt_put2 ths n W t th0 th' sid : get_thread ths t = Some th0 -> pending W = [] ->
  cnt sid (all_pending (put_thread (put_thread ths n W) t th')) + cnt sid (pending th0) <=
  cnt sid (all_pending ths) + cnt sid (pending th').
Proof.
  intros G PW. destruct (N.eq_dec t n) as [->|NE].
  - pose proof (cnt_put_same (put_thread ths n W) n W th' sid (get_put_same _ _ _)) as A.
    pose proof (cnt_put_same ths n th0 W sid G) as B. rewrite PW in *. cbn in *. lia.
  - assert (G2 : get_thread (put_thread ths n W) t = Some th0) by (rewrite get_put_other; auto).
    pose proof (cnt_put_same _ t th0 th' sid G2) as A.
    pose proof (cnt_put_le ths n W sid) as B. rewrite PW in B. cbn in B. lia.
Qed.
Lemma cnt_put1 ths t th0 th' sid : get_thread ths t = Some th0 ->
  cnt sid (all_pending (put_thread ths t th')) + cnt sid (pending th0) <=
  cnt sid (all_pending ths) + cnt sid (pending th').
Proof. intros G. pose proof (cnt_put_same ths t th0 th' sid G). lia. Qed.

Lemma body_regs b : prog_regs (calls_of_body b) = [].
Proof. induction b as [|[e a| |] r IH]; cbn; auto. Qed.
Lemma eff_regs e : prog_regs (prog_of_eff e) = [].
Proof. unfold prog_of_eff. destruct (e_kind e); try apply body_regs; reflexivity. Qed.

(* U: no identifier is both pending and already invoked, or pending twice *)
Definition inv_u w : Prop :=
  forall sid, cnt sid (all_pending (w_threads w)) + cnt sid (hist_regs (w_hist w)) <= 1.

Lemma hist_regs_app h1 h2 : hist_regs (h1 ++ h2) = hist_regs h1 ++ hist_regs h2.
Proof. apply flat_map_app. Qed.
Lemma regs_quiet l : (forall e, In e l -> forall t c, e <> EInv t c) -> hist_regs l = [].
Proof.
  intros Q. unfold hist_regs. induction l as [|e r IH]; [reflexivity|]. cbn [flat_map].
  rewrite IH by (intros; apply Q; now right). destruct e; try reflexivity. exfalso. eapply (Q _ (or_introl eq_refl)). reflexivity.
Qed.
Lemma dq_phase_regs w x ph w1 sr : dq_phase w x ph = Some (w1, sr) -> hist_regs (w_hist w1) = hist_regs (w_hist w).
Proof.
  unfold dq_phase. destruct (send_phase (w_dq w) x ph) as [[[dq' sr'] dr]|]; [|discriminate].
  intros H; injection H as <- <-. simp_world. rewrite hist_regs_app, regs_quiet; [reflexivity|].
  intros e I t c ->. apply in_rev in I. unfold dq_events in I. apply in_app_or in I. destruct I as [I|I].
  - apply in_map_iff in I. destruct I as (? & I & _). destruct sr' as [?|[|]]; discriminate I.
  - destruct sr' as [?|[|]]; try destruct x; cbn in I; try contradiction; destruct I as [I|[]]; discriminate I.
Qed.
Lemma sub_phase_regs w sid x ph w1 sr : sub_phase w sid x ph = Some (w1, sr) -> hist_regs (w_hist w1) = hist_regs (w_hist w).
Proof.
  unfold sub_phase. destruct (get_chan (w_chans w) sid) as [c|]; [|intros H; injection H as <- <-; auto].
  destruct (send_phase c x ph) as [[[c' sr'] dr]|]; [|discriminate].
  intros H; injection H as <- <-. simp_world. rewrite hist_regs_app, regs_quiet; [reflexivity|].
  intros e I t c0 ->. apply in_rev in I. unfold sub_events in I. apply in_app_or in I. destruct I as [I|I].
  - apply in_map_iff in I. destruct I as (? & I & _). discriminate I.
  - destruct sr' as [?|[|]]; try destruct x as [[? ?]|]; cbn in I; try contradiction; destruct I as [I|[]]; discriminate I.
Qed.
Lemma cb_regs x (l : list (cb State aid)) : hist_regs (rev (map (ECb x) l)) = [].
Proof. apply regs_quiet. intros e I t c ->. apply in_rev in I. apply in_map_iff in I. destruct I as (? & I & _). discriminate I. Qed.

Theorem step_u w t w' : inv_u w -> step w t = Some w' -> inv_u w'.
Proof.
  intros I H. step_cases H; use_frames.
  all: repeat match goal with
       | HH : dq_phase _ _ _ = Some (_, _) |- _ => apply dq_phase_regs in HH
       | HH : sub_phase _ _ _ _ = Some (_, _) |- _ => apply sub_phase_regs in HH
       end.
  all: try (match goal with HB : (_ =? reducer_tid)%N = true |- _ => apply N.eqb_eq in HB; subst end).
  all: unfold inv_u in *; intros zz; specialize (I zz); rew_frames; unfold cb_events; rewrite ?put_put_same.
  all: match goal with
       | G : get_thread (w_threads _) ?t0 = Some ?th0 |- context [all_pending (put_thread (put_thread _ ?n ?W) ?t0 ?th')] =>
           let P := fresh "P" in
           assert (P := cnt_put2 _ n W t0 th0 th' zz G);
           specialize (P ltac:(first [reflexivity | cbn [pending]; first [apply body_regs|apply eff_regs]]))
       | G : get_thread (w_threads _) ?t0 = Some ?th0 |- context [all_pending (put_thread _ ?t0 ?th')] =>
           let P := fresh "P" in assert (P := cnt_put1 _ t0 th0 th' zz G)
       | _ => idtac
       end.
  all: repeat match goal with E : hist_regs (w_hist ?x) = _ |- context [hist_regs (w_hist ?x)] => rewrite E end.
  all: repeat (progress (rewrite ?hist_regs_app, ?cb_regs, ?cnt_app in *));
       repeat match goal with |- context [hist_regs (?e :: ?h)] => change (hist_regs (e :: h)) with (ev_reg e ++ hist_regs h) end;
       rewrite ?cnt_app in *; cbn [ev_reg pending tl prog_regs flat_map reg_sid app] in *;
       rewrite ?cnt_app in *.
  all: unfold prog_regs in *; rewrite ?cnt_cons, ?cnt_nil in *.
  all: try lia.
  all: repeat match goal with E : hist_regs (w_hist ?x) = _ |- context [hist_regs (w_hist ?x)] => rewrite E end;
       cbn [w_hist set_tx_open set_subs] in *.
  all: try lia.
  all: repeat (progress (rewrite ?hist_regs_app, ?cb_regs, ?cnt_app, ?cnt_nil in *)).
  all: try lia.
Qed.

(* ---------- identifiers in use come from invoked registrations ---------- *)
Definition ids (l : list subentry) : list N := map se_id l.
Definition th_sids (th : thread) : list N :=
  match th with
  | TClient _ _ (PSubsAdd se) => [se_id se]
  | TClient _ _ (PUnsubCtx s) | TClient _ _ (PUnsubJoin s) | TClient _ _ (PUnsubIterSend s _) => [s]
  | TReducer (RNotify _ _ rest _) | TReducer (RClear rest) => ids rest
  | TReducer (RNotifySend _ _ cur rest _ _) => se_id cur :: ids rest
  | TReducer (RClearCtx s rest) | TReducer (RClearJoin s rest) | TReducer (RClearIterSend s rest _) => s :: ids rest
  | TChan s _ => [s]
  | _ => []
  end.
Definition used (sid : N) w : Prop :=
  In sid (ids (w_subs w)) \/ In sid (map fst (w_chans w)) \/
  (exists t th, get_thread (w_threads w) t = Some th /\ In sid (th_sids th)).
Definition inv_v w : Prop := forall sid, used sid w -> In sid (hist_regs (w_hist w)).

Lemma ids_app l x : ids (l ++ [x]) = ids l ++ [se_id x].
Proof. unfold ids. now rewrite map_app. Qed.
Lemma ids_remove l s sid : In sid (ids (remove_sub l s)) -> In sid (ids l).
Proof.
  unfold ids, remove_sub. intros I. apply in_map_iff in I. destruct I as (x & <- & I).
  apply filter_In in I. apply in_map. tauto.
Qed.
Lemma keys_put (l : list (N * chan (State * aid))) s c sid :
  In sid (map fst (put_chan l s c)) -> In sid (map fst l) \/ sid = s.
Proof.
  induction l as [|[k c0] r IH]; cbn.
  - intros [<-|[]]. now right.
  - destruct (N.eqb s k) eqn:E; cbn.
    + intros [<-|I]; [now right|left; now right].
    + intros [<-|I]; [left; now left|]. apply IH in I. destruct I; [left; now right|now right].
Qed.
Lemma get_chan_key (l : list (N * chan (State * aid))) s c : get_chan l s = Some c -> In s (map fst l).
Proof.
  induction l as [|[k c0] r IH]; cbn; [discriminate|].
  destruct (N.eqb_spec s k); [intros _; left; congruence|intros G; right; auto].
Qed.

Lemma sub_phase_keys w sid x ph w1 sr : sub_phase w sid x ph = Some (w1, sr) ->
  forall z, In z (map fst (w_chans w1)) -> In z (map fst (w_chans w)).
Proof.
  unfold sub_phase. destruct (get_chan (w_chans w) sid) as [c|] eqn:G.
  - destruct (send_phase c x ph) as [[[c' sr'] dr]|] eqn:E; [|discriminate].
    intros H; injection H as <- <-. cbn. intros z K. apply keys_put in K. destruct K as [K| ->]; [exact K|].
    eapply get_chan_key; eauto.
  - intros H; injection H as <- <-. auto.
Qed.

Ltac in_hist I :=
  unfold cb_events; simp_world; cbn [w_hist set_tx_open set_subs];
  repeat (progress (
    repeat match goal with |- context [hist_regs (?e :: ?h)] => change (hist_regs (e :: h)) with (ev_reg e ++ hist_regs h) end;
    rewrite ?hist_regs_app, ?cb_regs; cbn [app ev_reg reg_sid];
    repeat match goal with E : hist_regs (w_hist ?x) = _ |- context [hist_regs (w_hist ?x)] => rewrite E end));
  repeat first [apply in_or_app; right | right]; apply I.

Lemma find_sub_in l s se : find_sub l s = Some se -> In s (ids l).
Proof.
  unfold ids. induction l as [|x r IH]; cbn; [discriminate|].
  destruct (N.eqb_spec (se_id x) s) as [E|E]; [intros _; now left|intros F; right; auto].
Qed.

Theorem step_v w t w' : inv_v w -> step w t = Some w' -> inv_v w'.
Proof.
  intros I H. step_cases H; use_frames.
  all: repeat match goal with
       | HH : dq_phase _ _ _ = Some (_, _) |- _ => apply dq_phase_regs in HH
       | HH : sub_phase _ _ _ _ = Some (_, _) |- _ =>
           let R := fresh "RG" in let K := fresh "KS" in
           pose proof (sub_phase_regs _ _ _ _ _ _ HH) as R; pose proof (sub_phase_keys _ _ _ _ _ _ HH) as K; revert HH
       end; intros.
  all: try (match goal with HB : (_ =? reducer_tid)%N = true |- _ => apply N.eqb_eq in HB; subst end).
  all: unfold inv_v in *; intros zz U; destruct U as [U|[U|(t0 & th0 & G0 & U)]].
  (* the registry *)
  all: try (match type of U with In _ (ids _) =>
              revert U; simp_world; cbn [w_subs set_tx_open set_subs];
              repeat match goal with E : w_subs ?x = _ |- context [w_subs ?x] => rewrite E end; intros U;
              try (apply ids_remove in U);
              first [ (in_hist I; left; exact U) | idtac ] end).
  (* the channel table *)
  all: try (match type of U with In _ (map fst _) =>
              revert U; simp_world; cbn [w_chans set_tx_open set_subs];
              repeat match goal with E : w_chans ?x = _ |- context [w_chans ?x] => rewrite E end; intros U;
              repeat match goal with K : forall z, In z (map fst (w_chans ?x)) -> _ |- _ =>
                       match type of U with context [w_chans x] => apply K in U end end;
              repeat match type of U with In _ (map fst (put_chan _ _ _)) =>
                       apply keys_put in U; destruct U as [U|U] end;
              first [ (in_hist I; right; left; exact U)
                    | (subst zz; in_hist I; right; left; eapply get_chan_key; eassumption)
                    | idtac ] end).
  (* the thread table *)
  all: try (match type of G0 with get_thread _ _ = _ =>
              revert G0; simp_world;
              repeat match goal with E : w_threads ?x = _ |- context [w_threads ?x] => rewrite E end; intros G0;
              repeat match type of G0 with
                | get_thread (put_thread _ ?t' _) ?k = _ =>
                    let EQ := fresh "EQ" in
                    destruct (N.eq_dec k t') as [EQ|EQ];
                    [ rewrite EQ in G0; rewrite get_put_same in G0; injection G0 as <-; cbn [th_sids ids map] in U
                    | rewrite get_put_other in G0 by exact EQ ]
                end;
              first [ (destruct U; fail)
                    | (in_hist I; right; right; exists t0, th0; split; assumption)
                    | idtac ] end).
  (* a registration invoked by this very step *)
  all: try (cbn [se_id] in U; first [destruct U as [<-|[]] | subst zz];
            unfold hist_regs; cbn [flat_map ev_reg reg_sid app]; left; reflexivity).
  (* identifiers handed on by the stepping thread *)
  all: try (rewrite ?ids_app in U; try (apply in_app_or in U; destruct U as [U|U])).
  all: try (in_hist I; left; exact U).
  all: try (in_hist I; right; right; eexists _, _; split; [exact Heqo|]; cbn [th_sids ids map In] in *; tauto).
  all: try (match goal with E : w_subs _ = _ :: _ |- _ => rewrite <- E in U; in_hist I; left; exact U end).
  all: try (match goal with E : w_subs _ = _ :: _ |- _ =>
              change (In zz (ids (s0 :: l))) in U; rewrite <- E in U; in_hist I; left; exact U end).
  all: try (match goal with F : find_sub (w_subs _) _ = Some _ |- _ =>
              cbn [In] in U; destruct U as [<-|[]]; in_hist I; left; eapply find_sub_in; eassumption end).
  change (In zz (ids (s :: l))) in U. rewrite <- Heql in U. apply I. left. exact U.
Qed.

Lemma init_shape (progs : list (list call)) : forall i t th,
  get_thread (client_threads (State := State) i progs ++ [(reducer_tid, TReducer RRecv)]) t = Some th ->
  (exists p, In p progs /\ th = TClient Client p PIdle) \/ th = TReducer RRecv.
Proof.
  induction progs as [|p r IH]; intros i t th; cbn [client_threads app get_thread].
  - destruct (N.eqb t reducer_tid); [|discriminate]. intros E; injection E as <-. now right.
  - destruct (N.eqb t i).
    + intros E; injection E as <-. left. exists p. split; [now left|reflexivity].
    + intros G. apply IH in G. destruct G as [(p' & I & E)|G]; [left; exists p'; split; [now right|exact E]|now right].
Qed.

Lemma init_pending (progs : list (list call)) : forall i,
  all_pending (client_threads (State := State) i progs ++ [(reducer_tid, TReducer RRecv)]) = flat_map prog_regs progs.
Proof.
  induction progs as [|p r IH]; intros i; cbn [client_threads app]; [reflexivity|].
  unfold all_pending in *. cbn [flat_map snd pending]. now rewrite IH.
Qed.

Lemma NoDup_cnt (l : list N) : NoDup l -> forall sid, cnt sid l <= 1.
Proof. intros ND sid. unfold cnt. now apply (proj1 (NoDup_count_occ N.eq_dec l)). Qed.

(* programs whose registration calls carry pairwise distinct identifiers *)
Definition distinct_regs (progs : list (list call)) : Prop := NoDup (flat_map prog_regs progs).

Lemma init_uv reducers mws progs : distinct_regs progs ->
  inv_u (init_world cfg reducers mws progs) /\ inv_v (init_world cfg reducers mws progs).
Proof.
  intros D. split.
  - intros sid. unfold init_world. cbn [w_threads w_hist]. rewrite init_pending. cbn.
    pose proof (NoDup_cnt _ D sid). lia.
  - intros sid [U|[U|(t & th & G & U)]]; try (now destruct U).
    unfold init_world in G. cbn [w_threads] in G. apply init_shape in G.
    destruct G as [(p & _ & ->)| ->]; destruct U.
Qed.

Theorem reachable_uv reducers mws progs w : distinct_regs progs ->
  reachable cfg reducers mws progs w -> inv_u w /\ inv_v w.
Proof.
  intros D [sched H].
  eapply (run_invariant cfg (fun w => inv_u w /\ inv_v w)); [| |exact H].
  - intros w0 t w1 [U V] ST. split; [eapply step_u; eauto|eapply step_v; eauto].
  - apply init_uv. exact D.
Qed.

(* a registration still to be invoked carries an identifier nobody uses yet *)
Theorem pending_is_fresh w sid : inv_u w -> inv_v w -> In sid (all_pending (w_threads w)) -> ~ used sid w.
Proof.
  intros U V P X. apply V in X. specialize (U sid).
  assert (A : forall l, In sid l -> 1 <= cnt sid l).
  { intros l I. unfold cnt. now apply (proj1 (count_occ_In N.eq_dec l sid)). }
  apply A in P. apply A in X. lia.
Qed.

(* ---------- W: at most one registry entry (or registration in flight) per identifier ---------- *)
Definition adding (th : thread) : list N :=
  match th with TClient _ _ (PSubsAdd se) => [se_id se] | _ => [] end.
Definition all_of (f : thread -> list N) (ths : list (N * thread)) : list N := flat_map (fun p => f (snd p)) ths.

Lemma of_put_same f ths t th0 th' sid : get_thread ths t = Some th0 ->
  cnt sid (all_of f (put_thread ths t th')) + cnt sid (f th0) = cnt sid (all_of f ths) + cnt sid (f th').
Proof.
  induction ths as [|[t1 th1] r IH]; cbn [get_thread put_thread]; [discriminate|].
  destruct (N.eqb t t1).
  - intros E; injection E as ->. unfold all_of. cbn [flat_map snd]. rewrite !cnt_app. lia.
  - intros G. specialize (IH G). unfold all_of in *. cbn [flat_map snd]. rewrite !cnt_app. lia.
Qed.
Lemma of_put_le f ths t th' sid :
  cnt sid (all_of f (put_thread ths t th')) <= cnt sid (all_of f ths) + cnt sid (f th').
Proof.
  induction ths as [|[t1 th1] r IH]; cbn [put_thread].
  - unfold all_of. cbn [flat_map snd]. rewrite !cnt_app. lia.
  - destruct (N.eqb t t1); unfold all_of in *; cbn [flat_map snd]; rewrite !cnt_app; lia.
Qed.
Lemma of_put2 f ths n W t th0 th' sid : get_thread ths t = Some th0 -> f W = [] ->
  cnt sid (all_of f (put_thread (put_thread ths n W) t th')) + cnt sid (f th0) <=
  cnt sid (all_of f ths) + cnt sid (f th').
Proof.
  intros G PW. destruct (N.eq_dec t n) as [->|NE].
  - pose proof (of_put_same f (put_thread ths n W) n W th' sid (get_put_same _ _ _)) as A.
    pose proof (of_put_same f ths n th0 W sid G) as B. rewrite PW in *. cbn in *. lia.
  - assert (G2 : get_thread (put_thread ths n W) t = Some th0) by (rewrite get_put_other; auto).
    pose proof (of_put_same f _ t th0 th' sid G2) as A.
    pose proof (of_put_le f ths n W sid) as B. rewrite PW in B. cbn in B. lia.
Qed.
Lemma of_put1 f ths t th0 th' sid : get_thread ths t = Some th0 ->
  cnt sid (all_of f (put_thread ths t th')) + cnt sid (f th0) <= cnt sid (all_of f ths) + cnt sid (f th').
Proof. intros G. pose proof (of_put_same f ths t th0 th' sid G). lia. Qed.

Lemma in_all_of f ths sid : NoDup (map fst ths) -> In sid (all_of f ths) ->
  exists t th, get_thread ths t = Some th /\ In sid (f th).
Proof.
  intros ND I. unfold all_of in I. apply in_flat_map in I. destruct I as ([t th] & M & F).
  exists t, th. split; [now apply in_get_thread|exact F].
Qed.

Definition inv_w w : Prop :=
  forall sid, cnt sid (ids (w_subs w)) + cnt sid (all_of adding (w_threads w)) <= 1.

Lemma cnt_zero sid l : ~ In sid l -> cnt sid l = 0.
Proof. intros N. unfold cnt. now apply count_occ_not_In. Qed.
Lemma cnt_ids_remove l s sid : cnt sid (ids (remove_sub l s)) <= cnt sid (ids l).
Proof.
  unfold ids, remove_sub. induction l as [|x r IH]; [cbn; lia|]. cbn [filter].
  destruct (negb _); cbn [map]; rewrite ?cnt_cons; lia.
Qed.

Theorem step_w w t w' : keys_ok w -> inv_u w -> inv_v w -> inv_w w -> step w t = Some w' -> inv_w w'.
Proof.
  intros KO U V I H. step_cases H; use_frames.
  all: try (match goal with HB : (_ =? reducer_tid)%N = true |- _ => apply N.eqb_eq in HB; subst end).
  (* the identifier of a registration being invoked is fresh *)
  all: try (match goal with
            | G : get_thread (w_threads ?ww) ?t0 = Some (TClient ?r (?c :: ?l) ?pc) |- _ =>
                lazymatch pc with PIdle => idtac | PTaskStart _ _ => idtac end;
                lazymatch c with
                | CAddSubscriber ?s => idtac | CSubscribeSelector ?s _ => idtac
                | CSubscribed ?s _ _ => idtac | CIter ?s _ _ => idtac
                end;
                let s := match c with CAddSubscriber ?s => s | CSubscribeSelector ?s _ => s
                                    | CSubscribed ?s _ _ => s | CIter ?s _ _ => s end in
                assert (FRESH : ~ used s ww) by
                  (apply (pending_is_fresh ww s U V); unfold all_pending; apply in_flat_map;
                   exists (t0, TClient r (c :: l) pc); split; [now apply get_thread_in|cbn; now left]);
                assert (FS : cnt s (ids (w_subs ww)) = 0) by (apply cnt_zero; intros X; apply FRESH; now left);
                assert (FA : cnt s (all_of adding (w_threads ww)) = 0) by
                  (apply cnt_zero; intros X; apply FRESH; right; right;
                   apply (in_all_of adding _ _ KO) in X; destruct X as (t9 & th9 & G9 & X9);
                   exists t9, th9; split; [exact G9|];
                   destruct th9 as [? ? []| |]; cbn in X9; try contradiction; exact X9)
            end).
  all: unfold inv_w in *; intros zz; specialize (I zz); rew_frames; rewrite ?put_put_same.
  all: match goal with
       | G : get_thread (w_threads _) ?t0 = Some ?th0 |- context [all_of adding (put_thread (put_thread _ ?n ?W) ?t0 ?th')] =>
           let P := fresh "P" in
           assert (P := of_put2 adding _ n W t0 th0 th' zz G (eq_refl _))
       | G : get_thread (w_threads _) ?t0 = Some ?th0 |- context [all_of adding (put_thread _ ?t0 ?th')] =>
           let P := fresh "P" in assert (P := of_put1 adding _ t0 th0 th' zz G)
       | _ => idtac
       end.
  all: cbn [adding se_id] in *; rewrite ?ids_app, ?cnt_app, ?cnt_cons, ?cnt_nil in *; cbn [ids map] in *;
       rewrite ?cnt_cons, ?cnt_nil in *.
  all: try lia.
  all: try (match goal with _ : context [if N.eq_dec ?a ?b then _ else _] |- _ =>
              destruct (N.eq_dec a b); [subst|]; lia end).
  all: try (match goal with |- context [remove_sub ?l ?s] => pose proof (cnt_ids_remove l s zz) end; lia).
  all: match goal with E : w_subs _ = _ :: _ |- _ => rewrite E in I; cbn [ids map] in I; rewrite ?cnt_cons in I end; lia.
Qed.

Lemma init_w reducers mws progs : inv_w (init_world cfg reducers mws progs).
Proof.
  intros sid. unfold init_world. cbn [w_subs w_threads]. cbn [ids map]. rewrite cnt_nil.
  assert (A : forall l i, all_of adding (client_threads (State := State) i l ++ [(reducer_tid, TReducer RRecv)]) = []).
  { induction l as [|p r IH]; intros i; cbn [client_threads app]; [reflexivity|].
    unfold all_of in *. cbn [flat_map snd adding app]. apply IH. }
  rewrite A. cbn. lia.
Qed.

Lemma init_keys_in (progs : list (list call)) : forall i t,
  In t (map fst (client_threads (State := State) i progs)) -> (i <= t < i + N.of_nat (length progs))%N.
Proof.
  induction progs as [|p r IH]; intros i t; cbn [client_threads map fst In length]; [intros []|].
  intros [<-|I]; [lia|]. apply IH in I. lia.
Qed.
Lemma init_keys_nodup (progs : list (list call)) : forall i,
  (i + N.of_nat (length progs) <= reducer_tid)%N ->
  NoDup (map fst (client_threads (State := State) i progs ++ [(reducer_tid, TReducer RRecv)])).
Proof.
  induction progs as [|p r IH]; intros i L; cbn [client_threads map fst app length] in *.
  - constructor; [intros []|constructor].
  - constructor.
    + rewrite map_app, in_app_iff. intros [I|I].
      * apply init_keys_in in I. lia.
      * cbn in I. destruct I as [I|[]]. lia.
    + apply IH. lia.
Qed.

Definition inv_sids w : Prop := keys_ok w /\ inv_u w /\ inv_v w /\ inv_w w.

Theorem reachable_sids reducers mws progs w : (length progs <= 100)%nat -> distinct_regs progs ->
  reachable cfg reducers mws progs w -> inv_sids w.
Proof.
  intros L D [sched H].
  eapply (run_invariant cfg inv_sids); [| |exact H].
  - intros w0 t w1 (K & U & V & W) ST. split; [eapply step_keys; eauto|].
    split; [eapply step_u; eauto|]. split; [eapply step_v; eauto|eapply step_w; eauto].
  - split; [|split; [apply init_uv; exact D|split; [apply init_uv; exact D|apply init_w]]].
    unfold keys_ok, init_world. cbn [w_threads]. apply init_keys_nodup. unfold reducer_tid. lia.
Qed.

(* the registry never holds two entries with the same identifier *)
Theorem registry_unique reducers mws progs w : (length progs <= 100)%nat -> distinct_regs progs ->
  reachable cfg reducers mws progs w -> NoDup (ids (w_subs w)).
Proof.
  intros L D R. destruct (reachable_sids _ _ _ _ L D R) as (_ & _ & _ & W).
  apply (NoDup_count_occ N.eq_dec). intros sid. specialize (W sid). unfold cnt in W. lia.
Qed.

End WorldSids.
