(* WorldInv.v — invariants over the ghost history, proved by one case analysis over `step`. *)
From RS Require Import Base Channel ChannelProofs Pipeline PipelineProofs Selector Script World WorldTactics Hist WorldProofs.

Ltac unfold_step H :=
  unfold World.step, step_client, step_reducer, step_chan, invoke, after_close, finish_unsub, ret,
    after_spawn, after_notify, after_clear, action_done in H.

Ltac simp_world :=
  cbn [w_state w_dq w_tx_open w_reducers w_mws w_subs w_chans w_lasts w_iter_done w_pool w_threads
       w_next_tid w_metrics w_hist
       set_chan spawn_worker emit emits upd_metrics set_thread set_state set_dq set_tx_open
       set_reducers set_mws set_subs set_chans set_lasts set_iter_done set_pool set_threads
       set_next_tid set_metrics set_hist set_rpc cb_events].

Ltac unfold_setters :=
  unfold set_chan, spawn_worker, emit, emits, upd_metrics, set_thread, set_state, set_dq, set_tx_open,
    set_reducers, set_mws, set_subs, set_chans, set_lasts, set_iter_done, set_pool, set_threads,
    set_next_tid, set_metrics, set_hist, set_rpc, cb_events in *.

(* all leaves of one step: H : step cfg w t = Some w' becomes w' := explicit term *)
Ltac step_cases H := unfold_step H; explode H; inv_some H.

Section WorldInv.
Context {State : Type}.
Variable cfg : wconfig (State := State).
Notation world := (world (State := State)).
Notation step := (step cfg).
Notation run := (run cfg).
Notation event := (event (State := State)).
Implicit Types w : World.world (State := State).
Implicit Types h : list event.

(* ================= I3: the state is the last value written; reads return it (C08) ========== *)
Definition init := cfg_init cfg.

Fixpoint reads_ok h : Prop :=
  match h with
  | [] => True
  | ERet _ CGetState (RState s) :: r => s = last_written init r /\ reads_ok r
  | _ :: r => reads_ok r
  end.

Definition inv_state w : Prop :=
  w_state w = last_written init (w_hist w) /\ reads_ok (w_hist w).

Lemma reads_ok_app_cb x (l : list (cb State aid)) h : reads_ok (rev (map (ECb x) l) ++ h) <-> reads_ok h.
Proof.
  induction l as [|c r IH] using rev_ind; [reflexivity|].
  rewrite map_app, rev_app_distr. cbn. exact IH.
Qed.
Lemma reads_ok_dq_events x sr dr h : reads_ok (rev (dq_events x sr dr) ++ h) <-> reads_ok h.
Proof.
  unfold dq_events. rewrite rev_app_distr, <- app_assoc.
  assert (D : forall l, reads_ok (rev (map EDrop l) ++ h) <-> reads_ok h).
  { induction l as [|c r IH] using rev_ind; [reflexivity|]. rewrite map_app, rev_app_distr. cbn. exact IH. }
  assert (D2 : forall l, reads_ok (rev (map EReject l) ++ h) <-> reads_ok h).
  { induction l as [|c r IH] using rev_ind; [reflexivity|]. rewrite map_app, rev_app_distr. cbn. exact IH. }
  destruct sr as [ph|[|]]; [|destruct x|]; cbn; first [apply D|apply D2].
Qed.
Lemma reads_ok_sub_events sid x sr dr h : reads_ok (rev (sub_events sid x sr dr) ++ h) <-> reads_ok h.
Proof.
  unfold sub_events. rewrite rev_app_distr, <- app_assoc.
  assert (D : forall (l : list (State * aid)) h', reads_ok (rev (map (fun _ => ESubDrop sid) l) ++ h') <-> reads_ok h').
  { induction l as [|c r IH] using rev_ind; intros h'; [reflexivity|]. rewrite map_app, rev_app_distr. cbn. apply IH. }
  destruct sr as [ph|[|]]; [|destruct x as [[s a]|]|]; cbn; apply D.
Qed.
Lemma writes_dq_events x sr dr : writes (rev (dq_events (State := State) x sr dr)) = [].
Proof.
  unfold dq_events. rewrite rev_app_distr. unfold writes. rewrite flat_map_app.
  assert (D : forall (f : aid -> event), (forall a, ev_write (f a) = []) ->
              forall l, flat_map ev_write (rev (map f l)) = []).
  { intros f Hf. induction l as [|c r IH]; [reflexivity|]. cbn. rewrite flat_map_app, IH. cbn. now rewrite Hf. }
  destruct sr as [ph|[|]]; [|destruct x|]; rewrite D by reflexivity; reflexivity.
Qed.
Lemma writes_sub_events sid x sr dr : writes (rev (sub_events (State := State) sid x sr dr)) = [].
Proof.
  unfold sub_events. rewrite rev_app_distr. unfold writes. rewrite flat_map_app.
  rewrite (proj_subdrop ev_write sid dr) by reflexivity. rewrite app_nil_r.
  destruct sr as [ph|[|]]; [|destruct x as [[s a]|]|]; reflexivity.
Qed.

Lemma dq_phase_state w x ph w1 sr : dq_phase w x ph = Some (w1, sr) -> inv_state w -> inv_state w1.
Proof.
  unfold dq_phase. destruct (send_phase (w_dq w) x ph) as [[[dq' sr'] dr]|]; [|discriminate].
  intros H; injection H as <- <-. unfold inv_state, last_written.
  unfold emits, upd_metrics, set_dq, set_hist, set_metrics; cbn [w_state w_hist].
  rewrite writes_app, writes_dq_events, reads_ok_dq_events. auto.
Qed.
Lemma sub_phase_state w sid x ph w1 sr : sub_phase w sid x ph = Some (w1, sr) -> inv_state w -> inv_state w1.
Proof.
  unfold sub_phase. destruct (get_chan (w_chans w) sid) as [c|].
  - destruct (send_phase c x ph) as [[[c' sr'] dr]|]; [|discriminate].
    intros H; injection H as <- <-. unfold inv_state, last_written.
    unfold emits, upd_metrics, set_chan, set_chans, set_hist, set_metrics; cbn [w_state w_hist].
    rewrite writes_app, writes_sub_events, reads_ok_sub_events. auto.
  - intros H; injection H as <- <-. auto.
Qed.

Ltac use_phases :=
  repeat match goal with
  | H : dq_phase _ _ _ = Some _, I : inv_state _ |- _ => apply dq_phase_state in H; [clear I|exact I]
  | H : sub_phase _ _ _ _ = Some _, I : inv_state _ |- _ => apply sub_phase_state in H; [clear I|exact I]
  end.

Ltac simp_state :=
  match goal with I : inv_state _ |- _ =>
    let A := fresh "I1" in let B := fresh "I2" in
    destruct I as [A B]; unfold last_written, writes in A end;
  unfold inv_state, last_written, writes; simp_world; unfold cb_events;
  repeat (progress (repeat first [ rewrite flat_map_app | rewrite (proj_cb ev_write) by reflexivity
                                 | rewrite reads_ok_app_cb ];
                    cbn [flat_map ev_write app reads_ok prev_state])).

Ltac split_goal_matches :=
  unfold dispatch_result;
  repeat match goal with
  | |- context [match ?c with _ => _ end] =>
      lazymatch c with
      | context [match _ with _ => _ end] => fail
      | _ => destruct c
      end
  end.

Theorem step_state w t w' : inv_state w -> step w t = Some w' -> inv_state w'.
Proof.
  intros I H. step_cases H; use_phases; simp_state;
    try first [ (split; [exact I1|exact I2]) | (split; [reflexivity|exact I2])
              | (split; [exact I1|split; [exact I1|exact I2]]) ];
    (split; [exact I1|]); split_goal_matches; auto.
Qed.

Lemma init_state reducers mws progs : inv_state (init_world cfg reducers mws progs).
Proof. split; reflexivity. Qed.

Theorem reachable_state reducers mws progs w :
  reachable cfg reducers mws progs w -> inv_state w.
Proof.
  intros [sched H]. eapply (run_invariant cfg inv_state); [|apply init_state|exact H].
  intros; eapply step_state; eauto.
Qed.

End WorldInv.
