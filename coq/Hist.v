(* Hist.v — projections of the ghost history (newest event first). *)
From RS Require Import Base Channel Pipeline Selector Script World.

Section Hist.
Context {State : Type}.
Notation event := (event (State := State)).
Implicit Types h : list event.

Definition ev_enq (e : event) : list aid := match e with EEnq a => [a] | _ => [] end.
Definition ev_deq (e : event) : list aid := match e with EDeq (IAct a) => [a] | _ => [] end.
Definition ev_drop (e : event) : list aid := match e with EDrop a => [a] | _ => [] end.
Definition ev_reject (e : event) : list aid := match e with EReject a => [a] | _ => [] end.
Definition ev_write (e : event) : list (aid * State) := match e with EWrite a s => [(a, s)] | _ => [] end.

(* all newest first *)
Definition enqs h := flat_map ev_enq h.
Definition deqs h := flat_map ev_deq h.
Definition drops h := flat_map ev_drop h.
Definition rejects h := flat_map ev_reject h.
Definition writes h := flat_map ev_write h.

Definition prev_state (init : State) (ws : list (aid * State)) : State :=
  match ws with [] => init | (_, s) :: _ => s end.
Definition last_written (init : State) h : State := prev_state init (writes h).

Lemma enqs_app h1 h2 : enqs (h1 ++ h2) = enqs h1 ++ enqs h2.
Proof. apply flat_map_app. Qed.
Lemma deqs_app h1 h2 : deqs (h1 ++ h2) = deqs h1 ++ deqs h2.
Proof. apply flat_map_app. Qed.
Lemma drops_app h1 h2 : drops (h1 ++ h2) = drops h1 ++ drops h2.
Proof. apply flat_map_app. Qed.
Lemma writes_app h1 h2 : writes (h1 ++ h2) = writes h1 ++ writes h2.
Proof. apply flat_map_app. Qed.

(* callback events project to nothing *)
Lemma proj_cb {X} (f : event -> list X) x (l : list (cb State aid)) :
  (forall c, f (ECb x c) = []) -> flat_map f (rev (map (ECb x) l)) = [].
Proof.
  intros H. induction l as [|c r IH]; [reflexivity|]. cbn. rewrite flat_map_app, IH. cbn. now rewrite H.
Qed.
Lemma enqs_cb x (l : list (cb State aid)) : enqs (rev (map (ECb x) l)) = [].
Proof. now apply proj_cb. Qed.
Lemma deqs_cb x (l : list (cb State aid)) : deqs (rev (map (ECb x) l)) = [].
Proof. now apply proj_cb. Qed.
Lemma drops_cb x (l : list (cb State aid)) : drops (rev (map (ECb x) l)) = [].
Proof. now apply proj_cb. Qed.
Lemma writes_cb x (l : list (cb State aid)) : writes (rev (map (ECb x) l)) = [].
Proof. now apply proj_cb. Qed.

Lemma proj_subdrop {X} (f : event -> list X) sid {Y} (l : list Y) :
  (forall s, f (ESubDrop s) = []) -> flat_map f (rev (map (fun _ => ESubDrop sid) l)) = [].
Proof.
  intros H. induction l as [|c r IH]; [reflexivity|]. cbn. rewrite flat_map_app, IH. cbn. now rewrite H.
Qed.

End Hist.
