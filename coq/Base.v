(* Base.v — enums and list utilities shared by every layer of the model.
   Mirrors: BackpressurePolicy (channel.rs), MiddlewareOp + Err (middleware.rs),
   ActionOp (store_impl.rs). No proofs about the store here. *)
From Coq Require Export List NArith Bool Arith Lia.
Export ListNotations.

Inductive policy := Block | DropOldest | DropLatest.
Inductive verdict := VContinue | VDone | VBreak | VErr.

Inductive item (A : Type) := IAct (a : A) | IExit.
Arguments IAct {A} a.
Arguments IExit {A}.

Definition policy_eqb (p q : policy) : bool :=
  match p, q with
  | Block, Block | DropOldest, DropOldest | DropLatest, DropLatest => true
  | _, _ => false
  end.

Definition verdict_eqb (p q : verdict) : bool :=
  match p, q with
  | VContinue, VContinue | VDone, VDone | VBreak, VBreak | VErr, VErr => true
  | _, _ => false
  end.

(* the actions among queue items, in order *)
Fixpoint acts {A} (l : list (item A)) : list A :=
  match l with
  | [] => []
  | IAct a :: r => a :: acts r
  | IExit :: r => acts r
  end.

(* last n elements *)
Definition lastn {A} (n : nat) (l : list A) : list A := skipn (length l - n) l.

(* order-preserving subsequence *)
Inductive subseq {A} : list A -> list A -> Prop :=
| subseq_nil : subseq [] []
| subseq_skip x l1 l2 : subseq l1 l2 -> subseq l1 (x :: l2)
| subseq_take x l1 l2 : subseq l1 l2 -> subseq (x :: l1) (x :: l2).

(* x occurs strictly before y in l *)
Definition before {A} (x y : A) (l : list A) : Prop :=
  exists l1 l2 l3, l = l1 ++ x :: l2 ++ y :: l3.

Definition opt_to_list {A} (o : option A) : list A :=
  match o with Some x => [x] | None => [] end.

Fixpoint list_eqb {A} (eqb : A -> A -> bool) (l1 l2 : list A) : bool :=
  match l1, l2 with
  | [], [] => true
  | x :: r1, y :: r2 => eqb x y && list_eqb eqb r1 r2
  | _, _ => false
  end.

Definition memN (x : N) (l : list N) : bool := existsb (N.eqb x) l.
