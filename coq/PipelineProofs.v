(* PipelineProofs.v — characterisation of the per-action pipeline (C12, pure parts of C01, C03, C07). *)
From RS Require Import Base Pipeline.

Section PipelineProofs.
Context {State Action Eff : Type}.
Variable eid : Eff -> N.
Notation reducer := (reducer State Action Eff).
Notation middleware := (middleware State Action Eff).
Notation cb := (cb State Action).

(* the verdicts of the hooks that are actually called: up to and including the first Break *)
Fixpoint upto_break (vs : list verdict) : list verdict :=
  match vs with
  | [] => []
  | VBreak :: _ => [VBreak]
  | v :: r => v :: upto_break r
  end.

Definition any_done (vs : list verdict) : bool := existsb (verdict_eqb VDone) vs.

Lemma upto_break_length vs : length (upto_break vs) <= length vs.
Proof. induction vs as [|v r IH]; cbn; [lia|]. destruct v; cbn; lia. Qed.

Lemma upto_break_prefix vs : exists rest, vs = (upto_break vs) ++ rest.
Proof.
  induction vs as [|v r [rest IH]]; [exists []; reflexivity|].
  destruct v; cbn; try (exists rest; now rewrite <- IH). exists r. reflexivity.
Qed.

(* a Break can only be the last called verdict *)
Lemma upto_break_break_last vs l1 l2 : upto_break vs = l1 ++ VBreak :: l2 -> l2 = [].
Proof.
  revert l1. induction vs as [|v r IH]; intros l1 H; cbn in H.
  - destruct l1; discriminate.
  - destruct v; cbn in H;
      try (destruct l1 as [|x l1]; [discriminate|]; injection H as _ H; now apply IH in H).
    destruct l1 as [|x l1]; [now injection H as <-|].
    injection H as _ H. destruct l1; discriminate.
Qed.

(* ---------------- before_reduce ---------------- *)
Fixpoint br_events (i : nat) (a : Action) (s : State) (vs : list verdict) : list cb :=
  match vs with
  | [] => []
  | v :: r => (CbBeforeReduce i a s v :: err_ev i HReduce v) ++ br_events (S i) a s r
  end.

Lemma br_phase_spec : forall (mws : list middleware) i a s flag,
  br_phase i mws a s flag =
  let vs := upto_break (map (fun m => mw_br m a s) mws) in
  (flag && negb (any_done vs), length vs, br_events i a s vs).
Proof.
  induction mws as [|m r IH]; intros i a s flag; cbn [br_phase map upto_break].
  - cbn. now rewrite andb_true_r.
  - destruct (mw_br m a s) eqn:E; cbn [upto_break];
      try (rewrite IH; cbn; rewrite ?andb_true_r, ?andb_false_r; reflexivity).
    cbn. now rewrite andb_true_r.
Qed.

(* ---------------- before_dispatch ---------------- *)
Fixpoint bd_events (i : nat) (a : Action) (s : State) (vs : list verdict) : list cb :=
  match vs with
  | [] => []
  | v :: r => (CbBeforeDispatch i a s v :: err_ev i HDispatch v) ++ bd_events (S i) a s r
  end.

Lemma bd_phase_spec : forall (mws : list middleware) i a s flag,
  bd_phase i mws a s flag =
  let vs := upto_break (map (fun m => mw_bd m a s) mws) in
  (flag && negb (any_done vs), length vs, bd_events i a s vs).
Proof.
  induction mws as [|m r IH]; intros i a s flag; cbn [bd_phase map upto_break].
  - cbn. now rewrite andb_true_r.
  - destruct (mw_bd m a s) eqn:E; cbn [upto_break];
      try (rewrite IH; cbn; rewrite ?andb_true_r, ?andb_false_r; reflexivity).
    cbn. now rewrite andb_true_r.
Qed.

(* ---------------- before_effect ---------------- *)
(* the hooks called, each with the list it received and the list it left *)
Fixpoint be_trace (mws : list middleware) (a : Action) (s : State) (effs : list Eff)
  : list (list Eff * list Eff * verdict) :=
  match mws with
  | [] => []
  | m :: r =>
      let '(effs1, v) := mw_be m a s effs in
      (effs, effs1, v) :: match v with VBreak => [] | _ => be_trace r a s effs1 end
  end.

Fixpoint be_events (i : nat) (a : Action) (s : State) (tr : list (list Eff * list Eff * verdict)) : list cb :=
  match tr with
  | [] => []
  | (ein, eout, v) :: r =>
      (CbBeforeEffect i a s (map eid ein) (map eid eout) v :: err_ev i HEffect v) ++ be_events (S i) a s r
  end.

Definition be_final (effs : list Eff) (tr : list (list Eff * list Eff * verdict)) : list Eff :=
  match rev tr with [] => effs | (_, eout, _) :: _ => eout end.

Lemma be_final_cons effs x tr :
  be_final effs (x :: tr) = be_final (snd (fst x)) tr.
Proof.
  unfold be_final. cbn [rev]. destruct (rev tr) as [|[[a b] c] r] eqn:E.
  - destruct x as [[? ?] ?]. reflexivity.
  - reflexivity.
Qed.

Lemma be_phase_spec : forall (mws : list middleware) i a s effs,
  be_phase eid i mws a s effs =
  let tr := be_trace mws a s effs in (be_final effs tr, length tr, be_events i a s tr).
Proof.
  induction mws as [|m r IH]; intros i a s effs; cbn [be_phase be_trace]; [reflexivity|].
  destruct (mw_be m a s effs) as [effs1 v] eqn:E.
  destruct v; cbn zeta;
    try (rewrite IH; cbn zeta; rewrite be_final_cons; reflexivity).
  reflexivity.
Qed.

(* the chain of lists in a trace: each hook receives what the previous one left *)
Lemma be_trace_chain : forall (mws : list middleware) a s effs tr1 x y tr2,
  be_trace mws a s effs = tr1 ++ x :: y :: tr2 -> fst (fst y) = snd (fst x).
Proof.
  induction mws as [|m r IH]; intros a s effs tr1 x y tr2 H; cbn [be_trace] in H.
  - destruct tr1; discriminate.
  - destruct (mw_be m a s effs) as [effs1 v] eqn:E.
    destruct tr1 as [|z tr1].
    + injection H as <- H.
      destruct v; try (destruct r as [|m' r']; cbn [be_trace] in H; [discriminate|];
        destruct (mw_be m' a s effs1) as [e2 v2]; injection H as <- _; reflexivity).
      discriminate.
    + injection H as _ H. destruct v; try (eapply IH; exact H). destruct tr1; discriminate.
Qed.

Lemma be_trace_head : forall (mws : list middleware) a s effs x tr,
  be_trace mws a s effs = x :: tr -> fst (fst x) = effs.
Proof.
  intros [|m r] a s effs x tr H; cbn [be_trace] in H; [discriminate|].
  destruct (mw_be m a s effs). now injection H as <- _.
Qed.

(* ---------------- the reducer chain ---------------- *)
(* the chain as a list of calls (index, input state, answer) *)
Fixpoint chain_calls (j : nat) (rs : list reducer) (s : State) (a : Action)
  : list (nat * State * dop State Eff) :=
  match rs with
  | [] => []
  | r :: rest => (j, s, r s a) :: chain_calls (S j) rest (dop_state (r s a)) a
  end.

Definition call_event (a : Action) (c : nat * State * dop State Eff) : cb :=
  let '(j, sin, d) := c in
  CbReduce j sin a (dop_disp d) (dop_state d) (option_map eid (dop_eff d)).

Definition chain_state (s : State) (calls : list (nat * State * dop State Eff)) : State :=
  match rev calls with [] => s | (_, _, d) :: _ => dop_state d end.
Definition chain_disp (nd : bool) (calls : list (nat * State * dop State Eff)) : bool :=
  match rev calls with [] => nd | (_, _, d) :: _ => dop_disp d end.
Definition chain_effs (calls : list (nat * State * dop State Eff)) : list Eff :=
  flat_map (fun c => opt_to_list (dop_eff (snd c))) calls.

Lemma chain_state_cons s c calls : chain_state s (c :: calls) = chain_state (dop_state (snd c)) calls.
Proof.
  unfold chain_state. cbn [rev]. destruct (rev calls) as [|[[? ?] ?] r].
  - destruct c as [[? ?] ?]. reflexivity.
  - reflexivity.
Qed.
Lemma chain_disp_cons nd c calls : chain_disp nd (c :: calls) = chain_disp (dop_disp (snd c)) calls.
Proof.
  unfold chain_disp. cbn [rev]. destruct (rev calls) as [|[[? ?] ?] r].
  - destruct c as [[? ?] ?]. reflexivity.
  - reflexivity.
Qed.

Lemma run_reducers_spec : forall (rs : list reducer) j s a effs nd,
  run_reducers eid j rs s a effs nd =
  let calls := chain_calls j rs s a in
  (chain_state s calls, effs ++ chain_effs calls, chain_disp nd calls, map (call_event a) calls).
Proof.
  induction rs as [|r rest IH]; intros j s a effs nd; cbn [run_reducers chain_calls].
  - cbn. now rewrite app_nil_r.
  - rewrite IH. cbn zeta. rewrite chain_state_cons, chain_disp_cons.
    cbn [snd map call_event chain_effs flat_map]. rewrite <- app_assoc. reflexivity.
Qed.

(* every reducer is called exactly once, in registration order *)
Lemma chain_calls_length rs j s a : length (chain_calls j rs s a) = length rs.
Proof. revert j s; induction rs as [|r rest IH]; intros; cbn; [reflexivity|now rewrite IH]. Qed.

Lemma chain_calls_index : forall (rs : list reducer) j s a k c,
  nth_error (chain_calls j rs s a) k = Some c -> fst (fst c) = j + k.
Proof.
  induction rs as [|r rest IH]; intros j s a k c H; cbn [chain_calls] in H.
  - destruct k; discriminate.
  - destruct k as [|k]; cbn in H.
    + injection H as <-. cbn. lia.
    + apply IH in H. lia.
Qed.

(* reducer j+1 receives exactly the state reducer j returned; the first receives s *)
Lemma chain_calls_threading : forall (rs : list reducer) j s a l1 x y l2,
  chain_calls j rs s a = l1 ++ x :: y :: l2 -> snd (fst y) = dop_state (snd x).
Proof.
  induction rs as [|r rest IH]; intros j s a l1 x y l2 H; cbn [chain_calls] in H.
  - destruct l1; discriminate.
  - destruct l1 as [|z l1].
    + injection H as <- H. destruct rest as [|r' rest']; cbn [chain_calls] in H; [discriminate|].
      injection H as <- _. reflexivity.
    + injection H as _ H. eapply IH; exact H.
Qed.
Lemma chain_calls_head : forall (rs : list reducer) j s a x l,
  chain_calls j rs s a = x :: l -> snd (fst x) = s.
Proof. intros [|r rest] j s a x l H; cbn in H; [discriminate|]. now injection H as <- _. Qed.

(* each call's answer is the reducer's own answer on the state it was given *)
Lemma chain_calls_answer : forall (rs : list reducer) j s a k c,
  nth_error (chain_calls j rs s a) k = Some c ->
  exists r, nth_error rs k = Some r /\ snd c = r (snd (fst c)) a.
Proof.
  induction rs as [|r rest IH]; intros j s a k c H; cbn [chain_calls] in H.
  - destruct k; discriminate.
  - destruct k as [|k]; cbn in H.
    + injection H as <-. exists r. split; reflexivity.
    + apply IH in H. exact H.
Qed.

(* ---------------- the whole action ---------------- *)
Definition br_verdicts (mws : list middleware) a s := upto_break (map (fun m => mw_br m a s) mws).
Definition bd_verdicts (mws : list middleware) a s := upto_break (map (fun m => mw_bd m a s) mws).

Definition vetoed (mws : list middleware) a s : bool := any_done (br_verdicts mws a s).

Lemma do_reduce_spec (mws : list middleware) (rs : list reducer) s a :
  do_reduce eid mws rs s a =
  let vs := br_verdicts mws a s in
  if vetoed mws a s
  then (true, s, [], false, length vs, br_events 0 a s vs)
  else let calls := chain_calls 0 rs s a in
       (chain_disp true calls, chain_state s calls, chain_effs calls, true, length vs,
        br_events 0 a s vs ++ map (call_event a) calls).
Proof.
  unfold do_reduce, vetoed, br_verdicts. rewrite br_phase_spec. cbn zeta. cbn [andb].
  destruct (any_done _); cbn [negb]; [reflexivity|].
  rewrite run_reducers_spec. reflexivity.
Qed.

(* the post state, the effects returned and the notify request of one action *)
Definition post_state (mws : list middleware) (rs : list reducer) s a : State :=
  if vetoed mws a s then s else chain_state s (chain_calls 0 rs s a).
Definition returned_effs (mws : list middleware) (rs : list reducer) s a : list Eff :=
  if vetoed mws a s then [] else chain_effs (chain_calls 0 rs s a).
Definition need_dispatch (mws : list middleware) (rs : list reducer) s a : bool :=
  if vetoed mws a s then true else chain_disp true (chain_calls 0 rs s a).
Definition reduce_events (mws : list middleware) (rs : list reducer) s a : list cb :=
  if vetoed mws a s then [] else map (call_event a) (chain_calls 0 rs s a).

Theorem process_action_spec (mws : list middleware) (rs : list reducer) (subs : list N) s a :
  let s' := post_state mws rs s a in
  let effs := returned_effs mws rs s a in
  let tr := be_trace mws a s' effs in
  let nd := need_dispatch mws rs s a in
  let bdv := bd_verdicts mws a s' in
  let notify := nd && negb (any_done bdv) in
  process_action eid mws rs subs s a =
  mkOutcome s' (be_final effs tr) notify
    (br_events 0 a s (br_verdicts mws a s) ++ reduce_events mws rs s a ++
     be_events 0 a s' tr ++
     (if nd then bd_events 0 a s' bdv else []) ++
     (if notify then map (fun i => CbNotify i s' a) subs else []))
    (negb (vetoed mws a s)) (length effs)
    (length (br_verdicts mws a s) + length tr + (if nd then length bdv else 0))
    nd (if notify then length subs else 0).
Proof.
  cbn zeta. unfold process_action. rewrite do_reduce_spec. cbn zeta.
  unfold post_state, returned_effs, need_dispatch, reduce_events, bd_verdicts.
  destruct (vetoed mws a s) eqn:V; cbn [negb].
  - rewrite be_phase_spec. cbn zeta. rewrite bd_phase_spec. cbn zeta. cbn [andb].
    destruct (any_done _) eqn:D; cbn [negb]; rewrite ?app_nil_r; cbn [app]; reflexivity.
  - rewrite be_phase_spec. cbn zeta.
    destruct (chain_disp true _) eqn:ND.
    + rewrite bd_phase_spec. cbn zeta. cbn [andb].
      destruct (any_done _) eqn:D; cbn [negb]; rewrite <- ?app_assoc, ?app_nil_r; reflexivity.
    + cbn [andb]. rewrite <- ?app_assoc, ?app_nil_r, Nat.add_0_r. reflexivity.
Qed.

(* hooks see the documented states *)
Lemma br_events_args : forall vs i a s e, In e (br_events i a s vs) ->
  (exists k v, e = CbBeforeReduce k a s v) \/ (exists k, e = CbOnError k HReduce).
Proof.
  induction vs as [|v r IH]; intros i a s e H; cbn in H; [contradiction|].
  destruct H as [<-|H]; [left; eauto|].
  apply in_app_or in H. destruct H as [H|H].
  - destruct v; cbn in H; try contradiction. destruct H as [<-|[]]. right; eauto.
  - eapply IH; exact H.
Qed.
Lemma bd_events_args : forall vs i a s e, In e (bd_events i a s vs) ->
  (exists k v, e = CbBeforeDispatch k a s v) \/ (exists k, e = CbOnError k HDispatch).
Proof.
  induction vs as [|v r IH]; intros i a s e H; cbn in H; [contradiction|].
  destruct H as [<-|H]; [left; eauto|].
  apply in_app_or in H. destruct H as [H|H].
  - destruct v; cbn in H; try contradiction. destruct H as [<-|[]]. right; eauto.
  - eapply IH; exact H.
Qed.
Lemma be_events_args : forall tr i a s e, In e (be_events i a s tr) ->
  (exists k ein eout v, e = CbBeforeEffect k a s ein eout v) \/ (exists k, e = CbOnError k HEffect).
Proof.
  induction tr as [|[[ein eout] v] r IH]; intros i a s e H; cbn in H; [contradiction|].
  destruct H as [<-|H]; [left; eauto 6|].
  apply in_app_or in H. destruct H as [H|H].
  - destruct v; cbn in H; try contradiction. destruct H as [<-|[]]. right; eauto.
  - eapply IH; exact H.
Qed.

(* one on_error per Err verdict, immediately after the hook that returned it *)
Fixpoint count_err (vs : list verdict) : nat :=
  match vs with [] => 0 | VErr :: r => S (count_err r) | _ :: r => count_err r end.
Definition is_on_error (e : cb) : bool := match e with CbOnError _ _ => true | _ => false end.

Lemma br_events_errors : forall vs i a s,
  length (filter is_on_error (br_events i a s vs)) = count_err vs.
Proof.
  induction vs as [|v r IH]; intros i a s; [reflexivity|].
  cbn [br_events]. destruct v; cbn; rewrite ?IH; reflexivity.
Qed.
Lemma bd_events_errors : forall vs i a s,
  length (filter is_on_error (bd_events i a s vs)) = count_err vs.
Proof.
  induction vs as [|v r IH]; intros i a s; [reflexivity|].
  cbn [bd_events]. destruct v; cbn; rewrite ?IH; reflexivity.
Qed.

(* Err is otherwise treated as Continue *)
Definition soften (v : verdict) : verdict := match v with VErr => VContinue | _ => v end.
Lemma upto_break_soften vs : upto_break (map soften vs) = map soften (upto_break vs).
Proof. induction vs as [|v r IH]; [reflexivity|]. destruct v; cbn; rewrite ?IH; reflexivity. Qed.
Lemma any_done_soften vs : any_done (map soften vs) = any_done vs.
Proof. unfold any_done. induction vs as [|v r IH]; [reflexivity|]. destruct v; cbn; rewrite ?IH; reflexivity. Qed.


(* ---------------- corollaries used by C12 ---------------- *)
Definition is_reduce (e : cb) : bool := match e with CbReduce _ _ _ _ _ _ => true | _ => false end.
Definition is_notify (e : cb) : bool := match e with CbNotify _ _ _ => true | _ => false end.

Lemma no_kind_app (f : cb -> bool) l1 l2 :
  (forall e, In e l1 -> f e = false) -> (forall e, In e l2 -> f e = false) ->
  forall e, In e (l1 ++ l2) -> f e = false.
Proof. intros H1 H2 e H. apply in_app_or in H. destruct H; auto. Qed.

Lemma br_events_kind vs i a s e : In e (br_events i a s vs) -> is_reduce e = false /\ is_notify e = false.
Proof. intros H. apply br_events_args in H. destruct H as [(k & v & ->)|(k & ->)]; split; reflexivity. Qed.
Lemma bd_events_kind vs i a s e : In e (bd_events i a s vs) -> is_reduce e = false /\ is_notify e = false.
Proof. intros H. apply bd_events_args in H. destruct H as [(k & v & ->)|(k & ->)]; split; reflexivity. Qed.
Lemma be_events_kind tr i a s e : In e (be_events i a s tr) -> is_reduce e = false /\ is_notify e = false.
Proof.
  intros H. apply be_events_args in H.
  destruct H as [(k & ein & eout & v & ->)|(k & ->)]; split; reflexivity.
Qed.
Lemma call_events_kind a calls e : In e (map (call_event a) calls) -> is_notify e = false.
Proof. intros H. apply in_map_iff in H. destruct H as ([[j sin] d] & <- & _). reflexivity. Qed.

(* DoneAction from before_reduce: no reducer is called, the state is unchanged *)
Theorem veto_skips_reducers (mws : list middleware) (rs : list reducer) subs s a :
  vetoed mws a s = true ->
  let o := process_action eid mws rs subs s a in
  o_state o = s /\ o_reduced o = false /\ (forall e, In e (o_events o) -> is_reduce e = false).
Proof.
  intros V. cbn zeta. rewrite process_action_spec. cbn zeta.
  unfold post_state, returned_effs, need_dispatch, reduce_events. rewrite V. cbn [o_state o_reduced o_events negb].
  repeat split.
  apply no_kind_app; [intros e H; now apply br_events_kind in H|].
  cbn [app]. apply no_kind_app; [intros e H; now apply be_events_kind in H|].
  apply no_kind_app; [intros e H; now apply bd_events_kind in H|].
  destruct (_ && _); [|intros e []].
  intros e H. apply in_map_iff in H. destruct H as (i & <- & _). reflexivity.
Qed.

(* without a veto the whole chain runs and its result becomes the state *)
Theorem no_veto_runs_chain (mws : list middleware) (rs : list reducer) subs s a :
  vetoed mws a s = false ->
  let o := process_action eid mws rs subs s a in
  let calls := chain_calls 0 rs s a in
  o_state o = chain_state s calls /\ o_reduced o = true /\
  filter is_reduce (o_events o) = map (call_event a) calls.
Proof.
  intros V. cbn zeta. rewrite process_action_spec. cbn zeta.
  unfold post_state, returned_effs, need_dispatch, reduce_events. rewrite V. cbn [o_state o_reduced o_events negb].
  repeat split.
  rewrite !filter_app.
  assert (Hnil : forall l, (forall e, In e l -> is_reduce e = false) -> filter is_reduce l = []).
  { induction l as [|x l IH]; intros H; [reflexivity|]. cbn. rewrite (H x (or_introl eq_refl)).
    apply IH. intros e He. apply H. now right. }
  rewrite (Hnil (br_events _ _ _ _)) by (intros e H; now apply br_events_kind in H).
  rewrite (Hnil (be_events _ _ _ _)) by (intros e H; now apply be_events_kind in H).
  rewrite (Hnil (if chain_disp _ _ then _ else _)).
  2:{ destruct (chain_disp _ _); [|intros e []]. intros e H; now apply bd_events_kind in H. }
  rewrite (Hnil (if _ && _ then _ else _)).
  2:{ destruct (_ && _); [|intros e []]. intros e H. apply in_map_iff in H. destruct H as (i & <- & _). reflexivity. }
  cbn [app]. rewrite app_nil_r.
  induction (chain_calls 0 rs s a) as [|[[j sin] d] l IH]; [reflexivity|]. cbn. now rewrite IH.
Qed.

(* DoneAction from before_dispatch: subscribers are not called, the new state is kept *)
Theorem done_dispatch_suppresses (mws : list middleware) (rs : list reducer) subs s a :
  any_done (bd_verdicts mws a (post_state mws rs s a)) = true ->
  let o := process_action eid mws rs subs s a in
  o_state o = post_state mws rs s a /\ o_notified o = false /\
  (forall e, In e (o_events o) -> is_notify e = false).
Proof.
  intros D. cbn zeta. rewrite process_action_spec. cbn zeta. rewrite D. cbn [negb].
  rewrite andb_false_r. cbn [o_state o_notified o_events]. repeat split.
  apply no_kind_app; [intros e H; now apply br_events_kind in H|].
  apply no_kind_app.
  { unfold reduce_events. destruct (vetoed mws a s); [intros e []|]. intros e H. now apply call_events_kind in H. }
  apply no_kind_app; [intros e H; now apply be_events_kind in H|].
  apply no_kind_app; [|intros e []].
  destruct (need_dispatch _ _ _ _); [|intros e []]. intros e H; now apply bd_events_kind in H.
Qed.

(* subscribers are called iff the last reducer answered Dispatch (or there was none, or the action
   was vetoed) and no called before_dispatch hook answered Done; each direct subscriber once, in
   registration order, with the new state and the action *)
Theorem notify_exactly (mws : list middleware) (rs : list reducer) subs s a :
  let o := process_action eid mws rs subs s a in
  let s' := post_state mws rs s a in
  o_notified o = need_dispatch mws rs s a && negb (any_done (bd_verdicts mws a s')) /\
  filter is_notify (o_events o) = if o_notified o then map (fun i => CbNotify i s' a) subs else [].
Proof.
  cbn zeta. rewrite process_action_spec. cbn zeta. cbn [o_notified o_events]. split; [reflexivity|].
  rewrite !filter_app.
  assert (Hnil : forall l, (forall e, In e l -> is_notify e = false) -> filter is_notify l = []).
  { induction l as [|x l IH]; intros H; [reflexivity|]. cbn. rewrite (H x (or_introl eq_refl)).
    apply IH. intros e He. apply H. now right. }
  rewrite (Hnil (br_events _ _ _ _)) by (intros e H; now apply br_events_kind in H).
  rewrite (Hnil (be_events _ _ _ _)) by (intros e H; now apply be_events_kind in H).
  rewrite (Hnil (reduce_events _ _ _ _)).
  2:{ unfold reduce_events. destruct (vetoed mws a s); [intros e []|]. intros e H. now apply call_events_kind in H. }
  rewrite (Hnil (if need_dispatch _ _ _ _ then _ else _)).
  2:{ destruct (need_dispatch _ _ _ _); [|intros e []]. intros e H; now apply bd_events_kind in H. }
  cbn [app]. destruct (_ && _); [|reflexivity].
  induction subs as [|i l IH]; [reflexivity|]. cbn. now rewrite IH.
Qed.

(* ContinueAction changes nothing: with all-Continue identity middlewares the state, the spawned
   effects and the notifications are those of the store without middleware *)
Definition mw_identity (m : middleware) : Prop :=
  (forall a s, mw_br m a s = VContinue) /\ (forall a s l, mw_be m a s l = (l, VContinue)) /\
  (forall a s, mw_bd m a s = VContinue).

Lemma identity_br (mws : list middleware) a s : Forall mw_identity mws ->
  any_done (br_verdicts mws a s) = false.
Proof.
  unfold br_verdicts. induction 1 as [|m r Hm _ IH]; [reflexivity|].
  cbn [map]. destruct Hm as (H1 & _ & _). rewrite H1. cbn. exact IH.
Qed.
Lemma identity_bd (mws : list middleware) a s : Forall mw_identity mws ->
  any_done (bd_verdicts mws a s) = false.
Proof.
  unfold bd_verdicts. induction 1 as [|m r Hm _ IH]; [reflexivity|].
  cbn [map]. destruct Hm as (_ & _ & H1). rewrite H1. cbn. exact IH.
Qed.
Lemma identity_be (mws : list middleware) a s effs : Forall mw_identity mws ->
  be_final effs (be_trace mws a s effs) = effs.
Proof.
  induction 1 as [|m r Hm _ IH]; [reflexivity|].
  cbn [be_trace]. destruct Hm as (_ & H1 & _). rewrite H1. rewrite be_final_cons. cbn. exact IH.
Qed.

Theorem continue_changes_nothing (mws : list middleware) (rs : list reducer) subs s a :
  Forall mw_identity mws ->
  let o := process_action eid mws rs subs s a in
  let o0 := process_action eid [] rs subs s a in
  o_state o = o_state o0 /\ o_spawn o = o_spawn o0 /\ o_notified o = o_notified o0 /\
  filter is_reduce (o_events o) = filter is_reduce (o_events o0) /\
  filter is_notify (o_events o) = filter is_notify (o_events o0).
Proof.
  intros H. cbn zeta.
  pose proof (identity_br mws a s H) as V. fold (vetoed mws a s) in V.
  assert (V0 : vetoed [] a s = false) by reflexivity.
  assert (PS : post_state mws rs s a = post_state [] rs s a) by (unfold post_state; now rewrite V, V0).
  assert (ND : need_dispatch mws rs s a = need_dispatch [] rs s a) by (unfold need_dispatch; now rewrite V, V0).
  destruct (no_veto_runs_chain mws rs subs s a V) as (S1 & _ & R1).
  destruct (no_veto_runs_chain [] rs subs s a V0) as (S0 & _ & R0).
  destruct (notify_exactly mws rs subs s a) as (N1 & F1).
  destruct (notify_exactly [] rs subs s a) as (N0 & F0).
  cbn zeta in *.
  assert (NN : o_notified (process_action eid mws rs subs s a) = o_notified (process_action eid [] rs subs s a)).
  { rewrite N1, N0, ND, identity_bd by assumption. reflexivity. }
  repeat split; try congruence.
  - rewrite !process_action_spec. cbn zeta. cbn [o_spawn].
    rewrite identity_be by assumption. unfold returned_effs. now rewrite V, V0.
  - rewrite F1, F0, NN, PS. reflexivity.
Qed.

End PipelineProofs.
