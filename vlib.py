"""vlib.py - shared machinery of the rs-store checks: building, proof obligations, running the
model driver and the harness, evidence and violation reports."""
import hashlib
import json
import os
import re
import subprocess
import sys
import time
from concurrent.futures import ThreadPoolExecutor

ROOT = os.path.dirname(os.path.abspath(__file__))
COQ = os.path.join(ROOT, "coq")
RUNNER = os.path.join(ROOT, "runner")
HARNESS_DIR = os.path.join(ROOT, "harness")
HARNESS = os.path.join(HARNESS_DIR, "target", "debug", "harness")
DRIVER = os.path.join(RUNNER, "driver")
WORK = os.path.join(ROOT, ".work")
REPLAYS = os.path.join(ROOT, "replays")
EVIDENCE = os.path.join(ROOT, "evidence")
CORES = os.cpu_count() or 4

ENV = dict(os.environ)
ENV.update({"CARGO_NET_OFFLINE": "true"})

FORBIDDEN = re.compile(
    r"\b(Admitted|admit|Axiom|Axioms|Parameter|Parameters|Conjecture|Conjectures|Abort All|"
    r"Unset Guard Checking|Unset Positivity Checking|Unset Universe Checking|bypass_check|"
    r"type-in-type|impredicative-set|Admit Obligations)\b")
# Variable/Hypothesis are allowed inside sections only
SECTION_ONLY = re.compile(r"^\s*(Variable|Variables|Hypothesis|Hypotheses|Context)\b")

TRUSTED_BASE = [
    "Coq 8.16.1 kernel (coqc full .vo build; vm_compute used in Examples/witnesses; no native_compute)",
    "axioms: none (Print Assumptions of every property theorem must be 'Closed under the global context')",
    "extraction: ExtrOcamlBasic only (Extract Inductive bool/option/unit/list/prod/sumbool/sumor, "
    "Extract Inlined Constant andb/orb); OCaml 4.13.1 ocamlfind ocamlopt",
    "hand-written OCaml driver runner/{scen,driver}.ml (parser, printer, scheduler of the model)",
    "Rust harness /verif/harness (scripted callbacks, logger, cooperative scheduler), hook module "
    "/repo/src/verif.rs and its call sites under --cfg rs_store_verif",
    "modelled, not verified: crossbeam bounded channel (FIFO, blocking send/recv, try_*, "
    "disconnect), std::sync::Mutex, thread spawn/join, rusty_pool (runs each task once on another "
    "thread; join waits for all); user callbacks are pure returning functions",
    "check.py / vlib.py (generation, sharding, comparison, shrinking)",
]


def sh(cmd, timeout=900, cwd=ROOT, input_text=None, env=None):
    """run a shell command under a timeout; returns (rc, stdout+stderr)"""
    try:
        p = subprocess.run(cmd, shell=isinstance(cmd, str), cwd=cwd, input=input_text,
                           stdout=subprocess.PIPE, stderr=subprocess.STDOUT, text=True,
                           timeout=timeout, env=env or ENV)
        return p.returncode, p.stdout
    except subprocess.TimeoutExpired as e:
        out = e.stdout or ""
        if isinstance(out, bytes):
            out = out.decode("utf-8", "replace")
        return 124, out + "\n[timeout after %ss]" % timeout


def run_tool(argv, input_text, timeout=300):
    """run the driver or the harness: returns (rc, stdout) with stderr kept apart"""
    try:
        p = subprocess.run(argv, input=input_text, stdout=subprocess.PIPE, stderr=subprocess.PIPE,
                           text=True, timeout=timeout, env=ENV, cwd=ROOT)
        return p.returncode, p.stdout, p.stderr
    except subprocess.TimeoutExpired as e:
        out = e.stdout or ""
        if isinstance(out, bytes):
            out = out.decode("utf-8", "replace")
        return 124, out, "[timeout after %ss]" % timeout


class BuildError(Exception):
    pass


# ------------------------------------------------------------------------------------------------
# building
# ------------------------------------------------------------------------------------------------
def build_coq(targets=None):
    """full .vo build of the development (or of the named targets); never -vos"""
    if not os.path.exists(os.path.join(COQ, "Makefile")):
        rc, out = sh("coq_makefile -f _CoqProject -o Makefile", cwd=COQ, timeout=120)
        if rc != 0:
            raise BuildError("coq_makefile failed:\n" + out)
    tgt = " ".join(targets) if targets else ""
    rc, out = sh("timeout 5400 make -j%d %s" % (CORES, tgt), cwd=COQ, timeout=5500)
    return rc, out


def build_driver():
    """copy the extracted model next to the driver and compile it when stale"""
    src_ml = os.path.join(COQ, "model.ml")
    if not os.path.exists(src_ml):
        raise BuildError("coq/model.ml missing: extraction did not run")
    stale = not os.path.exists(DRIVER)
    for f in ("model.ml", "model.mli"):
        s, d = os.path.join(COQ, f), os.path.join(RUNNER, f)
        if not os.path.exists(d) or open(s).read() != open(d).read():
            with open(d, "w") as fh:
                fh.write(open(s).read())
            stale = True
    if not stale:
        newest = max(os.path.getmtime(os.path.join(RUNNER, f)) for f in os.listdir(RUNNER)
                     if f.endswith(".ml") or f.endswith(".mli"))
        stale = newest > os.path.getmtime(DRIVER)
    if stale:
        mls = "model.mli model.ml scen.ml " + " ".join(
            f for f in ["sched.ml", "monitors.ml"] if os.path.exists(os.path.join(RUNNER, f))) + " driver.ml"
        rc, out = sh("ocamlfind ocamlopt -O2 -w -a -package unix -linkpkg %s -o driver" % mls,
                     cwd=RUNNER, timeout=600)
        if rc != 0:
            raise BuildError("driver build failed:\n" + out)


def build_harness():
    """cargo build of the harness against /repo's current working tree, hooks on (the cfg is in
    harness/.cargo/config.toml); cargo itself decides whether anything is stale"""
    lock = os.path.join(HARNESS_DIR, "Cargo.lock")
    if not os.path.exists(lock):
        with open(lock, "w") as fh:
            fh.write(open("/repo/Cargo.lock").read())
    rc, out = sh("timeout 1200 cargo build --offline --message-format short", cwd=HARNESS_DIR, timeout=1300)
    if rc != 0 or not os.path.exists(HARNESS):
        tail = "\n".join(l for l in out.split("\n") if "warning" not in l)[-3000:]
        raise BuildError("harness build failed (does /repo still compile?):\n" + tail)


def ensure_built():
    rc, out = build_coq()
    coq_ok = rc == 0
    coq_out = out
    if os.path.exists(os.path.join(COQ, "model.ml")):
        build_driver()
    build_harness()
    return coq_ok, coq_out


# ------------------------------------------------------------------------------------------------
# proof obligations
# ------------------------------------------------------------------------------------------------
def coq_sources():
    out = []
    for d, _, fs in os.walk(COQ):
        for f in fs:
            if f.endswith(".v"):
                out.append(os.path.join(d, f))
    return sorted(out)


def strip_comments(text):
    res, depth, i = [], 0, 0
    while i < len(text):
        if text.startswith("(*", i):
            depth += 1
            i += 2
        elif text.startswith("*)", i) and depth > 0:
            depth -= 1
            i += 2
        else:
            if depth == 0:
                res.append(text[i])
            i += 1
    return "".join(res)


def grep_forbidden():
    """Admitted/admit/Axiom/... anywhere; Variable/Hypothesis outside a section"""
    bad = []
    for path in coq_sources():
        text = strip_comments(open(path).read())
        depth = 0
        for n, line in enumerate(text.split("\n"), 1):
            if re.match(r"^\s*Section\b", line):
                depth += 1
            elif re.match(r"^\s*End\b", line) and depth > 0:
                depth -= 1
            m = FORBIDDEN.search(line)
            if m:
                bad.append("%s:%d: %s" % (os.path.relpath(path, ROOT), n, m.group(0)))
            if depth == 0 and SECTION_ONLY.match(line):
                bad.append("%s:%d: %s outside a section" % (os.path.relpath(path, ROOT), n, line.strip()))
    return bad


def theorem_names(prop):
    path = os.path.join(COQ, "Props", prop + ".v")
    text = strip_comments(open(path).read())
    return re.findall(r"^\s*Theorem\s+(\w+)", text, re.M)


def cone_files(prop):
    """the .v files Props/<prop>.v depends on inside the development (transitively)"""
    seen, todo = set(), [os.path.join(COQ, "Props", prop + ".v")]
    while todo:
        f = todo.pop()
        if f in seen or not os.path.exists(f):
            continue
        seen.add(f)
        text = strip_comments(open(f).read())
        for m in re.finditer(r"From RS Require (?:Import|Export) ([^.]*)\.", text):
            for name in m.group(1).split():
                name = name.replace("Props.", "Props/")
                todo.append(os.path.join(COQ, name + ".v"))
    return sorted(seen)


def count_obligations(prop):
    n = 0
    for f in cone_files(prop):
        text = strip_comments(open(f).read())
        n += len(re.findall(r"^\s*(?:Theorem|Lemma|Corollary|Example|Fact)\s+\w+", text, re.M))
    return n


def pins_check(prop):
    """the statement files are pinned by hash (coq/Props/PINS.json) so that a theorem cannot be
    weakened silently"""
    pins_path = os.path.join(COQ, "Props", "PINS.json")
    path = os.path.join(COQ, "Props", prop + ".v")
    digest = hashlib.sha256(open(path, "rb").read()).hexdigest()
    if not os.path.exists(pins_path):
        return "PINS.json missing"
    pins = json.load(open(pins_path))
    if pins.get(prop) != digest:
        return "Props/%s.v does not match its pinned hash" % prop
    return None


def print_assumptions(prop):
    """re-issue Print Assumptions for every theorem of Props/<prop>.v; returns
    (ok, {theorem: text})"""
    names = theorem_names(prop)
    os.makedirs(WORK, exist_ok=True)
    path = os.path.join(WORK, "Assum_%s_%d.v" % (prop, os.getpid()))
    with open(path, "w") as fh:
        fh.write("From RS Require Import Props.%s.\n" % prop)
        for n in names:
            fh.write('Goal True. idtac "@@ %s". exact I. Qed.\nPrint Assumptions %s.\n' % (n, n))
    rc, out = sh("timeout 300 coqc -Q %s RS %s" % (COQ, path), timeout=320)
    for ext in (".v", ".vo", ".vok", ".vos", ".glob"):
        try:
            os.remove(path[:-2] + ext)
        except OSError:
            pass
    try:
        os.remove(os.path.join(WORK, ".Assum_%s_%d.aux" % (prop, os.getpid())))
    except OSError:
        pass
    res, cur = {}, None
    for line in out.split("\n"):
        if line.startswith("@@ "):
            cur = line[3:].strip()
            res[cur] = ""
        elif cur is not None and not line.startswith("WARNING"):
            res[cur] += line + "\n"
    ok = rc == 0 and len(res) == len(names) and all(
        v.strip() == "Closed under the global context" for v in res.values())
    return ok, res, out


def proof_step(prop, coq_ok, coq_out):
    """returns (ok, info dict, failure text)"""
    info = {"theorems": theorem_names(prop), "obligations": count_obligations(prop)}
    if not coq_ok:
        return False, info, "the Coq development does not build:\n" + coq_out[-3000:]
    bad = grep_forbidden()
    if bad:
        return False, info, "forbidden declarations in the development:\n" + "\n".join(bad)
    pin = pins_check(prop)
    if pin:
        return False, info, pin
    ok, res, raw = print_assumptions(prop)
    info["assumptions"] = {k: v.strip() for k, v in res.items()}
    if not ok:
        return False, info, "Print Assumptions is not clean:\n" + raw[-3000:]
    return True, info, ""


# ------------------------------------------------------------------------------------------------
# sharded model/implementation runs
# ------------------------------------------------------------------------------------------------
def chunks(lst, n):
    k = max(1, (len(lst) + n - 1) // n)
    return [lst[i:i + k] for i in range(0, len(lst), k)]


def run_sharded(mode, inputs, sep="\n", shards=None, timeout=600, harness_args=None, driver_args=None):
    """run `driver <mode>` and `harness <mode>` on the same inputs, sharded; returns two lists of
    raw outputs (one per shard) plus the shard inputs"""
    shards = shards or CORES
    parts = chunks(inputs, shards)

    def one(part):
        text = sep.join(part) + sep
        d = run_tool([DRIVER, mode] + (driver_args or []), text, timeout)
        h = run_tool([HARNESS, mode] + (harness_args or []), text, timeout)
        return part, d, h

    with ThreadPoolExecutor(max_workers=shards) as ex:
        return list(ex.map(one, parts))


# ------------------------------------------------------------------------------------------------
# reports
# ------------------------------------------------------------------------------------------------
class Report:
    def __init__(self, prop, tier, seed):
        self.prop, self.tier, self.seed = prop, tier, seed
        self.t0 = time.time()
        self.violations = []
        self.deferred = []   # bare divergences: reported at the end, only if nothing concrete was found
        self.known = []
        self.coverage = {"evaluations": 0, "distinct_nontrivial": 0, "samples": [], "rule": "",
                         "programs": 0, "disagreements_checked": 0,
                         "traces_validated_against_impl": 0}
        self.assumptions = []
        self.distinct = set()
        self.known_hits = {}

    def violation(self, text, replay_body, no_input=False):
        os.makedirs(REPLAYS, exist_ok=True)
        path = os.path.join(REPLAYS, "%s_%s_%d_%d.txt" % (self.prop, self.tier, self.seed,
                                                         len(self.violations)))
        with open(path, "w") as fh:
            fh.write("# property %s\n# %s\n" % (self.prop, text.replace("\n", "\n# ")))
            fh.write(replay_body)
        self.violations.append(text)
        print("VIOLATION property=%s replay=%s%s" % (self.prop, path,
                                                     " no-failing-input-found" if no_input else ""))
        sys.stdout.flush()

    def known_finding(self, what):
        self.known.append(what)
        print("KNOWN-FINDING: property=%s %s" % (self.prop, what))

    def defer(self, text, replay_body):
        self.deferred.append((text, replay_body))

    def finish(self, proof_info, checker_cmd):
        if self.deferred and not self.violations:
            for text, body in self.deferred[:2]:
                self.violation(text, body, no_input=True)
        cov = self.coverage
        cov["distinct_nontrivial"] = max(cov["distinct_nontrivial"], len(self.distinct))
        cov["obligations"] = proof_info.get("obligations", 0)
        cov["discharged"] = proof_info.get("obligations", 0) if proof_info.get("ok") else 0
        cov["checker_cmd"] = checker_cmd
        cov["trusted_base"] = TRUSTED_BASE
        cov["theorems"] = proof_info.get("theorems", [])
        cov["print_assumptions"] = proof_info.get("assumptions", {})
        cov["samples"] = cov["samples"][:6]
        ev = {"property_id": self.prop, "tier": self.tier, "seed": self.seed, "level": "proof",
              "coverage": cov, "assumptions": self.assumptions,
              "wall_s": round(time.time() - self.t0, 2), "violations": len(self.violations),
              "known_findings": self.known}
        os.makedirs(EVIDENCE, exist_ok=True)
        with open(os.path.join(EVIDENCE, self.prop + ".json"), "w") as fh:
            json.dump(ev, fh, indent=1)
        return 1 if self.violations else 0
