(* sched.ml — schedules of the extracted interleaving model (engine L) and printing of model
   histories (engines L and F). Trusted test machinery on top of Model.step / Model.enabled. *)
open Model
open Scen

(* ---------- client op tokens <-> calls -------------------------------------------------------
   d.E.A | gs | gm | ar:J | am:I | as:S | ss:S:SEL | sc:S:CAP:POL | un:S | it:S | itw:S:CAP:POL |
   nx:S | di:S | close | stop | drop | th:K:BODY | tk:K:BODY *)
let call_of_token (tok : string) : call =
  let i s = n_of_int (int_of_string s) in
  match split_on ':' tok with
  | ["gs"] -> CGetState
  | ["gm"] -> CGetMetrics
  | ["ar"; j] -> CAddReducer (i j)
  | ["am"; j] -> CAddMiddleware (i j)
  | ["as"; s] -> CAddSubscriber (i s)
  | ["ss"; s; k] -> CSubscribeSelector (i s, i k)
  | ["sc"; s; c; p] -> CSubscribed (i s, nat_of_int (int_of_string c), policy_of_string p)
  | ["un"; s] -> CUnsubscribe (i s)
  | ["it"; s] -> CIter (i s, nat_of_int 1, Block)
  | ["itw"; s; c; p] -> CIter (i s, nat_of_int (int_of_string c), policy_of_string p)
  | ["nx"; s] -> CNext (i s)
  | ["di"; s] -> CDropIter (i s)
  | ["dr"; s] -> CDrain (i s)
  | ["close"] -> CClose
  | ["stop"] -> CStop
  | ["drop"] -> CDropStore
  | ["pdrop"] -> CDropStore      (* dropped while the owner unwinds from a panic: same call *)
  | ["th"; k; b] -> CThunk (i k, body_of_string b)
  | ["tk"; k; b] -> CTask (i k, body_of_string b)
  | ["panic"] -> CPanic
  | [d] ->
      (match split_on '.' d with
       | ["d"; e; a] -> CDispatch (entry_of_string e, i a)
       | _ -> fail "bad op %s" tok)
  | _ -> fail "bad op %s" tok

let string_of_body b = if b = [] then "-" else String.concat "," (List.map string_of_bop b)

let token_of_call (c : call) : string =
  let s = int_of_n in
  match c with
  | CDispatch (e, a) -> Printf.sprintf "d.%s.%d" (string_of_entry e) (s a)
  | CThunk (k, b) -> Printf.sprintf "th:%d:%s" (s k) (string_of_body b)
  | CTask (k, b) -> Printf.sprintf "tk:%d:%s" (s k) (string_of_body b)
  | CGetState -> "gs" | CGetMetrics -> "gm"
  | CAddReducer j -> Printf.sprintf "ar:%d" (s j)
  | CAddMiddleware j -> Printf.sprintf "am:%d" (s j)
  | CAddSubscriber x -> Printf.sprintf "as:%d" (s x)
  | CSubscribeSelector (x, k) -> Printf.sprintf "ss:%d:%d" (s x) (s k)
  | CSubscribed (x, c, p) -> Printf.sprintf "sc:%d:%d:%s" (s x) (int_of_nat c) (string_of_policy p)
  | CUnsubscribe x -> Printf.sprintf "un:%d" (s x)
  | CIter (x, c, p) ->
      if int_of_nat c = 1 && p = Block then Printf.sprintf "it:%d" (s x)
      else Printf.sprintf "itw:%d:%d:%s" (s x) (int_of_nat c) (string_of_policy p)
  | CNext x -> Printf.sprintf "nx:%d" (s x)
  | CDropIter x -> Printf.sprintf "di:%d" (s x)
  | CDrain x -> Printf.sprintf "dr:%d" (s x)
  | CClose -> "close" | CStop -> "stop" | CDropStore -> "drop" | CPanic -> "panic"

let string_of_metrics (m : metrics) : string =
  Printf.sprintf "received=%d dropped=%d reduced=%d issued=%d mw=%d state_notified=%d sub_notified=%d errors=%d"
    (int_of_n m.m_received) (int_of_n m.m_dropped) (int_of_n m.m_reduced) (int_of_n m.m_issued)
    (int_of_n m.m_mw) (int_of_n m.m_state_notified) (int_of_n m.m_sub_notified) (int_of_n m.m_errors)

let string_of_result (r : sstate result) : string =
  match r with
  | ROk -> "ok" | RErr -> "err" | RUnit -> "unit"
  | RState s -> "state=" ^ string_of_state s
  | RMetrics m -> "metrics=" ^ String.concat "," (String.split_on_char ' ' (string_of_metrics m))
  | RItem None -> "item=none"
  | RItem (Some (s, a)) -> Printf.sprintf "item=%s@%d" (string_of_state s) (int_of_n a)

(* API-level text of an event and the logical thread it belongs to; None = internal event *)
let api_event (mw_ids : int list) (e : sstate event) : (int * string) option =
  match e with
  | EInv (t, c) -> Some (int_of_n t, "INV " ^ token_of_call c)
  | ERet (t, c, r) -> Some (int_of_n t, Printf.sprintf "RET %s %s" (token_of_call c) (string_of_result r))
  | ECb (x, c) ->
      let t = match x with XReducer -> 100 | XThread t -> int_of_n t | XChan s -> 201 + 2 * int_of_n s in
      Some (t, string_of_cb mw_ids c)
  | EPanic t -> Some (int_of_n t, "PANIC")
  | _ -> None

let internal_event (e : sstate event) : string option =
  match e with
  | EEnq a -> Some (Printf.sprintf "enq %d" (int_of_n a))
  | EEnqExit -> Some "enq exit"
  | EDeq (IAct a) -> Some (Printf.sprintf "deq %d" (int_of_n a))
  | EDeq IExit -> Some "deq exit"
  | EDisc -> Some "disconnect"
  | EDrop a -> Some (Printf.sprintf "drop %d" (int_of_n a))
  | EReject a -> Some (Printf.sprintf "reject %d" (int_of_n a))
  | ESubDrop s -> Some (Printf.sprintf "subdrop %d" (int_of_n s))
  | ESubSend (s, a) -> Some (Printf.sprintf "subsend %d %d" (int_of_n s) (int_of_n a))
  | ESubRecv (s, a) -> Some (Printf.sprintf "subrecv %d %d" (int_of_n s) (int_of_n a))
  | EReduced a -> Some (Printf.sprintf "reduced %d" (int_of_n a))
  | EWrite (a, _) -> Some (Printf.sprintf "write %d" (int_of_n a))
  | ESnapshot (a, _, l) -> Some (Printf.sprintf "snapshot %d [%s]" (int_of_n a) (string_of_ids (List.map (fun x -> x.se_id) l)))
  | ESpawn (k, t) -> Some (Printf.sprintf "spawn %d as %d" (int_of_n k) (int_of_n t))
  | ESpawnSkipped k -> Some (Printf.sprintf "spawn-skipped %d" (int_of_n k))
  | ETakePool -> Some "take-pool"
  | _ -> None

let string_of_label (l : label) : string =
  match l with
  | LClientOp -> "client.op" | LClientCall -> "client.call" | LTaskStart -> "task.start"
  | LDispatchTx -> "dispatch.tx" | LDispatcherTx -> "dispatcher.tx" | LChanSend -> "chan.send"
  | LChanDo2 -> "chan.do2" | LChanDo3 -> "chan.do3" | LCloseTx -> "close.tx"
  | LStopTake -> "stop.take" | LStopJoin -> "stop.join" | LSubsAdd -> "subs.add"
  | LSubsUnsub -> "subs.unsub" | LCtxClear -> "ctx.clear" | LChJoin -> "ch.join"
  | LChanRecv -> "chan.recv" | LMwsReduce -> "reducer.mws.reduce" | LRed -> "reducer.red"
  | LWrite -> "reducer.write" | LMwsEffect -> "reducer.mws.effect" | LSpawn -> "reducer.spawn"
  | LMwsDispatch -> "reducer.mws.dispatch" | LSnapshot -> "reducer.snapshot"
  | LNotify -> "reducer.notify" | LClear -> "reducer.clear" | LClearItem -> "reducer.clear.item"
  | LFinished -> "finished"

(* ---------- the model world of a scenario ---------------------------------------------------- *)
type mworld = sstate world

let config_of (sc : scenario) : sstate wconfig =
  script_config (scripts_of sc) (nat_of_int sc.cap) sc.pol

let world_of (sc : scenario) : mworld =
  let subs = List.map (function
    | SubDirect s -> ISDirect (n_of_int s)
    | SubSelector (s, k) -> ISSelector (n_of_int s, n_of_int k)
    | SubChan (s, c, p) -> ISChan (n_of_int s, nat_of_int c, p)) sc.init_subs in
  let threads = List.sort compare sc.threads in
  List.iteri (fun i (t, _) -> if t <> i then fail "client threads must be numbered 0..n-1") threads;
  scenario_world (scripts_of sc) (nat_of_int sc.cap) sc.pol (List.map n_of_int sc.init_reducers)
    (List.map n_of_int sc.init_mws) subs
    (List.map (fun (_, ops) -> List.map call_of_token ops) threads)

let tids (w : mworld) : int list = List.map (fun (t, _) -> int_of_n t) w.w_threads
let thread_of (w : mworld) (t : int) = get_thread w.w_threads (n_of_int t)
let label_of (w : mworld) (t : int) : string =
  match thread_of w t with Some th -> string_of_label (label_of_thread th) | None -> "?"
let finished (w : mworld) (t : int) : bool =
  match thread_of w t with Some th -> thread_finished th | None -> true

(* the events a step appended, oldest first *)
let new_events (w : mworld) (w' : mworld) : sstate event list =
  let n = List.length w'.w_hist - List.length w.w_hist in
  let rec take k l = if k <= 0 then [] else match l with [] -> [] | x :: r -> x :: take (k - 1) r in
  List.rev (take n w'.w_hist)

(* workers running an Effect::Action: the store's own closure, no user code observes its calls *)
let invisible : (int, unit) Hashtbl.t = Hashtbl.create 16

(* one transcript line for a step of thread t from w to w' *)
let step_line (kind : string) (w : mworld) (w' : mworld) (t : int) : string =
  let mw_ids = List.map int_of_n w.w_mws in
  let evs = new_events w w' in
  List.iter (fun e ->
    match e with
    | ESpawn (_, t') ->
        (match get_thread w'.w_threads t' with
         | Some (TClient (_, _, PTaskStart (_, false))) -> Hashtbl.replace invisible (int_of_n t') ()
         | _ -> ())
    | _ -> ()) evs;
  let mine = if Hashtbl.mem invisible t then [] else List.filter_map (fun e ->
    match api_event mw_ids e with Some (t', s) when t' = t -> Some s | _ -> None) evs in
  let news = List.filter_map (fun e ->
    match e with ESpawn (_, t') -> Some (Printf.sprintf " NEW %d" (int_of_n t')) | _ -> None) evs in
  (* a channeled thread created by subscribed_with *)
  let before = tids w in
  let news2 = List.filter_map (fun t' ->
    if List.mem t' before || (t' >= 1000 && t' mod 2 = 0) then None else Some (Printf.sprintf " NEW %d" t')) (tids w') in
  Printf.sprintf "%s %d %s%s |%s" kind t (label_of w' t) (String.concat "" (news @ news2))
    (String.concat "" (List.map (fun s -> " ; " ^ s) mine))

(* the model history in its global order, API-level events only (for the monitors) *)
let hist_lines (w : mworld) : string list =
  List.filter_map (fun e ->
    match api_event (List.map int_of_n w.w_mws) e with
    | Some (t, s) when not (Hashtbl.mem invisible t) -> Some (Printf.sprintf "L %d 0 %s" t s)
    | _ -> (match internal_event e with Some s -> Some ("I " ^ s) | None -> None)) (List.rev w.w_hist)

let end_lines (w : mworld) : string list =
  let unfinished = List.sort compare (List.filter (fun t -> not (finished w t)) (tids w)) in
  [ Printf.sprintf "END state=%s" (string_of_state w.w_state);
    Printf.sprintf "END metrics %s" (string_of_metrics w.w_metrics);
    Printf.sprintf "END unfinished=%s"
      (if unfinished = [] then "-" else String.concat "," (List.map (fun t ->
         Printf.sprintf "%d@%s" t (label_of w t)) unfinished)) ]

(* ---------- random schedules with probes ------------------------------------------------------ *)
type sched_opts = { probe_pct : int; max_steps : int; max_probes : int }

let gen_schedule (cfg : sstate wconfig) (w0 : mworld) (rng : Random.State.t) (o : sched_opts)
  : string list * mworld =
  Hashtbl.reset invisible;
  let lines = ref [] and w = ref w0 and committed = ref None and steps = ref 0 and probes = ref 0 in
  let emit s = lines := s :: !lines in
  let continue = ref true in
  (* a thread is biased to keep running for a while: makes long stretches and tight races *)
  let last = ref (-1) in
  (* scheduling style of this scenario: 0 = uniform with stickiness; 1 = eager store: whenever a
     thread of the store itself (reducer, channeled thread, worker) can run it mostly does, so
     that every action is completely processed before the clients go on - the near-sequential
     region where stale caches and skipped publications show *)
  let style = if Random.State.int rng 100 < 35 then 1 else 0 in
  while !continue && !steps < o.max_steps do
    incr steps;
    let all = tids !w in
    (* forced step of the committed thread as soon as the model enables it *)
    (match !committed with
     | Some t when enabled cfg !w (n_of_int t) ->
         (match step cfg !w (n_of_int t) with
          | Some w' -> emit (step_line "F" !w w' t); w := w'; committed := None
          | None -> ())
     | _ ->
         let en = List.filter (fun t -> Some t <> !committed && enabled cfg !w (n_of_int t)) all in
         let blocked = List.filter (fun t ->
           Some t <> !committed && not (finished !w t) && not (enabled cfg !w (n_of_int t))) all in
         if en = [] then continue := false
         else begin
           (* maybe probe a blocked thread first (never the idle waits on an empty queue of an
              open store: the reducer / a channeled thread / an iterator consumer parked at recv
              simply stay parked until the model enables them) *)
           let probeable = List.filter (fun t -> label_of !w t <> "chan.recv") blocked in
           (* the store's own threads waiting in a forwarding send (a full subscription channel)
              are probed more often than chance would: they are few and short-lived *)
           let own_blocked = List.filter (fun t -> t >= 100 && label_of !w t = "chan.send") probeable in
           let want_own = own_blocked <> [] && o.probe_pct > 0 && Random.State.int rng 100 < 30 in
           if !committed = None && probeable <> [] && !probes < o.max_probes
              && (want_own || Random.State.int rng 100 < o.probe_pct) then begin
             let pool = if want_own then own_blocked else probeable in
             let t = List.nth pool (Random.State.int rng (List.length pool)) in
             (* now and then a long probe of a blocking send: a wait that gives up after a while
                (a blocking call replaced by one with a time-out) only shows after that while *)
             let long = label_of !w t = "chan.send"
                        && Random.State.int rng 100 < (if t >= 100 then 45 else 6) in
             emit (Printf.sprintf "P %d %s" t (if long then "blocked-long" else "blocked"));
             committed := Some t; incr probes
           end else begin
             let own = List.filter (fun t -> t >= 100) en in
             let t =
               if style = 1 && own <> [] && Random.State.int rng 100 < 85 then
                 (if List.mem !last own && Random.State.int rng 100 < 70 then !last
                  else List.nth own (Random.State.int rng (List.length own)))
               else if List.mem !last en && Random.State.int rng 100 < 55 then !last
               else List.nth en (Random.State.int rng (List.length en)) in
             last := t;
             match step cfg !w (n_of_int t) with
             | Some w' -> emit (step_line "S" !w w' t); w := w'
             | None -> continue := false
           end
         end)
  done;
  (List.rev !lines, !w)

(* replay an explicit schedule (list of "S t" / "P t" / "F t"); used for corpus and witnesses *)
let replay_schedule (cfg : sstate wconfig) (w0 : mworld) (sched : (string * int) list)
  : string list * mworld =
  Hashtbl.reset invisible;
  let w = ref w0 and lines = ref [] in
  (try
     List.iter (fun (k, t) ->
       if k = "P" then begin
         lines := (if enabled cfg !w (n_of_int t) then Printf.sprintf "P %d enabled-in-model" t
                   else Printf.sprintf "P %d blocked" t) :: !lines
       end else
         match step cfg !w (n_of_int t) with
         | Some w' -> lines := step_line k !w w' t :: !lines; w := w'
         | None -> lines := Printf.sprintf "%s %d NOT-ENABLED-IN-MODEL" k t :: !lines; raise Exit) sched
   with Exit -> ());
  (List.rev !lines, !w)
