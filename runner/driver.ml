(* driver.ml — command line front end of the extracted model (trusted test machinery).
   usage: driver <mode> < input > output *)
open Model
open Scen
open Sched

(* ---------- mode seq: single-producer runs (engine S) ------------------------------------
   scenario: thread 0 is the only client; its ops are dispatches; output: the reducer-context
   log, the effects handed to the pool, the final state and the count metrics. *)
let run_seq () =
  iter_scenarios stdin (fun sc ->
    let scripts = scripts_of sc in
    let actions =
      List.concat_map (fun (_, ops) ->
        List.filter_map (fun op ->
          match split_on '.' op with
          | ["d"; _; a] -> Some (n_of_int (int_of_string a))
          | _ -> None) ops) sc.threads in
    let subs = List.filter_map (function
      | SubDirect s -> Some (SSDirect (n_of_int s))
      | SubSelector (s, k) -> Some (SSSelector (n_of_int s, n_of_int k))
      | SubChan _ -> None) sc.init_subs in
    let (final, outs) =
      seq_run scripts (List.map n_of_int sc.init_reducers) (List.map n_of_int sc.init_mws) subs actions in
    let received = ref 0 and reduced = ref 0 and issued = ref 0 and executed = ref 0 and mw = ref 0
    and st_not = ref 0 and sub_not = ref 0 in
    List.iter (fun (o, notif) ->
      incr received;
      if o.o_reduced then incr reduced;
      issued := !issued + int_of_nat o.o_issued;
      executed := !executed + List.length o.o_spawn;
      mw := !mw + int_of_nat o.o_mw;
      if o.o_state_notified then incr st_not;
      if o.o_notified then sub_not := !sub_not + List.length subs;
      List.iter (fun c -> print_endline (string_of_cb sc.init_mws c)) o.o_events;
      List.iter (fun e -> Printf.printf "SPAWN %d\n" (int_of_n e.e_id)) o.o_spawn;
      List.iter (fun c -> print_endline (string_of_cb sc.init_mws c)) notif) outs;
    Printf.printf "FINAL %s\n" (string_of_state final);
    (* +1: the exit marker is counted as received *)
    Printf.printf "METRICS received=%d dropped=0 reduced=%d issued=%d executed=%d mw=%d state_notified=%d sub_notified=%d errors=0\n"
      (!received + 1) !reduced !issued !executed !mw !st_not !sub_not;
    print_endline "---")

(* ---------- mode builder: builder call chains (C17) --------------------------------------
   one chain per line, tokens: name.N wr.R wrs.R,R ar.R wo cap.C pol.P wm.M wms.M,M am.M *)
let bcall_of_string s =
  match split_on '.' s with
  | ["name"; x] -> BName (n_of_int (int_of_string x))
  | ["wr"; r] -> BWithReducer (n_of_int (int_of_string r))
  | ["wrs"; l] -> BWithReducers (ns_of_string l)
  | ["ar"; r] -> BAddReducer (n_of_int (int_of_string r))
  | ["wo"] -> BWithoutReducer
  | ["cap"; c] -> BCapacity (nat_of_int (int_of_string c))
  | ["pol"; p] -> BPolicy (policy_of_string p)
  | ["wm"; m] -> BWithMiddleware (n_of_int (int_of_string m))
  | ["wms"; l] -> BWithMiddlewares (ns_of_string l)
  | ["am"; m] -> BAddMiddleware (n_of_int (int_of_string m))
  | _ -> fail "bad builder call %s" s

let run_builder () =
  try
    while true do
      let line = input_line stdin in
      let calls = List.map bcall_of_string (words line) in
      match build (apply_bcalls builder_new calls) with
      | Inl c ->
          Printf.printf "OK name=%d cap=%d pol=%s reducers=%s mws=%s\n" (int_of_n c.c_name)
            (int_of_nat c.c_capacity) (string_of_policy c.c_policy) (string_of_ids c.c_reducers)
            (string_of_ids c.c_mws)
      | Inr ErrNoReducer -> print_endline "ERR reducers are empty"
      | Inr ErrEmptyName -> print_endline "ERR name is empty"
      | Inr ErrZeroCapacity -> print_endline "ERR capacity is 0"
    done
  with End_of_file -> ()

(* ---------- mode selector: streams of selected values (C16) ------------------------------
   one stream per line: comma separated values; the tag of element k is k *)
let run_selector () =
  try
    while true do
      let line = String.trim (input_line stdin) in
      let vals = ints_of_string (if line = "" then "-" else line) in
      let stream = List.mapi (fun k v -> (n_of_int v, n_of_int k)) vals in
      let veq a b = (a = b) in
      let (out, last) = sel_stream veq None stream in
      let spec = dedup veq None stream in
      if out <> spec then print_endline "MODEL-INCONSISTENT";
      Printf.printf "%s | last=%s\n"
        (if out = [] then "-" else
           String.concat "," (List.map (fun (v, t) -> Printf.sprintf "%d@%d" (int_of_n v) (int_of_n t)) out))
        (match last with Some v -> string_of_int (int_of_n v) | None -> "-")
    done
  with End_of_file -> ()

(* ---------- mode chanops: operation sequences on one channel (C05, C06) ------------------
   line: <cap> <policy> ops...   ops: s<k> (send action k, all phases, no consumer between),
   x (send exit), r (try_recv)
   output per op: s -> ok|err|blocked, r -> value|exit|empty ; then "| q=... dropped=n" *)
let run_chanops () =
  try
    while true do
      let line = input_line stdin in
      match words line with
      | c :: p :: ops ->
          let ch = ref (chan_new (nat_of_int (int_of_string c)) (policy_of_string p)) in
          let dropped = ref 0 in
          let buf = Buffer.create 64 in
          List.iter (fun op ->
            if op = "r" then begin
              let (x, ch') = try_recv !ch in
              ch := ch';
              Buffer.add_string buf (match x with
                | None -> "empty " | Some IExit -> "exit " | Some (IAct a) -> Printf.sprintf "%d " (int_of_n a))
            end else begin
              let item = if op = "x" then IExit else IAct (n_of_int (int_of_string (String.sub op 1 (String.length op - 1)))) in
              match send_seq !ch item with
              | None -> Buffer.add_string buf "blocked "
              | Some ((ch', ok), dr) ->
                  ch := ch'; dropped := !dropped + List.length dr;
                  Buffer.add_string buf (if ok then "ok " else "err ")
            end) ops;
          Printf.printf "%s| q=%s dropped=%d\n" (Buffer.contents buf)
            (String.concat "," (List.map (function IExit -> "x" | IAct a -> string_of_int (int_of_n a)) !ch.q))
            !dropped
      | _ -> ()
    done
  with End_of_file -> ()

(* ---------- mode lock: random schedules of the interleaving model (engine L) ------------------
   args: seed probe_pct max_steps; a scenario may carry an explicit `schedule` line instead *)
let run_lock seed probe_pct max_steps =
  let idx = ref 0 in
  iter_scenarios stdin (fun sc ->
    incr idx;
    let cfg = config_of sc and w0 = world_of sc in
    let explicit = List.filter_map (fun (k, rest) -> if k = "schedule" then Some rest else None) sc.extra in
    let (lines, w) =
      match explicit with
      | rest :: _ ->
          replay_schedule cfg w0 (List.map (fun tok ->
            match split_on ':' tok with
            | [k; t] -> (k, int_of_string t)
            | _ -> fail "bad schedule token %s" tok) rest)
      | [] ->
          let rng = Random.State.make [| seed; !idx |] in
          gen_schedule cfg w0 rng { probe_pct; max_steps; max_probes = 6 } in
    List.iter print_endline lines;
    List.iter print_endline (end_lines w);
    List.iter print_endline (hist_lines w);
    print_endline "---")

let () =
  match Array.to_list Sys.argv with
  | _ :: "lock" :: seed :: pp :: ms :: _ -> run_lock (int_of_string seed) (int_of_string pp) (int_of_string ms)
  | _ :: "seq" :: _ -> run_seq ()
  | _ :: "builder" :: _ -> run_builder ()
  | _ :: "selector" :: _ -> run_selector ()
  | _ :: "chanops" :: _ -> run_chanops ()
  | _ -> prerr_endline "usage: driver seq|builder|selector|chanops"; exit 2
