(* scen.ml — scenario text format shared with the Rust harness (parser + printers).
   Hand-written, trusted test machinery: it only converts text to and from the datatypes
   extracted from Coq (Model). *)
open Model

(* ---- numbers ---- *)
let rec pos_of_int (i : int) : positive =
  if i <= 1 then XH else if i land 1 = 1 then XI (pos_of_int (i lsr 1)) else XO (pos_of_int (i lsr 1))
let n_of_int (i : int) : n = if i <= 0 then N0 else Npos (pos_of_int i)
let rec int_of_pos (p : positive) : int =
  match p with XH -> 1 | XO q -> 2 * int_of_pos q | XI q -> 2 * int_of_pos q + 1
let int_of_n (x : n) : int = match x with N0 -> 0 | Npos p -> int_of_pos p
let rec nat_of_int (i : int) : nat = if i <= 0 then O else S (nat_of_int (i - 1))
let rec int_of_nat (x : nat) : int = match x with O -> 0 | S y -> 1 + int_of_nat y

(* ---- tokens ---- *)
let split_on c s = if s = "" then [] else String.split_on_char c s
let words s = List.filter (fun w -> w <> "") (String.split_on_char ' ' (String.trim s))
let fail fmt = Printf.ksprintf failwith fmt

let policy_of_string = function
  | "block" -> Block | "oldest" -> DropOldest | "latest" -> DropLatest
  | s -> fail "bad policy %s" s
let string_of_policy = function Block -> "block" | DropOldest -> "oldest" | DropLatest -> "latest"
let verdict_of_string = function
  | "C" -> VContinue | "D" -> VDone | "B" -> VBreak | "E" -> VErr | s -> fail "bad verdict %s" s
let string_of_verdict = function VContinue -> "C" | VDone -> "D" | VBreak -> "B" | VErr -> "E"
let entry_of_string = function
  | "I" -> EStoreImpl | "T" -> EStoreTrait | "D" -> EDispatcher | s -> fail "bad entry %s" s
let string_of_entry = function EStoreImpl -> "I" | EStoreTrait -> "T" | EDispatcher -> "D"

(* body ops: comma separated: d.<entry>.<aid> | panic | nop ; "-" = empty *)
let bop_of_string s =
  match split_on '.' s with
  | ["d"; e; a] -> BDispatch (entry_of_string e, n_of_int (int_of_string a))
  | ["panic"] -> BPanic
  | ["nop"] -> BNop
  | _ -> fail "bad body op %s" s
let body_of_string s = if s = "-" then [] else List.map bop_of_string (split_on ',' s)
let string_of_bop = function
  | BDispatch (e, a) -> Printf.sprintf "d.%s.%d" (string_of_entry e) (int_of_n a)
  | BPanic -> "panic" | BNop -> "nop"

let ints_of_string s = if s = "-" then [] else List.map int_of_string (split_on ',' s)
let ns_of_string s = List.map n_of_int (ints_of_string s)

(* effect: e <kid> action <aid> | e <kid> task|thunk|func <body> *)
let eff_of_words = function
  | ["e"; k; "action"; a] -> { e_id = n_of_int (int_of_string k); e_kind = KAction (n_of_int (int_of_string a)); e_body = [] }
  | ["e"; k; "task"; b] -> { e_id = n_of_int (int_of_string k); e_kind = KTask; e_body = body_of_string b }
  | ["e"; k; "thunk"; b] -> { e_id = n_of_int (int_of_string k); e_kind = KThunk; e_body = body_of_string b }
  | ["e"; k; "func"; b] -> { e_id = n_of_int (int_of_string k); e_kind = KFunction; e_body = body_of_string b }
  | w -> fail "bad effect %s" (String.concat " " w)

(* ---- printing states and events (must match the harness byte for byte) ---- *)
let string_of_state (s : sstate) : string =
  if s = [] then "-" else
  String.concat "," (List.map (fun (j, a) -> Printf.sprintf "%d.%d" (int_of_n j) (int_of_n a)) s)
let string_of_ids (l : n list) : string =
  if l = [] then "-" else String.concat "," (List.map (fun k -> string_of_int (int_of_n k)) l)
let string_of_hook = function HReduce -> "r" | HEffect -> "e" | HDispatch -> "d"

(* middleware positions are printed as the ids of the middlewares registered at that time *)
let string_of_cb (mw_ids : int list) (c : (sstate, aid) cb) : string =
  let mid i = match List.nth_opt mw_ids (int_of_nat i) with Some x -> x | None -> -1 in
  match c with
  | CbBeforeReduce (i, a, s, v) ->
      Printf.sprintf "BR %d %d %s %s" (mid i) (int_of_n a) (string_of_state s) (string_of_verdict v)
  | CbReduce (_, sin, a, d, sout, e) ->
      Printf.sprintf "RED %s %d %s %s %s" (string_of_state sin) (int_of_n a) (if d then "D" else "K")
        (string_of_state sout) (match e with Some k -> string_of_int (int_of_n k) | None -> "-")
  | CbBeforeEffect (i, a, s, ein, eout, v) ->
      Printf.sprintf "BE %d %d %s %s %s %s" (mid i) (int_of_n a) (string_of_state s) (string_of_ids ein)
        (string_of_ids eout) (string_of_verdict v)
  | CbBeforeDispatch (i, a, s, v) ->
      Printf.sprintf "BD %d %d %s %s" (mid i) (int_of_n a) (string_of_state s) (string_of_verdict v)
  | CbOnError (i, h) -> Printf.sprintf "ERR %d %s" (mid i) (string_of_hook h)
  | CbNotify (sub, s, a) -> Printf.sprintf "NOTIFY %d %s %d" (int_of_n sub) (string_of_state s) (int_of_n a)
  | CbOnChange (sub, v, a) -> Printf.sprintf "CHANGE %d %d %d" (int_of_n sub) (int_of_n v) (int_of_n a)
  | CbOnUnsub sub -> Printf.sprintf "UNSUB %d" (int_of_n sub)
  | CbEffectRun k -> Printf.sprintf "EFFECT %d" (int_of_n k)

(* ---- the scenario ---- *)
type subdecl =
  | SubDirect of int
  | SubSelector of int * int           (* sid, selector id *)
  | SubChan of int * int * policy      (* sid, cap, policy *)

type scenario = {
  mutable cap : int;
  mutable pol : policy;
  mutable name : int;
  mutable rscripts : rscript list;
  mutable mwscripts : mwscript list;
  mutable sels : (n * (n * n) list) list;
  mutable init_reducers : int list;
  mutable init_mws : int list;
  mutable init_subs : subdecl list;
  mutable threads : (int * string list) list;   (* client programs as op tokens *)
  mutable extra : (string * string list) list;  (* other directives, kept for the modes *)
}

let empty_scenario () = {
  cap = 16; pol = Block; name = 1; rscripts = []; mwscripts = []; sels = []; init_reducers = [];
  init_mws = []; init_subs = []; threads = []; extra = [] }

let update_rscript sc id f =
  let found = ref false in
  sc.rscripts <- List.map (fun r -> if int_of_n r.rs_id = id then (found := true; f r) else r) sc.rscripts;
  if not !found then sc.rscripts <- sc.rscripts @ [f { rs_id = n_of_int id; rs_default = true; rs_table = [] }]
let update_mwscript sc id f =
  let found = ref false in
  sc.mwscripts <- List.map (fun m -> if int_of_n m.ms_id = id then (found := true; f m) else m) sc.mwscripts;
  if not !found then
    sc.mwscripts <- sc.mwscripts @ [f { ms_id = n_of_int id; ms_br = []; ms_be = []; ms_bd = [] }]

let parse_line (sc : scenario) (line : string) : unit =
  match words line with
  | [] -> ()
  | w :: _ when String.length w > 0 && w.[0] = '#' -> ()
  | ["cap"; c] -> sc.cap <- int_of_string c
  | ["pol"; p] -> sc.pol <- policy_of_string p
  | ["name"; x] -> sc.name <- int_of_string x
  | ["reducer"; j; d] -> update_rscript sc (int_of_string j) (fun r -> { r with rs_default = (d = "D") })
  | "r" :: j :: a :: d :: rest ->
      let e = if rest = [] then None else Some (eff_of_words rest) in
      update_rscript sc (int_of_string j) (fun r ->
        { r with rs_table = r.rs_table @ [(n_of_int (int_of_string a), (d = "D", e))] })
  | ["mw"; i] -> update_mwscript sc (int_of_string i) (fun m -> m)
  | "v" :: i :: h :: a :: v :: rest ->
      let a = n_of_int (int_of_string a) and v = verdict_of_string v in
      let rm = match rest with ["rm"; l] -> ns_of_string l | [] -> [] | _ -> fail "bad v line %s" line in
      update_mwscript sc (int_of_string i) (fun m ->
        match h with
        | "r" -> { m with ms_br = m.ms_br @ [(a, v)] }
        | "e" -> { m with ms_be = m.ms_be @ [(a, (v, rm))] }
        | "d" -> { m with ms_bd = m.ms_bd @ [(a, v)] }
        | _ -> fail "bad hook %s" h)
  | ["sel"; s; a; v] ->
      let s = n_of_int (int_of_string s) in
      let pair = (n_of_int (int_of_string a), n_of_int (int_of_string v)) in
      if List.mem_assoc s sc.sels then
        sc.sels <- List.map (fun (k, t) -> if k = s then (k, t @ [pair]) else (k, t)) sc.sels
      else sc.sels <- sc.sels @ [(s, [pair])]
  | ["init"; "reducers"; l] -> sc.init_reducers <- ints_of_string l
  | ["init"; "mws"; l] -> sc.init_mws <- ints_of_string l
  | ["sub"; s; "direct"] -> sc.init_subs <- sc.init_subs @ [SubDirect (int_of_string s)]
  | ["sub"; s; "selector"; k] -> sc.init_subs <- sc.init_subs @ [SubSelector (int_of_string s, int_of_string k)]
  | ["sub"; s; "chan"; c; p] ->
      sc.init_subs <- sc.init_subs @ [SubChan (int_of_string s, int_of_string c, policy_of_string p)]
  | "t" :: t :: ops -> sc.threads <- sc.threads @ [(int_of_string t, ops)]
  | k :: rest -> sc.extra <- sc.extra @ [(k, rest)]

let scripts_of (sc : scenario) : scripts =
  { sc_reducers = sc.rscripts; sc_mws = sc.mwscripts; sc_sels = sc.sels }

(* read scenarios separated by lines "---"; calls f on each *)
let iter_scenarios (ic : in_channel) (f : scenario -> unit) : unit =
  let sc = ref (empty_scenario ()) and any = ref false in
  (try
     while true do
       let line = input_line ic in
       if String.trim line = "---" then begin
         if !any then f !sc; sc := empty_scenario (); any := false end
       else begin
         if words line <> [] then any := true;
         parse_line !sc line end
     done
   with End_of_file -> ());
  if !any then f !sc
