#!/usr/bin/env python3
"""check.py <property> [--tier quick|thorough] [--replay file]

Decides one property of rs-store: (1) the Coq proof obligations of coq/Props/<property>.v (full
build, Print Assumptions, forbidden-declaration grep, statement pins), (2) the correspondence
between the model the theorems are about and /repo's current working tree (harness rebuilt from
it on every run, hooks on), (3) on a divergence, a search for a concrete failing input.
Exit 0: held on everything explored. Exit 1: a line `VIOLATION property=<id> replay=<path>`."""
import argparse
import os
import sys

import vlib
from vlib import Report

sys.path.insert(0, os.path.dirname(os.path.abspath(__file__)))
import families  # noqa: E402


def main():
    ap = argparse.ArgumentParser()
    ap.add_argument("prop")
    ap.add_argument("--tier", default=os.environ.get("VERIF_TIER", "quick"))
    ap.add_argument("--replay", default=None)
    args = ap.parse_args()
    prop = args.prop
    tier = args.tier if args.tier in ("quick", "thorough") else "quick"
    try:
        seed = int(os.environ.get("VERIF_SEED", "0"))
    except ValueError:
        seed = 0
    if prop not in families.CHECKS:
        print("unknown property", prop)
        return 2
    rep = Report(prop, tier, seed)
    checker_cmd = ("make -C coq (coq_makefile, full .vo) ; coqc Print Assumptions of every theorem in "
                   "coq/Props/%s.v ; grep for Admitted/Axiom/... ; statement pin coq/Props/PINS.json"
                   % prop)
    # ---- build everything from the current trees -------------------------------------------------
    try:
        coq_ok, coq_out = vlib.ensure_built()
    except vlib.BuildError as e:
        rep.violation("build failed: the correspondence cannot be checked\n" + str(e),
                      "obligation: build of the model driver / harness against /repo\n" + str(e) + "\n",
                      no_input=True)
        return rep.finish({"ok": False}, checker_cmd)
    # ---- 1. proof obligations -------------------------------------------------------------------
    ok, info, why = vlib.proof_step(prop, coq_ok, coq_out)
    info["ok"] = ok
    if not ok:
        rep.violation("proof obligations of %s do not check" % prop,
                      "obligation: theorems of coq/Props/%s.v\n%s\n" % (prop, why), no_input=True)
        return rep.finish(info, checker_cmd)
    # ---- 2./3. known findings, correspondence, failing-input search -------------------------------
    if args.replay:
        families.replay(prop, args.replay, rep)
    else:
        families.CHECKS[prop](rep)
    return rep.finish(info, checker_cmd)


if __name__ == "__main__":
    sys.exit(main())
