#!/bin/bash
# setup.sh - build the framework from files on disk only (offline): Coq development (full .vo),
# extraction, OCaml driver, Rust harness (against /repo, hooks on).
set -e
cd "$(dirname "$0")"
export CARGO_NET_OFFLINE=true
( cd coq && coq_makefile -f _CoqProject -o Makefile >/dev/null && timeout 7200 make -j"$(nproc)" > ../.setup_coq.log 2>&1 ) || { tail -40 .setup_coq.log; echo "coq build failed"; exit 1; }
python3 - <<'PY'
import vlib
vlib.build_driver()
vlib.build_harness()
print("setup ok")
PY
