#!/usr/bin/env python3
"""pin.py - (re)write coq/Props/PINS.json: sha256 of every statement file coq/Props/Cxx.v.
Run by hand after a deliberate change of a statement; check.py refuses a file whose hash differs."""
import hashlib, json, os, re
d = os.path.join(os.path.dirname(os.path.abspath(__file__)), "coq", "Props")
pins = {f[:-2]: hashlib.sha256(open(os.path.join(d, f), "rb").read()).hexdigest()
        for f in sorted(os.listdir(d)) if re.match(r"C\d+\.v$", f)}
json.dump(pins, open(os.path.join(d, "PINS.json"), "w"), indent=1, sort_keys=True)
print(pins)
