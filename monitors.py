"""monitors.py - executable readings of the properties over an observed history (the global log of
a lockstep or free run). They are *search machinery*: when the correspondence between model and
implementation breaks, they decide whether the observed execution is a concrete violation of the
property (failing input found) - they never stand in for a theorem. Each monitor returns a list of
(clause, detail) it found violated; known-finding classes are reported separately."""
import re


class Hist:
    """parsed history. events: list of dicts {i, t (logical thread), os (os thread no), kind, f
    (fields)}; scenario info in .sc"""

    def __init__(self, lines, scen_text, model_lines=None):
        self.ev = []
        for ln in lines:
            if not ln.startswith("L "):
                continue
            p = ln.split(" ", 3)
            t, os_no, text = int(p[1]), int(p[2]), p[3]
            w = text.split(" ")
            self.ev.append({"i": len(self.ev), "t": t, "os": os_no, "kind": w[0], "f": w[1:], "text": text})
        self.end = {}
        for ln in lines:
            if ln.startswith("END state="):
                self.end["state"] = ln[len("END state="):]
            elif ln.startswith("END metrics "):
                self.end["metrics"] = dict(kv.split("=") for kv in ln[len("END metrics "):].split())
            elif ln.startswith("END unfinished="):
                self.end["unfinished"] = ln[len("END unfinished="):]
        self.sc = parse_scen(scen_text)
        # probes that arrived although the model says the thread must wait: (thread, label it was
        # parked at when it was granted)
        self.probe_arrivals = []
        parked = {}
        for ln in lines:
            w = ln.split()
            if len(w) >= 3 and w[0] in ("S", "F"):
                parked[w[1]] = w[2]
            elif len(w) >= 3 and w[0] == "P" and w[2] == "arrived":
                self.probe_arrivals.append((int(w[1]), parked.get(w[1], "client.op")))
        if model_lines is not None and self.probe_arrivals:
            # a probe that arrives says something about the property only when the run had
            # followed the model's schedule up to that probe: after an earlier difference the
            # model's idea of who must wait is no longer about this execution
            core_h = [ln for ln in lines if ln[:2] in ("S ", "F ", "P ")]
            core_m = [ln for ln in model_lines if ln[:2] in ("S ", "F ", "P ")]
            first = next((i for i, (a, b) in enumerate(zip(core_m, core_h)) if a != b), None)
            if first is None or not (core_h[first].startswith("P ") and " arrived" in core_h[first]):
                self.probe_arrivals = []
            else:
                self.probe_arrivals = self.probe_arrivals[:1]

    def kinds(self, *ks):
        return [e for e in self.ev if e["kind"] in ks]

    def ret_index(self, op):
        return [e["i"] for e in self.ev if e["kind"] == "RET" and e["f"][0] == op]


def parse_scen(text):
    sc = {"pol": "block", "cap": 16, "subs": [], "threads": {}, "reducers": [], "mws": [],
          "effect_kind": {}, "effect_action": {}}
    for ln in text.split("\n"):
        w = ln.split()
        if not w:
            continue
        if w[0] == "pol":
            sc["pol"] = w[1]
        elif w[0] == "cap":
            sc["cap"] = int(w[1])
        elif w[0] == "sub":
            sc["subs"].append((int(w[1]), w[2], w[3:]))
        elif w[0] == "t":
            sc["threads"][int(w[1])] = w[2:]
        elif w[0] == "r" and len(w) > 6 and w[4] == "e":
            sc["effect_kind"][int(w[5])] = w[6]
            if w[6] == "action":
                sc["effect_action"][int(w[5])] = int(w[7])
        elif w[0] == "init" and w[1] == "reducers":
            sc["reducers"] = [] if w[2] == "-" else [int(x) for x in w[2].split(",")]
        elif w[0] == "init" and w[1] == "mws":
            sc["mws"] = [] if w[2] == "-" else [int(x) for x in w[2].split(",")]
    return sc


CALLBACK_KINDS = ("BR", "RED", "BE", "BD", "ERR", "NOTIFY", "CHANGE", "EFFECT")


def stop_ret(h):
    """index of the return of the first completed stop()/drop (the call that took the pool in every
    history our generators produce), or None"""
    for e in h.ev:
        if e["kind"] == "RET" and e["f"][0] in ("stop", "drop"):
            return e["i"]
    return None


def actions_reduced(h):
    """per action: list of RED events"""
    per = {}
    order = []
    for e in h.kinds("RED"):
        a = int(e["f"][1])
        if a not in per:
            per[a] = []
            order.append(a)
        per[a].append(e)
    return per, order


def left_out(h):
    """a reducer / middleware registered (at build time or by an add_* call that returned) before an
    action's dispatch was invoked takes part in that action's pipeline (C01 whole chain, C07)"""
    bad = []
    per, order = actions_reduced(h)
    inv = {}
    for e in h.ev:
        if e["kind"] == "INV" and e["f"][0].startswith("d."):
            inv.setdefault(int(e["f"][0].split(".")[2]), e["i"])
    reg = {j: -1 for j in h.sc["reducers"]}
    mreg = {i: -1 for i in h.sc["mws"]}
    for e in h.ev:
        if e["kind"] == "RET" and e["f"][0].startswith("ar:"):
            reg.setdefault(int(e["f"][0][3:]), e["i"])
        if e["kind"] == "RET" and e["f"][0].startswith("am:"):
            mreg.setdefault(int(e["f"][0][3:]), e["i"])
    for a, evs in per.items():
        if a not in inv:
            continue
        ran = set()
        for e in evs:
            last = e["f"][3].split(",")[-1]
            if last.endswith(".%d" % a):
                ran.add(int(last.split(".")[0]))
        for j, ri in reg.items():
            if ri < inv[a] and j not in ran:
                bad.append(("left-out", "reducer %d was registered before action %d was dispatched "
                                        "but did not run for it" % (j, a)))
    # middlewares: only when no verdict can cut a phase short (every before_reduce answer is Continue)
    brs = h.kinds("BR")
    if all(e["f"][3] == "C" for e in brs):
        seen = {}
        for e in brs:
            seen.setdefault(int(e["f"][1]), set()).add(int(e["f"][0]))
        for a, ms in seen.items():
            if a not in inv:
                continue
            for i, ri in mreg.items():
                if ri < inv[a] and i not in ms:
                    bad.append(("left-out", "middleware %d was registered before action %d was dispatched "
                                            "but its before_reduce did not run for it" % (i, a)))
    return bad


# ---- C01 -----------------------------------------------------------------------------------------
def mon_c01(h):
    bad = [b for b in left_out(h) if "reducer" in b[1]]
    per, order = actions_reduced(h)
    cur = "-"
    seen_done = set()
    last_a = None
    for e in h.kinds("RED"):
        sin, a, sout = e["f"][0], int(e["f"][1]), e["f"][3]
        if a != last_a and a in seen_done:
            bad.append(("exactly-once", "action %d goes through the reducer chain twice" % a))
        if sin != cur:
            bad.append(("threading", "reducer call for action %d got state %s, expected %s" % (a, sin, cur)))
        cur = sout
        if last_a is not None and a != last_a:
            seen_done.add(last_a)
        last_a = a
    # every action accepted under Block and not vetoed is reduced once (when the store stopped)
    sr = stop_ret(h)
    if h.sc["pol"] == "block" and sr is not None and h.sc["reducers"]:
        vetoed = set()
        for e in h.kinds("BR"):
            if e["f"][3] == "D":
                vetoed.add(int(e["f"][1]))
        for e in h.ev[:sr]:
            if e["kind"] == "RET" and e["f"][0].startswith("d.") and e["f"][1] == "ok":
                a = int(e["f"][0].split(".")[2])
                if a not in per and a not in vetoed and not br_seen(h, a):
                    bad.append(("lossless", "action %d was accepted but never reduced before stop() returned" % a))
    # after stop: get_state is the state after the last reduced action
    if sr is not None:
        # (a read invoked before stop() returned may overlap the last write-back: only reads
        # invoked after the return are judged)
        open_inv = {}
        for e in h.ev:
            if e["kind"] == "INV" and e["f"][0] == "gs":
                open_inv[e["t"]] = e["i"]
            if e["kind"] == "RET" and e["f"][0] == "gs" and e["i"] > sr and open_inv.get(e["t"], -1) > sr \
                    and e["f"][1] != "state=" + cur:
                bad.append(("final-state", "get_state after stop returned %s, last reduced state is %s" % (e["f"][1], cur)))
        if h.end.get("state") is not None and h.end["state"] != cur and not h.end.get("unfinished", "-").startswith("100"):
            if "100@" not in h.end.get("unfinished", "-"):
                bad.append(("final-state", "final state %s, last reduced state is %s" % (h.end["state"], cur)))
    return bad


def br_seen(h, a):
    return any(int(e["f"][1]) == a for e in h.kinds("BR"))


# ---- C02 -----------------------------------------------------------------------------------------
def mon_c02(h):
    bad = []
    per, order = actions_reduced(h)
    pos = {a: k for k, a in enumerate(order)}
    inv, ret = {}, {}
    thread_of = {}
    for e in h.ev:
        if e["kind"] in ("INV", "RET") and e["f"][0].startswith("d."):
            a = int(e["f"][0].split(".")[2])
            (inv if e["kind"] == "INV" else ret)[a] = e["i"]
            thread_of[a] = e["t"]
    acts = [a for a in order if a in inv]
    for x in acts:
        for y in acts:
            if x == y:
                continue
            before = (thread_of[x] == thread_of[y] and inv[x] < inv[y]) or (x in ret and ret[x] < inv[y])
            if before and pos[x] > pos[y]:
                bad.append(("order", "dispatch of %d precedes dispatch of %d but %d is reduced first" % (x, y, y)))
    return bad


# ---- C03 -----------------------------------------------------------------------------------------
def notifying_actions(h):
    """[(state, action)] in reduce order for actions whose chain ends with Dispatch and that no
    before_dispatch hook suppressed (from the RED / BD events)"""
    per, order = actions_reduced(h)
    out = []
    bd_done = set()
    bd_break = {}
    for e in h.kinds("BD"):
        a = int(e["f"][1])
        if e["f"][3] == "D":
            bd_done.add(a)
    for a in order:
        last = per[a][-1]
        if last["f"][2] == "D" and a not in bd_done:
            out.append((last["f"][3], a))
    return out


def while_registered(h):
    """a direct subscriber whose registration (build time, or an add_subscriber call that returned)
    precedes the invocation of an action's dispatch, and for which no unsubscribe was ever invoked,
    is notified of that action if it notifies at all (judged once the store has stopped); the
    executable reading of C03_whole_run_subscriber_in_every_snapshot / C09_notified_while_registered"""
    bad = []
    if stop_ret(h) is None or not h.sc["reducers"] or "100@" in h.end.get("unfinished", "-"):
        return bad
    unsub = {int(e["f"][0].split(":")[1]) for e in h.ev if e["kind"] == "INV" and e["f"][0].startswith("un:")}
    reg = {s: -1 for s, k, _ in h.sc["subs"] if k == "direct"}
    for e in h.ev:
        if e["kind"] == "RET" and e["f"][0].startswith("as:"):
            reg.setdefault(int(e["f"][0].split(":")[1]), e["i"])
    inv = {}
    for e in h.ev:
        if e["kind"] == "INV" and e["f"][0].startswith("d."):
            inv.setdefault(int(e["f"][0].split(".")[2]), e["i"])
    got = {}
    for e in h.kinds("NOTIFY"):
        if e["t"] == 100:
            got.setdefault(int(e["f"][0]), set()).add(int(e["f"][2]))
    for st, a in notifying_actions(h):
        if a not in inv:
            continue
        for s, ri in reg.items():
            if s not in unsub and ri < inv[a] and a not in got.get(s, set()):
                bad.append(("notified-while-registered",
                            "direct subscriber %d was registered before action %d was dispatched and never "
                            "unsubscribed, but was not notified of it" % (s, a)))
    return bad


def mon_c03(h):
    bad = while_registered(h)
    if not h.sc["reducers"]:
        return bad
    directs = [s for s, k, _ in h.sc["subs"] if k == "direct"]
    unsub = {int(e["f"][0].split(":")[1]) for e in h.ev if e["kind"] == "INV" and e["f"][0].startswith("un:")}
    expect = notifying_actions(h)
    # only complete when the reducer has finished its current action: compare prefixes
    for s in directs:
        if s in unsub:
            continue
        got = [(e["f"][1], int(e["f"][2])) for e in h.kinds("NOTIFY") if int(e["f"][0]) == s and e["t"] == 100]
        # vetoed actions (no RED) may notify too: unspecified, drop them
        reduced = {a for _, a in expect} | {int(e["f"][1]) for e in h.kinds("RED")}
        got = [g for g in got if g[1] in reduced]
        if got != expect[:len(got)] or (stop_ret(h) is not None and len(got) != len(expect)):
            bad.append(("stream", "direct subscriber %d received %s, expected %s" % (s, got[:6], expect[:6])))
        # never for a Keep answer
    # registration order within one action
    last = {}
    for e in h.kinds("NOTIFY"):
        if e["t"] != 100:
            continue
        a, s = int(e["f"][2]), int(e["f"][0])
        if a in last and s in directs and last[a] in directs and directs.index(s) < directs.index(last[a]):
            bad.append(("registration-order", "action %d: subscriber %d notified after %d" % (a, s, last[a])))
        last[a] = s
    return bad


# ---- C04 -----------------------------------------------------------------------------------------
def mon_c04(h):
    bad = []
    sr = stop_ret(h)
    if sr is None:
        return bad
    for e in h.ev[sr:]:
        if e["kind"] in CALLBACK_KINDS:
            bad.append(("final", "callback `%s` after stop() returned" % e["text"]))
        if e["kind"] == "RET" and e["f"][0].startswith("d.") and e["f"][1] == "ok":
            iv = next((x["i"] for x in h.ev if x["kind"] == "INV" and x["f"][0] == e["f"][0]), -1)
            if iv > sr:
                bad.append(("final", "dispatch %s invoked after stop() returned Ok" % e["f"][0]))
    per, order = actions_reduced(h)
    if h.sc["pol"] == "block" and h.sc["reducers"]:
        for e in h.ev:
            if e["kind"] == "RET" and e["f"][0].startswith("d.") and e["f"][1] == "ok" and e["i"] < sr:
                a = int(e["f"][0].split(".")[2])
                if a not in per and not br_seen(h, a):
                    bad.append(("barrier", "action %d accepted (Ok) but not processed when stop() returned" % a))
    for e in h.ev:
        if e["kind"] == "RET" and e["f"][0].startswith("d.") and e["f"][1] == "err":
            a = int(e["f"][0].split(".")[2])
            if a in per and h.sc["pol"] != "latest":
                bad.append(("err-means-never", "dispatch of %d returned Err but it was reduced" % a))
            if a in per and h.sc["pol"] == "latest" and e["f"][0].split(".")[1] != "D":
                bad.append(("err-means-never", "dispatch of %d returned Err but it was reduced" % a))
    return bad


# ---- C08 -----------------------------------------------------------------------------------------
def mon_c08(h):
    bad = []
    states = ["-"]
    idx_of = {"-": 0}
    # the published states: the chain result of every reduced action (state log => unique)
    per, order = actions_reduced(h)
    for a in order:
        s = per[a][-1]["f"][3]
        if s not in idx_of:
            idx_of[s] = len(states)
            states.append(s)
    # real-time monotonicity: a read invoked after another read has returned is not older.
    # (INV is logged before the call and RET after it, so "RET x logged before INV y" implies
    # that x really returned before y was invoked; only that direction is used)
    hi = 0                 # newest state index among reads that have returned so far
    pending = {}           # thread -> hi at the time of its INV gs
    for e in h.ev:
        if e["kind"] == "INV" and e["f"][0] == "gs":
            pending[e["t"]] = hi
        elif e["kind"] == "RET" and e["f"][0] == "gs":
            s = e["f"][1][len("state="):]
            if s not in idx_of:
                bad.append(("consistent", "get_state returned %s which no action produced" % s))
                continue
            j = idx_of[s]
            floor = pending.pop(e["t"], 0)
            if j < floor:
                bad.append(("monotonic", "get_state returned %s although a read that had already returned saw a newer state" % s))
            hi = max(hi, j)
    # while a subscriber is told about action a, reads return a's state or newer
    for k, e in enumerate(h.ev):
        if e["kind"] == "CBREAD" and k + 1 < len(h.ev) and h.ev[k + 1]["kind"] == "NOTIFY" and h.ev[k + 1]["t"] == e["t"]:
            s, want = e["f"][0], h.ev[k + 1]["f"][1]
            if s in idx_of and want in idx_of and idx_of[s] < idx_of[want]:
                bad.append(("published", "get_state inside on_notify returned %s, older than the notified %s" % (s, want)))
    return bad


# ---- C09 -----------------------------------------------------------------------------------------
def mon_c09(h):
    """returns (bad, known) - known: list of F3-class late notifications"""
    bad, known = while_registered(h), []
    ret_un = {}
    for e in h.ev:
        if e["kind"] == "RET" and e["f"][0].startswith("un:"):
            s = int(e["f"][0].split(":")[1])
            ret_un.setdefault(s, e["i"])
    late = {}
    for e in h.kinds("NOTIFY", "CHANGE"):
        s = int(e["f"][0])
        if s in ret_un and e["i"] > ret_un[s]:
            late.setdefault(s, []).append(e)
    for s, evs in late.items():
        # the F3 class: a single late notification from the reducer context (snapshot taken before)
        if len(evs) == 1 and evs[0]["t"] == 100:
            known.append("direct subscriber %d notified once after its unsubscribe() returned (snapshot taken before)" % s)
        else:
            bad.append(("silent-after-unsubscribe", "subscriber %d received %d notifications after unsubscribe() returned" % (s, len(evs))))
    # released exactly once (direct and channeled) when the store was stopped
    sr = stop_ret(h)
    counts = {}
    for e in h.kinds("UNSUB"):
        counts[int(e["f"][0])] = counts.get(int(e["f"][0]), 0) + 1
        s = int(e["f"][0])
        if s in ret_un and e["i"] > ret_un[s]:
            bad.append(("silent-after-unsubscribe", "subscriber %d received on_unsubscribe after its unsubscribe() had returned" % s))
    for s, n in counts.items():
        if n > 1:
            bad.append(("released-once", "subscriber %d got on_unsubscribe %d times" % (s, n)))
    # a release needs a reason: an unsubscribe() of that subscriber, or a shutdown, invoked before
    shutdown_inv = next((e["i"] for e in h.ev if (e["kind"] == "INV" and e["f"][0] in ("stop", "drop", "close"))
                         or e["kind"] == "HARNESS-CLEANUP"), None)
    inv_un = {}
    for e in h.ev:
        if e["kind"] == "INV" and e["f"][0].startswith("un:"):
            inv_un.setdefault(int(e["f"][0].split(":")[1]), e["i"])
    for e in h.kinds("UNSUB"):
        s = int(e["f"][0])
        if not (s in inv_un and inv_un[s] < e["i"]) and not (shutdown_inv is not None and shutdown_inv < e["i"]):
            bad.append(("released-without-cause", "subscriber %d got on_unsubscribe although neither its "
                                                  "unsubscribe() nor a shutdown had been invoked" % s))
    if sr is not None:
        for s, k, _ in h.sc["subs"]:
            if k in ("direct", "chan") and counts.get(s, 0) != 1:
                bad.append(("released-once", "subscriber %d (%s) got on_unsubscribe %d times by the time stop() returned" % (s, k, counts.get(s, 0))))
        # subscribers added at run time whose registration returned before stop was invoked
        inv_stop = next((e["i"] for e in h.ev if e["kind"] == "INV" and e["f"][0] in ("stop", "drop")), None)
        for e in h.ev:
            if e["kind"] == "RET" and (e["f"][0].startswith("as:") or e["f"][0].startswith("sc:")):
                s = int(e["f"][0].split(":")[1])
                if inv_stop is not None and e["i"] < inv_stop and counts.get(s, 0) != 1:
                    bad.append(("released-once", "subscriber %d got on_unsubscribe %d times" % (s, counts.get(s, 0))))
    return bad, known


# ---- C10 -----------------------------------------------------------------------------------------
def mon_c10(h):
    bad = []
    chans = {s: args for s, k, args in h.sc["subs"] if k == "chan"}
    for e in h.ev:
        if e["kind"] == "RET" and e["f"][0].startswith("sc:"):
            p = e["f"][0].split(":")
            chans[int(p[1])] = [p[2], p[3]]
    expect = notifying_actions(h)
    reducer_os = {e["os"] for e in h.kinds("RED", "BR", "BD", "BE")}
    for s, args in chans.items():
        got = [(e["f"][1], int(e["f"][2])) for e in h.kinds("NOTIFY") if int(e["f"][0]) == s]
        for e in h.kinds("NOTIFY"):
            if int(e["f"][0]) == s and (e["t"] == 100 or e["os"] in reducer_os):
                bad.append(("own-thread", "channeled subscriber %d was called in the reducer context" % s))
        # in-order subsequence of the notification stream (all policies)
        it = iter(expect)
        reduced = {a for _, a in expect}
        got2 = [g for g in got if g[1] in reduced]
        if not all(any(g == x for x in it) for g in got2):
            bad.append(("subsequence", "channeled subscriber %d received %s, not an in-order subsequence of %s" % (s, got2[:6], expect[:6])))
        # a subscriber attached for the whole run, once stop() has returned: the blocking policy
        # delivered the whole stream, DropOldest delivered at least the newest notification
        # (histories with vetoed actions are left out: whether those notify is unspecified)
        whole_run = any(s == s0 and k == "chan" for s0, k, _ in h.sc["subs"]) and \
            not any(e["kind"] == "INV" and e["f"][0] == "un:%d" % s for e in h.ev)
        no_veto = not any(e["f"][3] == "D" for e in h.kinds("BR"))
        if whole_run and no_veto and stop_ret(h) is not None and len(args) >= 2:
            if args[1] == "block" and got != expect:
                bad.append(("complete", "channeled subscriber %d (blocking) received %s, the notifying actions were %s" % (s, got[:8], expect[:8])))
            if args[1] == "oldest" and expect and (not got or got[-1] != expect[-1]):
                bad.append(("newest", "channeled subscriber %d (DropOldest) did not receive the newest notification %s (last received: %s)" % (s, expect[-1], got[-1:] )))
        # nothing after unsubscribe / stop returned
        for op in ("un:%d" % s, "stop", "drop"):
            for r in h.ret_index(op)[:1]:
                if any(int(e["f"][0]) == s and e["i"] > r for e in h.kinds("NOTIFY")):
                    bad.append(("flush", "channeled subscriber %d was delivered something after %s returned" % (s, op)))
    return bad


# ---- C11 -----------------------------------------------------------------------------------------
def mon_c11(h):
    """returns (bad, known)"""
    bad, known = [], []
    runs = {}
    for e in h.kinds("EFFECT"):
        runs.setdefault(int(e["f"][0]), []).append(e)
    reducer_os = {e["os"] for e in h.kinds("RED", "BR", "BD", "BE")}
    for k, evs in runs.items():
        if len(evs) > 1:
            bad.append(("once", "effect %d ran %d times" % (k, len(evs))))
        for e in evs:
            if e["t"] == 100 or e["os"] in reducer_os:
                bad.append(("worker", "effect %d ran in the reducer context" % k))
    # effects returned by reducers and left by before_effect must run once, when the store was
    # stopped by a quiescent stop
    sr = stop_ret(h)
    inv_stop = next((e["i"] for e in h.ev if e["kind"] == "INV" and e["f"][0] in ("stop", "drop")), None)
    returned = {}
    for e in h.kinds("RED"):
        if e["f"][4] != "-":
            returned[int(e["f"][4])] = e
    removed = set()
    for e in h.kinds("BE"):
        ein = set(e["f"][3].split(",")) - {"-"}
        eout = set(e["f"][4].split(",")) - {"-"}
        removed |= {int(x) for x in ein - eout}
    if sr is not None:
        for k, e in returned.items():
            if k in removed or k in runs or h.sc.get("effect_kind", {}).get(k) == "action":
                continue
            # the F4 class: the effect phase of the producing action ran after stop() was invoked
            if inv_stop is not None and e["i"] > inv_stop or (inv_stop is not None and later_reducer_event_after(h, e, inv_stop)):
                known.append("effect %d of a backlog action was skipped: its effect phase ran after stop() had taken the pool" % k)
            else:
                bad.append(("once", "effect %d was returned by a reducer, not removed, and never ran" % k))
    for k in removed:
        if k in runs:
            bad.append(("removed", "effect %d was removed in before_effect but ran" % k))
    # Effect::Action: its action is reduced at most once, after the action that produced it
    per, order = actions_reduced(h)
    for k, b in h.sc["effect_action"].items():
        if b in per and k in returned:
            if per[b][0]["i"] < returned[k]["i"]:
                bad.append(("effect-action", "action %d of effect %d was reduced before its producer" % (b, k)))
            if k in removed:
                bad.append(("removed", "effect %d was removed in before_effect but its action %d was reduced" % (k, b)))
    if sr is not None:
        for e in h.ev[sr:]:
            if e["kind"] == "EFFECT":
                bad.append(("nothing-after-stop", "effect %s ran after stop() returned" % e["f"][0]))
    return bad, known


def later_reducer_event_after(h, red_event, inv_stop):
    """F4 class: stop() was invoked before the effect phase of the producing action was over, so
    the pool may already have been taken when this effect was to be spawned. The effect phase is
    over at the first reducer-context event that follows the action's reduce and before_effect
    events (its before_dispatch hook, its notification, or the next action)."""
    a = red_event["f"][1]
    for e in h.ev[red_event["i"] + 1:]:
        if e["t"] != 100:
            continue
        if e["kind"] in ("RED", "ERR") or (e["kind"] == "BE" and e["f"][1] == a):
            continue
        return e["i"] > inv_stop
    return True


# ---- C14 -----------------------------------------------------------------------------------------
def mon_c14(h):
    bad = []
    items = {}
    created = {}
    for e in h.ev:
        if e["kind"] == "RET" and e["f"][0].startswith(("nx:", "dr:")):
            s = int(e["f"][0].split(":")[1])
            items.setdefault(s, []).append(e["f"][1])
        if e["kind"] == "RET" and e["f"][0].startswith("it:"):
            created[int(e["f"][0].split(":")[1])] = e["i"]
    expect = notifying_actions(h)
    exp_txt = ["item=%s@%d" % (s, a) for s, a in expect]
    reduced_acts = {int(e["f"][1]) for e in h.kinds("RED")}
    for s, got in items.items():
        # vetoed actions (no reducer call) may or may not notify: unspecified, ignore their items
        vals = [g for g in got if g != "item=none" and int(g.split("@")[1]) in reduced_acts]
        # no gaps / repeats: a contiguous run of the notification stream
        if vals:
            if vals[0] not in exp_txt:
                reduced = {a for _, a in expect}
                if int(vals[0].split("@")[1]) in reduced:
                    bad.append(("stream", "iterator %d yielded %s which is not in the notification stream" % (s, vals[0])))
                continue
            k = exp_txt.index(vals[0])
            if vals != exp_txt[k:k + len(vals)]:
                bad.append(("stream", "iterator %d yielded %s, expected a contiguous run of %s" % (s, vals[:5], exp_txt[k:k + 5])))
        # a default (capacity 1, blocking) iterator consumed to None loses nothing: every notifying
        # action reduced after the iterator's creation returned was yielded before the None
        # (histories with vetoed actions are left out: whether those notify is unspecified)
        no_veto = not any(e["f"][3] == "D" for e in h.kinds("BR"))
        default_it = any(e["kind"] == "INV" and e["f"][0] == "it:%d" % s for e in h.ev)
        if "item=none" in got and no_veto and default_it and s in created:
            per, _ = actions_reduced(h)
            for st, a in expect:
                if per[a][-1]["i"] > created[s] and ("item=%s@%d" % (st, a)) not in got:
                    bad.append(("complete", "iterator %d ended (None) without yielding the notification of action %d, reduced after the iterator was created" % (s, a)))
                    break
        # once None, always None
        if "item=none" in got and any(g != "item=none" for g in got[got.index("item=none"):]):
            bad.append(("ends", "iterator %d yielded an item after None" % s))
    return bad


# ---- C18 -----------------------------------------------------------------------------------------
def mon_c18(h):
    bad = []
    m = h.end.get("metrics")
    if not m or stop_ret(h) is None or "100@" in h.end.get("unfinished", "-"):
        return bad
    m = {k: int(v) for k, v in m.items()}
    # dispatches that found the store open: every dispatch call except those rejected as closed
    opened = 0
    closed_impl = 0
    for e in h.ev:
        if e["kind"] == "RET" and e["f"][0].startswith("d."):
            entry = e["f"][0].split(".")[1]
            if e["f"][1] == "err" and not (entry == "D" and h.sc["pol"] == "latest" and False):
                closed_impl += 1 if entry in ("I", "T") else 0
    received_actions = len({int(e["f"][1]) for e in h.kinds("RED", "BR")})
    if m["reduced"] != len(actions_reduced(h)[1]) and h.sc["reducers"]:
        bad.append(("reduced", "action_reduced=%d but %d actions went through the reducers" % (m["reduced"], len(actions_reduced(h)[1]))))
    hooks = len(h.kinds("BR", "BE", "BD"))
    if m["mw"] != hooks:
        bad.append(("middleware", "middleware_executed=%d but %d hooks were invoked" % (m["mw"], hooks)))
    effs = sum(1 for e in h.kinds("RED") if e["f"][4] != "-")
    if m["issued"] != effs:
        bad.append(("effects", "effect_issued=%d but reducers returned %d effects" % (m["issued"], effs)))
    if m["errors"] != closed_impl:
        bad.append(("errors", "error_occurred=%d but StoreImpl::dispatch rejected %d calls" % (m["errors"], closed_impl)))
    # balance: actions the reducer took + actions dropped = dispatches that found the store open
    rets = [(e["f"][0].split(".")[1], int(e["f"][0].split(".")[2]), e["f"][1]) for e in h.ev
            if e["kind"] == "RET" and e["f"][0].startswith("d.")]
    has_sub_chan = any(k == "chan" for _, k, _ in h.sc["subs"]) or any(
        e["f"][0].startswith(("sc:", "it")) for e in h.kinds("INV"))
    # a rejected Dispatcher-entry dispatch means "closed" under the blocking policy, and under a drop
    # policy when it was invoked after a close()/stop()/drop had returned; otherwise it may also be
    # a discarded action (already counted in action_dropped): ambiguous, no balance claimed
    first_closed = next((e["i"] for e in h.ev if e["kind"] == "RET" and e["f"][0] in ("close", "stop", "drop")), None)
    inv_of = {}
    closed_d, ambiguous = 0, False
    for e in h.ev:
        if e["kind"] == "INV" and e["f"][0].startswith("d.D."):
            inv_of[(e["t"], e["f"][0])] = e["i"]
        if e["kind"] == "RET" and e["f"][0].startswith("d.D.") and e["f"][1] == "err":
            i0 = inv_of.get((e["t"], e["f"][0]), -1)
            if h.sc["pol"] == "block" or (first_closed is not None and i0 > first_closed):
                closed_d += 1
            else:
                ambiguous = True
    if not has_sub_chan and not ambiguous and not h.sc["effect_action"]:
        opened = len(rets) - closed_impl - closed_d
        if h.sc["reducers"] or h.sc["mws"]:
            taken = len(taken_actions(h) & {a for _, a, _ in rets})
            if taken + m["dropped"] != opened:
                bad.append(("balance", "%d dispatches found the store open, the reducer took %d actions, action_dropped=%d" % (opened, taken, m["dropped"])))
        elif opened - m["dropped"] not in (m["received"] - 1, m["received"]):
            # no reducer / middleware callback shows which actions were taken: action_received
            # (which may or may not include the shutdown marker) stands in
            bad.append(("balance", "%d dispatches found the store open, action_received=%d (marker included or not), action_dropped=%d" % (opened, m["received"], m["dropped"])))
    return bad


# ---- C05 / C06 -------------------------------------------------------------------------------------
def taken_actions(h):
    """actions the reducer visibly took (any reducer-context callback names them)"""
    return {int(e["f"][1]) for e in h.kinds("RED", "BR", "BE", "BD")} | {int(e["f"][2]) for e in h.kinds("NOTIFY") if e["t"] == 100}


def quiescent(h):
    return stop_ret(h) is not None and "100@" not in h.end.get("unfinished", "-")


def mon_c05(h):
    bad = []
    for t, label in h.probe_arrivals:
        if label == "chan.send":
            bad.append(("waits-when-full", "thread %d: a blocking send returned although the queue already held `capacity` items" % t))
    if h.sc["pol"] != "block" or not quiescent(h):
        return bad
    m = {k: int(v) for k, v in (h.end.get("metrics") or {}).items()}
    if m and m["dropped"] != 0 and not any(k in ("chan",) for _, k, _ in h.sc["subs"]) and \
            not any(e["f"][0].startswith("sc:") for e in h.kinds("INV")):
        bad.append(("lossless", "action_dropped=%d under BlockOnFull" % m["dropped"]))
    ok = [int(e["f"][0].split(".")[2]) for e in h.ev if e["kind"] == "RET" and e["f"][0].startswith("d.") and e["f"][1] == "ok"]
    if m and m["received"] - 1 != len(ok) and m["received"] != len(ok):
        bad.append(("lossless", "%d dispatches were accepted but the reducer received %d actions" % (len(ok), m["received"] - 1)))
    if h.sc["reducers"] or h.sc["mws"]:
        seen = taken_actions(h)
        for a in ok:
            if a not in seen:
                bad.append(("lossless", "action %d was accepted under BlockOnFull but never reached the reducer" % a))
    return bad


def mon_c06(h):
    bad = []
    if h.sc["pol"] == "block" or not quiescent(h):
        return bad
    m = {k: int(v) for k, v in (h.end.get("metrics") or {}).items()}
    rets = [(e["f"][0].split(".")[1], int(e["f"][0].split(".")[2]), e["f"][1]) for e in h.ev
            if e["kind"] == "RET" and e["f"][0].startswith("d.")]
    has_sub_chan = any(k == "chan" for _, k, _ in h.sc["subs"]) or any(
        e["f"][0].startswith(("sc:", "it")) for e in h.kinds("INV"))
    seen = taken_actions(h)
    observable = bool(h.sc["reducers"] or h.sc["mws"])
    if h.sc["pol"] == "latest" and observable:
        for entry, a, r in rets:
            if entry == "D" and r == "err" and a in seen:
                bad.append(("err-iff-dropped", "Dispatcher::dispatch of %d returned Err but the action was reduced" % a))
            if entry == "D" and r == "ok" and a not in seen:
                bad.append(("err-iff-dropped", "Dispatcher::dispatch of %d returned Ok but the action never reached the reducer" % a))
    # conservation: taken + dropped = dispatched while open
    closed = sum(1 for entry, a, r in rets if r == "err" and entry in ("I", "T"))
    ambiguous = any(entry == "D" and r == "err" for entry, a, r in rets)
    if m and not has_sub_chan and not ambiguous and not h.sc["effect_action"]:
        opened = len(rets) - closed
        exits = 1 if m["received"] + m["dropped"] == opened + 1 else 0
        if m["received"] - exits + m["dropped"] != opened:
            bad.append(("conservation", "%d dispatches found the store open but received(%d) - marker + dropped(%d) differs" % (opened, m["received"], m["dropped"])))
        if observable and len(seen & {a for _, a, _ in rets}) + m["dropped"] != opened:
            bad.append(("conservation", "%d dispatches found the store open, %d actions were taken, %d counted as dropped" % (opened, len(seen & {a for _, a, _ in rets}), m["dropped"])))
    return bad


# ---- C07 -----------------------------------------------------------------------------------------
PHASE = {"BR": 0, "ERR": None, "RED": 1, "BE": 2, "BD": 3, "NOTIFY": 4, "CHANGE": 4}


def mon_c07(h):
    bad = []
    cur, phase, done = None, 0, set()
    os_threads = set()
    for e in h.ev:
        if e["t"] != 100 or e["kind"] not in PHASE or PHASE[e["kind"]] is None:
            continue
        os_threads.add(e["os"])
        a = int(e["f"][1]) if e["kind"] in ("BR", "RED", "BE", "BD") else int(e["f"][2])
        ph = PHASE[e["kind"]]
        if a != cur:
            if a in done:
                bad.append(("no-overlap", "a callback of action %d runs after action %s had started" % (a, cur)))
            if cur is not None:
                done.add(cur)
            cur, phase = a, 0
        if ph < phase:
            bad.append(("phase-order", "action %d: `%s` after a later phase" % (a, e["text"][:40])))
        phase = max(phase, ph)
    if len(os_threads - {0}) > 1:
        bad.append(("one-context", "reducer-context callbacks ran on %d different threads" % len(os_threads)))
    # subscribers of one action are called in registration order (initial direct subscribers)
    directs = [s for s, k, _ in h.sc["subs"] if k == "direct"]
    last = {}
    for e in h.kinds("NOTIFY"):
        if e["t"] != 100:
            continue
        a, s = int(e["f"][2]), int(e["f"][0])
        if a in last and s in directs and last[a] in directs and directs.index(s) < directs.index(last[a]):
            bad.append(("registration-order", "action %d: subscriber %d notified after %d" % (a, s, last[a])))
        last[a] = s
    # reducers / middlewares / direct subscribers registered before the dispatch are not left out
    bad.extend(left_out(h))
    bad.extend(while_registered(h))
    return bad


# ---- C16 -----------------------------------------------------------------------------------------
def mon_c16(h):
    bad = []
    last = {}
    # SCHANGE: deliveries of a SelectorSubscriber object shared by two stores (engine F pairs)
    for e in h.kinds("CHANGE", "SCHANGE"):
        s, v = int(e["f"][0]), e["f"][1]
        if last.get(s) == v:
            bad.append(("dedup", "selector subscriber %d was called twice in a row with value %s" % (s, v)))
        last[s] = v
    return bad


# ---- C13 -----------------------------------------------------------------------------------------
def mon_c13(h):
    """a stuck execution: some thread neither finished nor idle. Returns (bad, known)"""
    bad, known = [], []
    unf = h.end.get("unfinished", "-")
    if unf in ("-", ""):
        return bad, known
    released_early = any(e["f"][0].startswith("di:") for e in h.kinds("INV"))
    stuck = []
    for item in unf.split(","):
        t, label = item.split("@")
        t = int(t)
        if label == "chan.recv":
            continue      # waiting for input: the reducer / a channeled thread / a consumer (idle)
        stuck.append(item)
    if stuck:
        if released_early:
            known.append("a state iterator released before it returned None hangs the store (%s)" % ",".join(stuck))
        else:
            bad.append(("deadlock", "threads never finish: %s" % ",".join(stuck)))
    return bad, known


# ---- C19 -----------------------------------------------------------------------------------------
def mon_c19(h):
    """one store of a pair, judged on its own: everything the per-store properties say, plus: an
    open store never rejects a dispatch (whoever calls, from whatever thread)"""
    bad = []
    first_close = next((e["i"] for e in h.ev if e["kind"] == "INV" and e["f"][0] in ("close", "stop", "drop")
                        or e["kind"] == "HARNESS-CLEANUP"), None)
    for e in h.ev:
        if e["kind"] == "RET" and e["f"][0].startswith("d.") and e["f"][1] == "err":
            entry = e["f"][0].split(".")[1]
            if (first_close is None or e["i"] < first_close) and not (entry == "D" and h.sc["pol"] == "latest"):
                bad.append(("acceptance", "dispatch %s was rejected although this store was open" % e["f"][0]))
    for m in (mon_c01, mon_c03, mon_c04, mon_c05, mon_c06, mon_c18, mon_c16):
        r = m(h)
        bad += [("per-store/" + c, d) for c, d in (r[0] if isinstance(r, tuple) else r)]
    return bad


MONITORS = {"C19": mon_c19, "C05": mon_c05, "C06": mon_c06, "C07": mon_c07, "C13": mon_c13, "C15": mon_c04, "C16": mon_c16,
            "C01": mon_c01, "C02": mon_c02, "C03": mon_c03, "C04": mon_c04, "C08": mon_c08,
            "C09": mon_c09, "C10": mon_c10, "C11": mon_c11, "C14": mon_c14, "C18": mon_c18}
