#!/usr/bin/env python3
"""mkmanifest.py - writes MANIFEST.json from the table below (kept in one place so that the
manifest always lists exactly the properties that have a check)."""
import json, os, subprocess
ROOT = os.path.dirname(os.path.abspath(__file__))
hooks_commits = subprocess.run("git -C /repo log --format=%H --grep='^verif hooks'", shell=True,
                               stdout=subprocess.PIPE, text=True).stdout.split()

NOTE = ("Trusted: Coq 8.16.1 kernel (no axioms: Print Assumptions must be 'Closed under the global "
        "context'), extraction via ExtrOcamlBasic only, the hand-written OCaml driver and Rust harness, "
        "the hook module src/verif.rs; crossbeam channels, std Mutex/threads and rusty_pool are modelled, "
        "not verified; user callbacks are pure returning functions. See DESIGN.md section 7.")

CLAIMED = {
 "C12": ("Unbounded Coq theorems (any number of middlewares, any verdict functions, any reducer chain) giving the "
         "closed form of the per-action pipeline and its corollaries for each verdict; tied to the code by exhaustive "
         "verdict matrices (4^3, 4^6; 4^9 in thorough) run through the real crate and compared event by event with "
         "the extracted model.", "5 C12", "Coq proof of process_action + exhaustive differential verdict matrices (engine S)"),
 "C16": ("Unbounded Coq theorems about SelectorSubscriber's compare-deliver-store step and its fold over any stream "
         "(dedup characterised independently); tied to the code by exhaustive streams over small alphabets fed to the "
         "real on_notify and random streams through a running store.", "5 C16",
         "Coq proof of sel_stream = dedup + exhaustive differential streams (engine S)"),
 "C17": ("Unbounded Coq theorems about the builder model (validation iff, configuration, commutation of different "
         "option groups, order independence, last-wins, with/add); tied to the code by every call chain up to length "
         "3 (4 thorough) over a 17-symbol alphabet on the real StoreBuilder with behavioural probes of the built store.",
         "5 C17", "Coq proof over the builder model + exhaustive differential call chains (engine S)"),
}
CLAIMED.update({
 "C01": ("Coq: the reducer chain of one action (threading, once each, result written whether Dispatch or Keep) for any "
         "reducers/middlewares; in every reachable world of the interleaving model (any programs, threads, capacity, "
         "schedule) the state is the latest write-back, under BlockOnFull enqueued = taken ++ queued as lists, and (C01_fold) "
         "for programs without runtime registration the write-backs are the sequential fold of the per-action pipeline over "
         "the taken actions, each starting from the state the previous one left. Runtime registration is decided by engine L. "
         "The C01 monitor judges every observed history (engines L and F).", "5 C01",
         "Coq invariants incl. the fold over histories + lockstep schedule replay (engine L) + free runs (engine F) + monitor"),
 "C02": ("Coq, every policy, program and schedule: what the reducer takes is an in-order subsequence of what entered the "
         "queue, and in every reachable history every enqueue lies between the invocation and the return of a dispatch of that "
         "action (the return is the very next event, an invocation is older) - so a dispatch that returned before another "
         "was invoked is enqueued, hence taken, first. Engine L replays schedules over all three entry points, thunks and "
         "effect workers with TX probes; the order monitor judges every history (engines L and F).", "5 C02",
         "Coq FIFO + enqueue-between-invoke-and-return invariants + lockstep schedule replay (engine L) + order monitor"),
 "C03": ("Coq: per action, subscribers are called iff the last reducer said Dispatch and no before_dispatch hook said "
         "Done, each once, in registration order, with the new state. Partial: the stream over a run is decided by "
         "engine L and the C03 monitor.", "5 C03", "Coq pure theorem + lockstep schedule replay (engine L) + stream monitor"),
 "C05": ("Coq: in every reachable world every queue holds at most its capacity; under BlockOnFull nothing is dropped "
         "and enqueued = taken ++ queued; the blocking send is enabled iff there is room and becomes enabled by a recv. "
         "Engine L probes that a send on a full queue does not return and resumes after the reducer's recv. Liveness "
         "('eventually reduced') is enabledness in the model; OS wake-ups are trusted.", "5 C05",
         "Coq invariants (bound, losslessness) + lockstep replay with blocking probes (engine L)"),
 "C06": ("Coq: drop policies never wait (every phase enabled); one send - and a burst of any length with no consumer running - "
         "keeps lastn/firstn capacity of queue ++ burst; in every reachable "
         "world enqueued is a permutation of taken + evicted + queued and taken is an in-order subsequence. Engine L "
         "schedules the reducer between the DropOldest phases; the C06 monitor checks conservation and Err-iff-dropped.",
         "5 C06", "Coq conservation invariant + lockstep schedule replay (engine L) + conservation monitor"),
 "C07": ("Coq: the callback order of one action in closed form (BR* R* BE* BD* N*), every reducer once in registration "
         "order. Partial: non-overlap of consecutive actions holds by construction of the single reducer thread of the "
         "model; decided by engine L (runtime registration from other threads) and the C07 monitor.", "5 C07",
         "Coq pure theorem + lockstep schedule replay (engine L) + phase monitor"),
 "C08": ("Coq: in every reachable world the state is the latest write-back and every returned get_state returned the "
         "latest write-back before its return (reads_ok over the whole history); write-backs only grow. Engine L places "
         "readers between every pair of reducer steps.", "5 C08",
         "Coq history invariant + lockstep schedule replay (engine L) + read monitor"),
})
CLAIMED.update({
 "C04": ("Coq, for every program, thread count, capacity, policy and schedule of the interleaving model: the close "
         "protocol (nothing is enqueued after close took the sender; the marker is last; the reducer leaves its loop "
         "with an empty queue), the barrier at the point where the pool join can return (reducer done, queue empty, under "
         "BlockOnFull enqueued = taken) and finality (a stopped world stays stopped along every continuation: no "
         "reducer-context callback, effect run, queue traffic, write-back or accepted dispatch is ever added; and, "
         "C04_forwarding_is_final, nothing is forwarded to any subscription channel any more once the reducer has left its "
         "loop). Partial: deliveries of what was forwarded earlier and the 3 s timeout. Engine L constructs the races "
         "(dispatcher blocked in a full queue while close waits for TX, every backlog, probes that stop waits).",
         "5 C04", "Coq invariants (close protocol, barrier, finality) + lockstep schedule replay with probes (engine L) + monitor"),
 "C15": ("In the model dropping a DroppableStore is the stop() step sequence, so the C04 theorems hold verbatim; the "
         "content is the correspondence: engine L replays schedules with drop(DroppableStore) in place of stop() "
         "(backlogs, clones used concurrently) and the C04 monitor judges every observed history.", "5 C15",
         "Coq (C04 theorems instantiated) + lockstep schedule replay with drop (engine L) + monitor"),
})
CLAIMED.update({
 "C09": ("Coq: the registry facts (after unsubscribe not registered, others unaffected and in order, twice = once) and the "
         "unsubscribe steps of the model (again: nothing happens; direct: removed, one on_unsubscribe in the caller's context). "
         "Partial: the lifecycle over histories is decided by engine L (unsubscribe at every point relative to snapshot / "
         "notify / shutdown release, double unsubscribe, channeled) and the C09 monitor; the late notification after "
         "unsubscribe() (F3) is a listed known finding, witnessed in Coq (Witness.C09_late_notify_refuted) and on the real code.",
         "5 C09", "Coq registry lemmas + lockstep schedule replay (engine L) + lifecycle monitor with known class F3"),
 "C10": ("Coq, every reachable world, every subscription channel since its creation: received is an in-order subsequence of "
         "forwarded, and under BlockOnFull forwarded = received ++ queued; drop policies never wait; DropOldest keeps the newest. "
         "Partial: own thread and flush-before-return hold by construction of the model's join steps; decided by engine L "
         "(stalled subscriber, capacities 1..3, all policies, probe that unsubscribe waits) and the C10 monitor.",
         "5 C10", "Coq channel-stream invariant + lockstep schedule replay with probes (engine L) + monitor"),
 "C11": ("Coq: one fresh worker per effect handed to the pool, whose first step runs it in its own context; over whole "
         "histories no thread ever logs two effect runs (every schedule); a worker acts only after its spawn and effects "
         "are handed out while their action is processed (WorldSpawn.v); after stop() nothing runs (C04 finality). Partial: "
         "'reduced exactly once' for Effect::Action and 'every effect of an accepted action' are decided by engines L and F "
         "(four effect kinds, panics, task storms, "
         "thunks dispatching, stop before/after spawn) and the C11 monitor; effects of backlog actions skipped after stop() took "
         "the pool (F4) is a listed known finding, witnessed in Coq and on the real code.",
         "5 C11", "Coq spawn/at-most-once/finality theorems + lockstep schedule replay (engine L) + monitor with known class F4"),
 "C13": ("Coq: the exact enabledness of every waiting step (wait-for edges) and the steps that never wait; by evaluation, a "
         "reachable world in which no thread can step after an iterator was released early (known finding F5, also replayed "
         "on the real code). Partial: deadlock freedom of all other worlds is not yet a theorem; engine L probes every "
         "blocking edge and reports any thread that does not arrive where the model says it can run (api_mix family over the "
         "whole API, 2-4 threads).", "5 C13",
         "Coq enabledness characterisation + refuted witness + lockstep replay with probes (engine L) + stuck-thread monitor"),
 "C14": ("Coq: what next() has yielded is exactly the prefix (BlockOnFull) of what was forwarded to the iterator since its "
         "creation, in order, no gap or repeat; None is final. Partial: relation to the notifying actions and the end of "
         "stream after stop() are decided by engine L (consumer thread racing producers and stop) and the C14 monitor.",
         "5 C14", "Coq channel-stream invariant + lockstep schedule replay (engine L) + stream monitor"),
 "C18": ("Coq: every step leaves every counter non-decreasing; in every reachable world received/dropped/reduced/"
         "middleware/error counters equal the corresponding totals over the history; the balance received + dropped = "
         "entered + rejected (+ marker + subscription-channel drops) whenever the queue is empty. Partial: effect_issued. "
         "Engines S/L compare all public counters with the model at every get_metrics and at the end.", "5 C18",
         "Coq counter invariants + exact differential comparison (engines S, L) + balance monitor"),
 "C19": ("Coq: the model of two stores is a product; a step of one leaves the other's content and enabledness unchanged, and "
         "projections of interleaved runs are runs of the single store (so every per-store theorem applies). The substance is "
         "the correspondence: engine F runs pairs of real stores in one process (equal names and types, a subscriber of A "
         "dispatching into a slow, small B) and judges each store alone; engine L runs single stores.", "5 C19",
         "Coq product/frame theorem + paired free-running stores judged per store (engine F) + lockstep (engine L)"),
})

CLAIMED.update({
 "C01": ("Coq: the reducer chain of one action (threading, once each, result written whether Dispatch or Keep) for any "
         "reducers/middlewares; in every reachable world of the interleaving model (any programs, threads, capacity, "
         "schedule) the state is the latest write-back, under BlockOnFull enqueued = taken ++ queued as lists, and (C01_fold) "
         "for programs without runtime registration the write-backs are the sequential fold of the per-action pipeline over "
         "the taken actions, each starting from the state the previous one left; with runtime registration "
         "(C01_fold_runtime_registration, every program and schedule) every write-back is the pipeline applied to the "
         "previous write-back with registries between 'as when the action was taken' and 'as at the write-back'. Engines L "
         "and F (add_reducer racing a slow reducer chain) and the C01 monitor (threading, exactly-once, lossless, final "
         "state, reducer left out) tie this to the code.", "5 C01",
         "Coq invariants incl. the fold over histories + lockstep schedule replay (engine L) + free runs (engine F) + monitor"),
 "C02": ("Coq, every policy, program and schedule: what the reducer takes is an in-order subsequence of what entered the "
         "queue (C02_fifo), and in every reachable history every enqueue lies between the invocation and the return of a "
         "dispatch of that action - so a dispatch that returned before another was invoked is enqueued, hence taken, first. "
         "Engine L replays schedules over all three entry points, thunks and effect workers with TX probes. Partial: a "
         "dispatch from inside a middleware hook (the model's callbacks are pure) is covered by engine F only (family "
         "mw_nested) with the order monitor.", "5 C02",
         "Coq FIFO + enqueue-between-invoke-and-return invariants + lockstep schedule replay (engine L) + free runs with dispatching hooks (engine F) + order monitor"),
 "C03": ("Coq: per action, subscribers are called iff the last reducer said Dispatch and no before_dispatch hook said Done, "
         "each once, in registration order, with the new state; over whole runs, every program and schedule: the "
         "reducer-context calls are, snapshot by snapshot, one per direct subscriber of the snapshot in its order "
         "(C03_stream); the snapshots are exactly the notifying write-backs in reduce order (C03_snapshots, no runtime "
         "registration of reducers/middlewares); and every snapshot contains every subscriber whose registration call had "
         "returned and for which no unsubscribing call had been invoked (C03_whole_run_subscriber_in_every_snapshot). "
         "Engines L and F with the stream monitor tie this to the code.", "5 C03",
         "Coq history invariants (stream, snapshots, registry over histories) + lockstep schedule replay (engine L) + free runs (engine F) + stream monitor"),
 "C07": ("Coq: the callback order of one action in closed form (BR* R* BE* BD* N*), every reducer once in registration "
         "order; the notification calls follow the snapshot order (C03_stream) and a snapshot contains every live "
         "registration (WorldRegistered.v); the reducer and middleware lists an action's write-back was computed with extend "
         "the registries as they were when the action was taken, in registration order (C07_registered_never_left_out). "
         "Partial: non-overlap of consecutive actions holds by construction of the single reducer thread of the model. "
         "Engines L and F (registration racing a slow reducer chain) and the C07 monitor (phase order, one context, "
         "registration order, left-out) tie this to the code.", "5 C07",
         "Coq pure theorem + history invariants + lockstep schedule replay (engine L) + free runs (engine F) + phase/left-out monitor"),
 "C09": ("Coq: the registry facts and the unsubscribe steps of the model; for programs with distinct registration "
         "identifiers, every schedule: never two registry entries per identifier, and a direct subscriber is released "
         "exactly once; for every program and schedule (WorldRegistered.v): every snapshot contains every subscriber whose "
         "registration call had returned and for which no unsubscribing call had been invoked, and the registry keeps it "
         "until the shutdown release is over (others' unsubscribes do not affect it). Partial: release of channeled "
         "subscribers over histories is decided by engine L and the C09 monitor; the one late notification after "
         "unsubscribe() (F3) is a listed known finding, witnessed in Coq and on the real code.",
         "5 C09", "Coq registry / release / live-registration invariants + lockstep schedule replay (engine L) + free runs (engine F) + lifecycle monitor with known class F3"),
 "C10": ("Coq, every reachable world, every subscription channel since its creation: received is an in-order subsequence of "
         "forwarded, under BlockOnFull forwarded = received ++ queued; drop policies never wait; DropOldest keeps the newest; "
         "a subscriber thread that has ended left an empty disconnected channel and the joins wait for it (C10_flush, "
         "C10_joins_wait); and (C10_same_stream, distinct identifiers) while the subscriber is not released, one entry per "
         "snapshot containing it = handed to its thread ++ queued ++ still to forward - the sequence a direct subscriber in "
         "its place is called for. Engines L and F (stalled / slow consumers, capacities 1..3, all policies, probes that "
         "unsubscribe waits) and the C10 monitor tie this to the code.",
         "5 C10", "Coq channel-stream, flush and forwarding invariants + lockstep schedule replay with probes (engine L) + free runs (engine F) + monitor"),
 "C13": ("Coq: TX and SUBS are each held by at most one thread in every reachable world; deadlock freedom of the whole "
         "API except state iterators (any thread count, policy, capacity >= 1, schedule; channeled subscribers with distinct "
         "identifiers included): a reachable world with no enabled thread has every call returned and every task ended; "
         "exact enabledness of every waiting step. Partial: worlds with state iterators - by evaluation a reachable world "
         "with no enabled thread exists after an iterator was released early (known finding F5, replayed on the real "
         "code); engine L probes every blocking edge (api_mix over the whole API) and reports any thread that does not "
         "arrive where the model says it can run.", "5 C13",
         "Coq deadlock-freedom theorems (WorldLive, WorldLive2) + refuted witness + lockstep replay with probes (engine L) + stuck-thread monitor"),
 "C14": ("Coq: what next() has yielded is exactly the prefix (BlockOnFull) of what was forwarded to the iterator since its "
         "creation, in order, no gap or repeat; None is final; and (C14_every_notification, distinct identifiers, every "
         "schedule) while the iterator is not released, one entry per snapshot containing it = yielded ++ queued ++ still "
         "to forward. Partial: the end of the stream after stop() is decided by engine L (consumer thread racing producers, "
         "unsubscribes, new subscribers and stop) and the C14 monitor.",
         "5 C14", "Coq channel-stream and forwarding invariants + lockstep schedule replay (engine L) + free runs (engine F) + stream monitor"),
 "C18": ("Coq: every step leaves every counter non-decreasing; in every reachable world received/dropped/reduced/"
         "middleware/error counters equal the corresponding totals over the history; the balance received + dropped = "
         "entered + rejected (+ marker + subscription-channel drops) whenever the queue is empty; effect_issued = the "
         "effects the reducer calls returned. Partial: effect_executed. Engines S/L compare all public counters with the "
         "model at every get_metrics and at the end; the balance monitor judges every history.", "5 C18",
         "Coq counter invariants + exact differential comparison (engines S, L) + balance monitor"),
 "C19": ("Coq: the model of two stores is a product; a step of one leaves the other's content and enabledness unchanged, and "
         "projections of interleaved runs are runs of the single store (so every per-store theorem applies). The substance is "
         "the correspondence: engine F runs pairs of real stores in one process (default, equal explicit and different names; "
         "same types; a subscriber of A dispatching into a slow, small B) and judges each store alone; engine L runs single "
         "stores.", "5 C19",
         "Coq product/frame theorem + paired free-running stores judged per store (engine F) + lockstep (engine L)"),
})

REASON_TODO = "check not built yet in this revision (planned: see DESIGN.md section 5)"

props = [json.loads(l) for l in open(os.path.join(ROOT, "properties.jsonl"))]
checks, na = [], []
for p in props:
    pid = p["id"]
    if pid in CLAIMED:
        text, ref, tech = CLAIMED[pid]
        checks.append({
            "property_id": pid,
            "quick_cmd": "python3 check.py %s --tier quick" % pid,
            "thorough_cmd": "python3 check.py %s --tier thorough" % pid,
            "evidence_file": "/verif/evidence/%s.json" % pid,
            "replay_cmd_template": "python3 check.py %s --replay {path}" % pid,
            "engine": "coq+correspondence",
            "level_claimed": {"category": "proof", "text": text, "design_ref": ref},
            "level_note": NOTE,
            "technique": tech})
    else:
        na.append({"property_id": pid, "reason": REASON_TODO})
man = {
 "version": 1,
 "setup_cmd": "./setup.sh",
 "hooks": {"guard": "rs_store_verif",
           "enable": "RUSTFLAGS=\"--cfg rs_store_verif\" (set in /verif/harness/.cargo/config.toml)",
           "baseline_off_cmd": "cd /repo && cargo test --workspace --no-fail-fast --offline",
           "source_commits": hooks_commits, "add_only": True},
 "engines": [
  {"name": "coq", "path": "/verif/coq", "serves_properties": sorted(CLAIMED),
   "kind_free_text": "hand-written executable Gallina model + theorems (Coq 8.16.1), extracted to OCaml"},
  {"name": "driver", "path": "/verif/runner", "serves_properties": sorted(CLAIMED),
   "kind_free_text": "OCaml front end of the extracted model (scenario parser, schedule generation, monitors)"},
  {"name": "harness", "path": "/verif/harness", "serves_properties": sorted(CLAIMED),
   "kind_free_text": "Rust harness running the same scenarios on the real crate built from /repo with hooks"}],
 "checks": checks,
 "notes": "Model written by hand; tie to /repo = correspondence check on every run (DESIGN.md section 3).",
 "not_applicable": na}
json.dump(man, open(os.path.join(ROOT, "MANIFEST.json"), "w"), indent=1)
print(len(checks), "checks;", len(na), "not claimed")
