#!/usr/bin/env python3
"""mkmanifest.py - writes MANIFEST.json from the table below (kept in one place so that the
manifest always lists exactly the properties that have a check)."""
import json, os, subprocess
ROOT = os.path.dirname(os.path.abspath(__file__))
hooks_commits = subprocess.run("git -C /repo log --format=%H --grep='^verif hooks'", shell=True,
                               stdout=subprocess.PIPE, text=True).stdout.split()

NOTE = ("Trusted: Coq 8.16.1 kernel (no axioms: Print Assumptions must be 'Closed under the global "
        "context'), extraction via ExtrOcamlBasic only, the hand-written OCaml driver and Rust harness, "
        "the hook module src/verif.rs; crossbeam channels, std Mutex/threads and rusty_pool are modelled, "
        "not verified; user callbacks are pure returning functions. See DESIGN.md section 7.")

CLAIMED = {
 "C12": ("Unbounded Coq theorems (any number of middlewares, any verdict functions, any reducer chain) giving the "
         "closed form of the per-action pipeline and its corollaries for each verdict; tied to the code by exhaustive "
         "verdict matrices (4^3, 4^6; 4^9 in thorough) run through the real crate and compared event by event with "
         "the extracted model.", "5 C12", "Coq proof of process_action + exhaustive differential verdict matrices (engine S)"),
 "C16": ("Unbounded Coq theorems about SelectorSubscriber's compare-deliver-store step and its fold over any stream "
         "(dedup characterised independently); tied to the code by exhaustive streams over small alphabets fed to the "
         "real on_notify and random streams through a running store.", "5 C16",
         "Coq proof of sel_stream = dedup + exhaustive differential streams (engine S)"),
 "C17": ("Unbounded Coq theorems about the builder model (validation iff, configuration, commutation of different "
         "option groups, order independence, last-wins, with/add); tied to the code by every call chain up to length "
         "3 (4 thorough) over a 17-symbol alphabet on the real StoreBuilder with behavioural probes of the built store.",
         "5 C17", "Coq proof over the builder model + exhaustive differential call chains (engine S)"),
}
REASON_TODO = "check not built yet in this revision (planned: see DESIGN.md section 5)"

props = [json.loads(l) for l in open(os.path.join(ROOT, "properties.jsonl"))]
checks, na = [], []
for p in props:
    pid = p["id"]
    if pid in CLAIMED:
        text, ref, tech = CLAIMED[pid]
        checks.append({
            "property_id": pid,
            "quick_cmd": "python3 check.py %s --tier quick" % pid,
            "thorough_cmd": "python3 check.py %s --tier thorough" % pid,
            "evidence_file": "/verif/evidence/%s.json" % pid,
            "replay_cmd_template": "python3 check.py %s --replay {path}" % pid,
            "engine": "coq+correspondence",
            "level_claimed": {"category": "proof", "text": text, "design_ref": ref},
            "level_note": NOTE,
            "technique": tech})
    else:
        na.append({"property_id": pid, "reason": REASON_TODO})
man = {
 "version": 1,
 "setup_cmd": "./setup.sh",
 "hooks": {"guard": "rs_store_verif",
           "enable": "RUSTFLAGS=\"--cfg rs_store_verif\" (set in /verif/harness/.cargo/config.toml)",
           "baseline_off_cmd": "cd /repo && cargo test --workspace --no-fail-fast --offline",
           "source_commits": hooks_commits, "add_only": True},
 "engines": [
  {"name": "coq", "path": "/verif/coq", "serves_properties": sorted(CLAIMED),
   "kind_free_text": "hand-written executable Gallina model + theorems (Coq 8.16.1), extracted to OCaml"},
  {"name": "driver", "path": "/verif/runner", "serves_properties": sorted(CLAIMED),
   "kind_free_text": "OCaml front end of the extracted model (scenario parser, schedule generation, monitors)"},
  {"name": "harness", "path": "/verif/harness", "serves_properties": sorted(CLAIMED),
   "kind_free_text": "Rust harness running the same scenarios on the real crate built from /repo with hooks"}],
 "checks": checks,
 "notes": "Model written by hand; tie to /repo = correspondence check on every run (DESIGN.md section 3).",
 "not_applicable": na}
json.dump(man, open(os.path.join(ROOT, "MANIFEST.json"), "w"), indent=1)
print(len(checks), "checks;", len(na), "not claimed")
