#!/usr/bin/env python3
"""mkmanifest.py - writes MANIFEST.json from the table below (kept in one place so that the
manifest always lists exactly the properties that have a check)."""
import json, os, subprocess
ROOT = os.path.dirname(os.path.abspath(__file__))
hooks_commits = subprocess.run("git -C /repo log --format=%H --grep='^verif hooks'", shell=True,
                               stdout=subprocess.PIPE, text=True).stdout.split()

NOTE = ("Trusted: Coq 8.16.1 kernel (no axioms: Print Assumptions must be 'Closed under the global "
        "context'), extraction via ExtrOcamlBasic only, the hand-written OCaml driver and Rust harness, "
        "the hook module src/verif.rs; crossbeam channels, std Mutex/threads and rusty_pool are modelled, "
        "not verified; user callbacks are pure returning functions. See DESIGN.md section 7.")

CLAIMED = {
 "C12": ("Unbounded Coq theorems (any number of middlewares, any verdict functions, any reducer chain) giving the "
         "closed form of the per-action pipeline and its corollaries for each verdict; tied to the code by exhaustive "
         "verdict matrices (4^3, 4^6; 4^9 in thorough) run through the real crate and compared event by event with "
         "the extracted model.", "5 C12", "Coq proof of process_action + exhaustive differential verdict matrices (engine S)"),
 "C16": ("Unbounded Coq theorems about SelectorSubscriber's compare-deliver-store step and its fold over any stream "
         "(dedup characterised independently); tied to the code by exhaustive streams over small alphabets fed to the "
         "real on_notify and random streams through a running store.", "5 C16",
         "Coq proof of sel_stream = dedup + exhaustive differential streams (engine S)"),
 "C17": ("Unbounded Coq theorems about the builder model (validation iff, configuration, commutation of different "
         "option groups, order independence, last-wins, with/add); tied to the code by every call chain up to length "
         "3 (4 thorough) over a 17-symbol alphabet on the real StoreBuilder with behavioural probes of the built store.",
         "5 C17", "Coq proof over the builder model + exhaustive differential call chains (engine S)"),
}
CLAIMED.update({
 "C01": ("Coq: the reducer chain of one action (threading, once each, result written whether Dispatch or Keep) for any "
         "reducers/middlewares; in every reachable world of the interleaving model (any programs, threads, capacity, "
         "schedule) the state is the latest write-back and under BlockOnFull enqueued = taken ++ queued as lists. "
         "Partial: the fold over the whole taken sequence is not yet a theorem over histories; it is decided by the "
         "lockstep correspondence (engine L) and the C01 monitor on every observed history.", "5 C01",
         "Coq invariants over the interleaving model + lockstep schedule replay (engine L) + history monitor"),
 "C02": ("Coq: for every policy and schedule what the reducer takes is an in-order subsequence of what entered the "
         "queue; sends append at the tail, recv takes the head. Partial: Inv < Enq < Ret per call is a step-level fact of "
         "the model checked by engine L (all three entry points, thunks), not yet a theorem over histories.", "5 C02",
         "Coq FIFO invariant + lockstep schedule replay (engine L) + order monitor"),
 "C03": ("Coq: per action, subscribers are called iff the last reducer said Dispatch and no before_dispatch hook said "
         "Done, each once, in registration order, with the new state. Partial: the stream over a run is decided by "
         "engine L and the C03 monitor.", "5 C03", "Coq pure theorem + lockstep schedule replay (engine L) + stream monitor"),
 "C05": ("Coq: in every reachable world every queue holds at most its capacity; under BlockOnFull nothing is dropped "
         "and enqueued = taken ++ queued; the blocking send is enabled iff there is room and becomes enabled by a recv. "
         "Engine L probes that a send on a full queue does not return and resumes after the reducer's recv. Liveness "
         "('eventually reduced') is enabledness in the model; OS wake-ups are trusted.", "5 C05",
         "Coq invariants (bound, losslessness) + lockstep replay with blocking probes (engine L)"),
 "C06": ("Coq: drop policies never wait (every phase enabled); one send keeps lastn/firstn capacity; in every reachable "
         "world enqueued is a permutation of taken + evicted + queued and taken is an in-order subsequence. Engine L "
         "schedules the reducer between the DropOldest phases; the C06 monitor checks conservation and Err-iff-dropped.",
         "5 C06", "Coq conservation invariant + lockstep schedule replay (engine L) + conservation monitor"),
 "C07": ("Coq: the callback order of one action in closed form (BR* R* BE* BD* N*), every reducer once in registration "
         "order. Partial: non-overlap of consecutive actions holds by construction of the single reducer thread of the "
         "model; decided by engine L (runtime registration from other threads) and the C07 monitor.", "5 C07",
         "Coq pure theorem + lockstep schedule replay (engine L) + phase monitor"),
 "C08": ("Coq: in every reachable world the state is the latest write-back and every returned get_state returned the "
         "latest write-back before its return (reads_ok over the whole history); write-backs only grow. Engine L places "
         "readers between every pair of reducer steps.", "5 C08",
         "Coq history invariant + lockstep schedule replay (engine L) + read monitor"),
})
CLAIMED.update({
 "C04": ("Coq, for every program, thread count, capacity, policy and schedule of the interleaving model: the close "
         "protocol (nothing is enqueued after close took the sender; the marker is last; the reducer leaves its loop "
         "with an empty queue), the barrier at the point where the pool join can return (reducer done, queue empty, under "
         "BlockOnFull enqueued = taken) and finality (a stopped world stays stopped along every continuation: no "
         "reducer-context callback, effect run, queue traffic, write-back or accepted dispatch is ever added). Partial: "
         "channeled deliveries after stop and the 3 s timeout are outside the theorem. Engine L constructs the races "
         "(dispatcher blocked in a full queue while close waits for TX, every backlog, probes that stop waits).",
         "5 C04", "Coq invariants (close protocol, barrier, finality) + lockstep schedule replay with probes (engine L) + monitor"),
 "C15": ("In the model dropping a DroppableStore is the stop() step sequence, so the C04 theorems hold verbatim; the "
         "content is the correspondence: engine L replays schedules with drop(DroppableStore) in place of stop() "
         "(backlogs, clones used concurrently) and the C04 monitor judges every observed history.", "5 C15",
         "Coq (C04 theorems instantiated) + lockstep schedule replay with drop (engine L) + monitor"),
})
REASON_TODO = "check not built yet in this revision (planned: see DESIGN.md section 5)"

props = [json.loads(l) for l in open(os.path.join(ROOT, "properties.jsonl"))]
checks, na = [], []
for p in props:
    pid = p["id"]
    if pid in CLAIMED:
        text, ref, tech = CLAIMED[pid]
        checks.append({
            "property_id": pid,
            "quick_cmd": "python3 check.py %s --tier quick" % pid,
            "thorough_cmd": "python3 check.py %s --tier thorough" % pid,
            "evidence_file": "/verif/evidence/%s.json" % pid,
            "replay_cmd_template": "python3 check.py %s --replay {path}" % pid,
            "engine": "coq+correspondence",
            "level_claimed": {"category": "proof", "text": text, "design_ref": ref},
            "level_note": NOTE,
            "technique": tech})
    else:
        na.append({"property_id": pid, "reason": REASON_TODO})
man = {
 "version": 1,
 "setup_cmd": "./setup.sh",
 "hooks": {"guard": "rs_store_verif",
           "enable": "RUSTFLAGS=\"--cfg rs_store_verif\" (set in /verif/harness/.cargo/config.toml)",
           "baseline_off_cmd": "cd /repo && cargo test --workspace --no-fail-fast --offline",
           "source_commits": hooks_commits, "add_only": True},
 "engines": [
  {"name": "coq", "path": "/verif/coq", "serves_properties": sorted(CLAIMED),
   "kind_free_text": "hand-written executable Gallina model + theorems (Coq 8.16.1), extracted to OCaml"},
  {"name": "driver", "path": "/verif/runner", "serves_properties": sorted(CLAIMED),
   "kind_free_text": "OCaml front end of the extracted model (scenario parser, schedule generation, monitors)"},
  {"name": "harness", "path": "/verif/harness", "serves_properties": sorted(CLAIMED),
   "kind_free_text": "Rust harness running the same scenarios on the real crate built from /repo with hooks"}],
 "checks": checks,
 "notes": "Model written by hand; tie to /repo = correspondence check on every run (DESIGN.md section 3).",
 "not_applicable": na}
json.dump(man, open(os.path.join(ROOT, "MANIFEST.json"), "w"), indent=1)
print(len(checks), "checks;", len(na), "not claimed")
