//! Engine L: lockstep replay of a model-chosen schedule on the real threads, through a
//! cooperative scheduler installed behind the crate's `verif::point` / `verif::leave` hooks.
use crate::ops::*;
use crate::scen::*;
use crate::script::*;
use std::collections::{HashMap, VecDeque};
use std::sync::{Arc, Condvar, Mutex, OnceLock};
use std::time::{Duration, Instant};

#[derive(Clone, Debug, PartialEq)]
enum TS {
    Running,
    Parked { granted: bool },
    Finished,
}

struct Inner {
    lockstep: bool,
    threads: HashMap<i64, TS>,
    labels: HashMap<i64, String>,
    newcomers: VecDeque<(u64, String)>,
    assigned: HashMap<u64, i64>,
}

pub struct Sched {
    inner: Mutex<Inner>,
    cv: Condvar,
}

static SCHED: OnceLock<Arc<Sched>> = OnceLock::new();

pub fn sched() -> Arc<Sched> {
    SCHED
        .get_or_init(|| {
            Arc::new(Sched {
                inner: Mutex::new(Inner {
                    lockstep: false,
                    threads: HashMap::new(),
                    labels: HashMap::new(),
                    newcomers: VecDeque::new(),
                    assigned: HashMap::new(),
                }),
                cv: Condvar::new(),
            })
        })
        .clone()
}

/// logical id -2: a thread the scheduler leaves alone (the harness main thread)
pub const EXEMPT: i64 = -2;

impl Sched {
    pub fn point(&self, label: &str) {
        let mut g = self.inner.lock().unwrap();
        if !g.lockstep {
            return;
        }
        let mut logical = LOGICAL.with(|c| c.get());
        if logical == EXEMPT {
            return;
        }
        if label == "task.start" {
            logical = -1; // pool threads are reused: every task is a new logical thread
        }
        if logical < 0 {
            let me = thread_no();
            g.newcomers.push_back((me, label.to_string()));
            self.cv.notify_all();
            loop {
                if let Some(l) = g.assigned.remove(&me) {
                    logical = l;
                    break;
                }
                if !g.lockstep {
                    return;
                }
                g = self.cv.wait(g).unwrap();
            }
            LOGICAL.with(|c| c.set(logical));
        }
        g.threads.insert(logical, TS::Parked { granted: false });
        g.labels.insert(logical, label.to_string());
        self.cv.notify_all();
        loop {
            if let Some(TS::Parked { granted: true }) = g.threads.get(&logical) {
                break;
            }
            if !g.lockstep {
                break;
            }
            g = self.cv.wait(g).unwrap();
        }
        g.threads.insert(logical, TS::Running);
    }

    pub fn leave(&self, _label: &str) {
        let mut g = self.inner.lock().unwrap();
        let logical = LOGICAL.with(|c| c.get());
        if logical >= 0 {
            if g.lockstep {
                g.threads.insert(logical, TS::Finished);
                g.labels.insert(logical, "finished".to_string());
            }
            LOGICAL.with(|c| c.set(-1));
            self.cv.notify_all();
        }
    }

    fn reset(&self, lockstep: bool) {
        let mut g = self.inner.lock().unwrap();
        g.lockstep = lockstep;
        g.threads.clear();
        g.labels.clear();
        g.newcomers.clear();
        g.assigned.clear();
        self.cv.notify_all();
    }

    fn free_run(&self) {
        let mut g = self.inner.lock().unwrap();
        g.lockstep = false;
        self.cv.notify_all();
    }

    /// wait for an unregistered thread to arrive at its first point and give it a logical id
    fn adopt(&self, logical: i64, timeout: Duration) -> Option<String> {
        let t0 = Instant::now();
        let mut g = self.inner.lock().unwrap();
        loop {
            if let Some((os, label)) = g.newcomers.pop_front() {
                g.assigned.insert(os, logical);
                self.cv.notify_all();
                // wait until it is parked under its new name
                loop {
                    if let Some(TS::Parked { .. }) = g.threads.get(&logical) {
                        return Some(label);
                    }
                    if t0.elapsed() > timeout {
                        return None;
                    }
                    let (g2, _) = self.cv.wait_timeout(g, Duration::from_millis(20)).unwrap();
                    g = g2;
                }
            }
            if t0.elapsed() > timeout {
                return None;
            }
            let (g2, _) = self.cv.wait_timeout(g, Duration::from_millis(20)).unwrap();
            g = g2;
        }
    }

    /// wait until `logical` is parked (not yet granted) or finished
    fn wait_settled(&self, logical: i64, timeout: Duration) -> Option<String> {
        let t0 = Instant::now();
        let mut g = self.inner.lock().unwrap();
        loop {
            match g.threads.get(&logical) {
                Some(TS::Parked { granted: false }) | Some(TS::Finished) => {
                    return Some(g.labels.get(&logical).cloned().unwrap_or_default());
                }
                _ => {}
            }
            if t0.elapsed() > timeout {
                return None;
            }
            let (g2, _) = self.cv.wait_timeout(g, Duration::from_millis(20)).unwrap();
            g = g2;
        }
    }

    fn grant(&self, logical: i64) -> bool {
        let mut g = self.inner.lock().unwrap();
        match g.threads.get(&logical) {
            Some(TS::Parked { granted: false }) => {
                g.threads.insert(logical, TS::Parked { granted: true });
                self.cv.notify_all();
                true
            }
            _ => false,
        }
    }

    fn unexpected_newcomer(&self) -> Option<String> {
        let g = self.inner.lock().unwrap();
        g.newcomers.front().map(|(_, l)| l.clone())
    }

    fn unfinished(&self) -> Vec<(i64, String)> {
        let g = self.inner.lock().unwrap();
        let mut v: Vec<(i64, String)> = g
            .threads
            .iter()
            .filter(|(_, s)| **s != TS::Finished)
            .map(|(t, _)| (*t, g.labels.get(t).cloned().unwrap_or_default()))
            .collect();
        v.sort();
        v
    }
}

/// park point used by the harness's own client threads and effect bodies
pub fn cb_point(label: &str) {
    sched().point(label);
}

pub fn install_hook() {
    let s = sched();
    rs_store::verif::set_hook(Some(Arc::new(move |label: &'static str, is_leave: bool| {
        if is_leave {
            s.leave(label);
        } else {
            s.point(label);
        }
    })));
}

const STEP_TIMEOUT: Duration = Duration::from_secs(10);
const PROBE_WINDOW: Duration = Duration::from_millis(150);

struct Cursor {
    pos: HashMap<i64, usize>,
}

fn events_of(ctx: &Arc<RunCtx>, cur: &mut Cursor, logical: i64) -> String {
    let log = ctx.log.lock().unwrap();
    let start = *cur.pos.get(&logical).unwrap_or(&0);
    let mut out = String::new();
    let mut last = start;
    for (i, e) in log.iter().enumerate().skip(start) {
        if e.logical == logical {
            out.push_str(" ; ");
            out.push_str(&e.text);
            last = i + 1;
        }
    }
    cur.pos.insert(logical, last.max(start));
    out
}

/// runs one scenario under the schedule; prints the observed transcript. Returns false when
/// threads were left behind (the caller must not run further scenarios in this process).
pub fn run_one(sc: &Scenario, schedule: &[String]) -> bool {
    let s = sched();
    s.reset(true);
    LOGICAL.with(|c| c.set(EXEMPT));
    let ctx = RunCtx::new();
    let env = Arc::new(Env::new(ctx.clone(), sc.clone()));
    let mut cur = Cursor { pos: HashMap::new() };
    // build the store: the reducer thread arrives at its recv
    let store = build_store(&ctx, sc);
    if s.adopt(100, STEP_TIMEOUT).is_none() {
        println!("ERROR reducer thread did not arrive");
    }
    // initial subscribers
    for d in &sc.init_subs {
        match d {
            SubDecl::Direct(sid) => env.add_direct(*sid),
            SubDecl::Selector(sid, sel) => env.add_selector(*sid, *sel),
            SubDecl::Chan(sid, cap, pol) => {
                env.add_channeled(*sid, *cap, *pol);
                if s.adopt(201 + 2 * (*sid as i64), STEP_TIMEOUT).is_none() {
                    println!("ERROR channeled thread of {} did not arrive", sid);
                }
            }
        }
    }
    // client threads
    let mut handles = vec![];
    for (tid, ops) in &sc.threads {
        let (tid, ops, env2) = (*tid as i64, ops.clone(), env.clone());
        let h = std::thread::Builder::new()
            .name(format!("client-{}", tid))
            .spawn(move || {
                LOGICAL.with(|c| c.set(tid));
                for op in &ops {
                    cb_point("client.op");
                    env2.exec_op(op, None);
                }
                sched().leave("client.done");
            })
            .unwrap();
        handles.push(h);
        if s.wait_settled(tid, STEP_TIMEOUT).is_none() {
            println!("ERROR client {} did not start", tid);
        }
    }
    // replay
    let mut aborted = false;
    for line in schedule {
        let head = line.split('|').next().unwrap();
        let w: Vec<&str> = head.split_whitespace().collect();
        if w.len() < 2 || w[0] == "END" {
            continue;
        }
        let tid: i64 = w[1].parse().unwrap();
        let mut news: Vec<i64> = vec![];
        let mut k = 2;
        while k + 1 < w.len() {
            if w[k] == "NEW" {
                news.push(w[k + 1].parse().unwrap());
            }
            k += 1;
        }
        match w[0] {
            "S" | "F" => {
                if w[0] == "S" {
                    if s.wait_settled(tid, Duration::from_secs(2)).is_none() || !s.grant(tid) {
                        println!("S {} NOT-PARKED", tid);
                        aborted = true;
                        break;
                    }
                }
                // new threads first: the granted thread may wait for nothing, but a new thread
                // must be adopted before it can park
                let mut newtxt = String::new();
                for n in &news {
                    match s.adopt(*n, STEP_TIMEOUT) {
                        Some(_) => newtxt.push_str(&format!(" NEW {}", n)),
                        None => newtxt.push_str(&format!(" MISSING-THREAD {}", n)),
                    }
                }
                match s.wait_settled(tid, STEP_TIMEOUT) {
                    Some(label) => {
                        if let Some(l) = s.unexpected_newcomer() {
                            newtxt.push_str(&format!(" UNEXPECTED-THREAD@{}", l));
                        }
                        println!("{} {} {}{} |{}", w[0], tid, label, newtxt, events_of(&ctx, &mut cur, tid));
                    }
                    None => {
                        println!("{} {} STUCK{} |{}", w[0], tid, newtxt, events_of(&ctx, &mut cur, tid));
                        aborted = true;
                        break;
                    }
                }
            }
            "P" => {
                if s.wait_settled(tid, Duration::from_secs(2)).is_none() || !s.grant(tid) {
                    println!("P {} NOT-PARKED", tid);
                    aborted = true;
                    break;
                }
                let long = w.get(2) == Some(&"blocked-long");
                let window = if long { Duration::from_millis(1300) } else { PROBE_WINDOW };
                match s.wait_settled(tid, window) {
                    None => println!("P {} {}", tid, if long { "blocked-long" } else { "blocked" }),
                    Some(label) => {
                        println!("P {} arrived {} |{}", tid, label, events_of(&ctx, &mut cur, tid));
                        aborted = true;
                        break;
                    }
                }
            }
            _ => {}
        }
    }
    if aborted {
        // follow-real mode: the schedule cannot be followed any further; let the real threads run
        // on their own for a moment so that the history shows what the code does from here
        println!("ABORTED");
        s.free_run();
        let t0 = Instant::now();
        while t0.elapsed() < Duration::from_millis(1500) {
            if handles.iter().all(|h| h.is_finished()) {
                break;
            }
            std::thread::sleep(Duration::from_millis(5));
        }
    }
    // final observations (before the cleanup disturbs anything)
    let unfinished = if aborted {
        handles
            .iter()
            .enumerate()
            .filter(|(_, h)| !h.is_finished())
            .map(|(i, _)| (sc.threads[i].0 as i64, "free-run".to_string()))
            .collect()
    } else {
        s.unfinished()
    };
    println!("END state={}", state_text(&store.get_state()));
    println!("END metrics {}", metrics_text(&store));
    println!(
        "END unfinished={}",
        if unfinished.is_empty() {
            "-".to_string()
        } else {
            unfinished.iter().map(|(t, l)| format!("{}@{}", t, l)).collect::<Vec<_>>().join(",")
        }
    );
    // the raw log in its global order (for the monitors; not compared with the model)
    for e in ctx.log.lock().unwrap().iter() {
        println!("L {} {} {}", e.logical, e.thread, e.text);
    }
    // cleanup: let everything run freely, stop the store, collect the threads
    s.free_run();
    env.cleanup();
    let t0 = Instant::now();
    let stopper = {
        let st = store.clone();
        std::thread::spawn(move || {
            LOGICAL.with(|c| c.set(EXEMPT));
            st.stop();
        })
    };
    let mut clean = true;
    handles.push(stopper);
    for h in handles {
        while !h.is_finished() {
            if t0.elapsed() > Duration::from_millis(4500) {
                clean = false;
                break;
            }
            std::thread::sleep(Duration::from_millis(2));
        }
        if h.is_finished() {
            let _ = h.join();
        }
    }
    clean
}

/// input: scenarios separated by "---"; schedule lines start with "@ "
pub fn run_lock(input: &str) {
    install_hook();
    let mut blocks: Vec<String> = vec![];
    let mut cur = String::new();
    for line in input.lines() {
        if line.trim() == "---" {
            blocks.push(std::mem::take(&mut cur));
        } else {
            cur.push_str(line);
            cur.push('\n');
        }
    }
    if !cur.trim().is_empty() {
        blocks.push(cur);
    }
    let total = blocks.len();
    for (i, b) in blocks.iter().enumerate() {
        let mut sc = Scenario::new();
        let mut schedule = vec![];
        for line in b.lines() {
            if let Some(rest) = line.strip_prefix("@ ") {
                schedule.push(rest.to_string());
            } else {
                sc.parse_line(line);
            }
        }
        let clean = run_one(&sc, &schedule);
        println!("---");
        if !clean && i + 1 < total {
            // threads were left behind: this process must not be reused
            println!("BATCH-ABORTED {}", i + 1);
            use std::io::Write;
            std::io::stdout().flush().unwrap();
            std::process::exit(3);
        }
    }
    use std::io::Write;
    std::io::stdout().flush().unwrap();
    // leaked threads (if any) must not keep the process alive
    std::process::exit(0);
}
