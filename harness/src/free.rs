//! Engine F: free-running real threads (hooks inert apart from labelling the store's own
//! threads); the global log is judged by the property monitors.
use crate::ops::*;
use crate::scen::*;
use crate::script::*;
use std::collections::HashMap;
use std::sync::atomic::{AtomicBool, AtomicI64, Ordering};
use std::sync::Arc;
use std::time::{Duration, Instant};

static NEXT_WORKER: AtomicI64 = AtomicI64::new(1000);

/// a pass-through hook that only gives the store's own threads their logical names
pub fn install_labeller() {
    rs_store::verif::set_hook(Some(Arc::new(|label: &'static str, is_leave: bool| {
        if is_leave {
            if label == "task.end" || label == "reducer.done" || label == "chan.thread.done" {
                LOGICAL.with(|c| c.set(-1));
            }
            return;
        }
        let cur = LOGICAL.with(|c| c.get());
        if label == "task.start" {
            LOGICAL.with(|c| c.set(NEXT_WORKER.fetch_add(1, Ordering::SeqCst)));
        } else if cur == -1 && label == "chan.recv" {
            let t = std::thread::current();
            let name = t.name().unwrap_or("");
            if name.contains("-pool_thread_") {
                LOGICAL.with(|c| c.set(100));
            } else if name.contains("-channeled-subscriber") {
                LOGICAL.with(|c| c.set(299));
            }
        }
    })));
}

pub fn run_one(sc: &Scenario) -> bool {
    run_stores(&[sc.clone()])
}

/// one or two stores in the same process; with two, a `forward <sid>` line of the first makes its
/// direct subscriber <sid> dispatch (action + 50000) to the second store from inside on_notify
pub fn run_stores(scs: &[Scenario]) -> bool {
    let sc = &scs[0];
    LOGICAL.with(|c| c.set(-2));
    let mut readers = 0usize;
    let mut delays: HashMap<(String, u32, u32), u64> = HashMap::new();
    let mut cbread = false;
    let mut slow: u64 = 0;
    for (k, rest) in &sc.extra {
        if k == "free" && rest.len() >= 2 && rest[0] == "readers" {
            readers = rest[1].parse().unwrap_or(0);
        }
        if k == "free" && !rest.is_empty() && rest[0] == "cbread" {
            cbread = true;
        }
        if k == "free" && rest.len() >= 2 && rest[0] == "slowclone" {
            slow = rest[1].parse().unwrap_or(0);
        }
        if k == "delay" && rest.len() >= 4 {
            delays.insert(
                (rest[0].clone(), rest[1].parse().unwrap_or(0), rest[2].parse().unwrap_or(0)),
                rest[3].parse().unwrap_or(0),
            );
        }
    }
    let ctx = Arc::new(RunCtx {
        log: std::sync::Mutex::new(Vec::new()),
        mirror: std::sync::Mutex::new(HashMap::new()),
        store: std::sync::Mutex::new(None),
        gate: std::sync::Mutex::new(None),
        read_state_in_callbacks: cbread,
        mw_dispatch: std::sync::Mutex::new(HashMap::new()),
        cb_unsub: std::sync::Mutex::new(HashMap::new()),
        unsub_fn: std::sync::Mutex::new(None),
    });
    for (k, rest) in &sc.extra {
        // mwd <middleware> <r|e|d> <action> <dispatched action>
        if k == "mwd" && rest.len() >= 4 {
            if let (Ok(m), Some(h), Ok(a), Ok(b)) =
                (rest[0].parse::<u32>(), rest[1].chars().next(), rest[2].parse(), rest[3].parse())
            {
                ctx.mw_dispatch.lock().unwrap().insert((m, h, a), b);
            }
        }
    }
    if !delays.is_empty() {
        let d = delays.clone();
        *ctx.gate.lock().unwrap() = Some(Arc::new(move |kind: &str, id: u32, a: u32| {
            if let Some(us) = d.get(&(kind.to_string(), id, a)).or_else(|| d.get(&(kind.to_string(), id, 0))) {
                std::thread::sleep(Duration::from_micros(*us));
            }
        }));
    }
    SLOW_CLONE_NS.store(slow, Ordering::SeqCst);
    let env = Arc::new(Env::new(ctx.clone(), sc.clone()));
    for (k, rest) in &sc.extra {
        // cbun <subscriber> <action> <target>: inside its on_notify for <action> the (direct or
        // channeled) subscriber calls unsubscribe() of <target> (possibly itself)
        if k == "cbun" && rest.len() >= 3 {
            if let (Ok(s0), Ok(a), Ok(t)) = (rest[0].parse::<u32>(), rest[1].parse(), rest[2].parse::<u32>()) {
                ctx.cb_unsub.lock().unwrap().insert((s0, a), t);
            }
        }
    }
    {
        let env2 = env.clone();
        *ctx.unsub_fn.lock().unwrap() = Some(Arc::new(move |t: u32| env2.exec_op(&format!("un:{}", t), None)));
    }
    let store = build_store(&ctx, sc);
    for d in &sc.init_subs {
        match d {
            SubDecl::Direct(sid) => env.add_direct(*sid),
            SubDecl::Selector(sid, sel) => env.add_selector(*sid, *sel),
            SubDecl::Chan(sid, cap, pol) => env.add_channeled(*sid, *cap, *pol),
        }
    }
    let done = Arc::new(AtomicBool::new(false));
    let start = Arc::new(std::sync::Barrier::new(sc.threads.len() + readers));
    let mut handles = vec![];
    for (tid, ops) in &sc.threads {
        let (tid, ops, env2, st) = (*tid as i64, ops.clone(), env.clone(), start.clone());
        handles.push(
            std::thread::Builder::new()
                .name(format!("client-{}", tid))
                .spawn(move || {
                    LOGICAL.with(|c| c.set(tid));
                    st.wait();
                    for op in &ops {
                        env2.exec_op(op, None);
                    }
                })
                .unwrap(),
        );
    }
    let mut reader_handles = vec![];
    for r in 0..readers {
        let (ctx2, st, done2, store2) = (ctx.clone(), start.clone(), done.clone(), store.clone());
        reader_handles.push(std::thread::spawn(move || {
            LOGICAL.with(|c| c.set(50 + r as i64));
            st.wait();
            let mut n = 0;
            while !done2.load(Ordering::SeqCst) && n < 400 {
                ctx2.log("INV gs".to_string());
                let s = store2.get_state();
                ctx2.log(format!("RET gs state={}", state_text(&s)));
                n += 1;
            }
        }));
    }
    // watchdog
    let t0 = Instant::now();
    let mut clean = true;
    for h in &handles {
        while !h.is_finished() {
            if t0.elapsed() > Duration::from_secs(10) {
                clean = false;
                break;
            }
            std::thread::sleep(Duration::from_micros(200));
        }
    }
    done.store(true, Ordering::SeqCst);
    let unfinished: Vec<String> = handles
        .iter()
        .enumerate()
        .filter(|(_, h)| !h.is_finished())
        .map(|(i, _)| format!("{}@free-run", sc.threads[i].0))
        .collect();
    if clean {
        for h in handles {
            let _ = h.join();
        }
        for h in reader_handles {
            let _ = h.join();
        }
        // a scenario that did not stop its store: stop it now (not part of the history's claims)
        ctx.log("HARNESS-CLEANUP".to_string());
        let t1 = Instant::now();
        // on its own thread: a store that hangs must not hang the harness
        let st2 = store.clone();
        let stopper = std::thread::spawn(move || st2.stop());
        while !stopper.is_finished() && t1.elapsed() < Duration::from_secs(8) {
            std::thread::sleep(Duration::from_micros(500));
        }
        if !stopper.is_finished() {
            ctx.log("CLEANUP-HUNG".to_string());
            clean = false;
        } else {
            let _ = stopper.join();
            if t1.elapsed().as_millis() >= 2500 {
                ctx.log("SLOWSTOP".to_string());
            }
        }
    }
    SLOW_CLONE_NS.store(0, Ordering::SeqCst);
    println!("END state={}", state_text(&store.get_state()));
    println!("END metrics {}", metrics_text(&store));
    println!("END unfinished={}", if unfinished.is_empty() { "-".to_string() } else { unfinished.join(",") });
    for e in ctx.log.lock().unwrap().iter() {
        println!("L {} {} {}", e.logical, e.thread, e.text);
    }
    env.cleanup();
    *ctx.unsub_fn.lock().unwrap() = None;
    clean
}

pub fn run_free(input: &str) {
    install_labeller();
    let scens = read_scenarios(input);
    let total = scens.len();
    for (i, sc) in scens.iter().enumerate() {
        let clean = run_one(sc);
        println!("---");
        if !clean && i + 1 < total {
            println!("BATCH-ABORTED {}", i + 1);
            use std::io::Write;
            std::io::stdout().flush().unwrap();
            std::process::exit(3);
        }
    }
    use std::io::Write;
    std::io::stdout().flush().unwrap();
    std::process::exit(0);
}

/// selector of a subscriber shared by two stores: the last action id modulo `modulus`
struct ModSelector {
    modulus: u32,
}

impl rs_store::Selector<State, u32> for ModSelector {
    fn select(&self, state: &State) -> u32 {
        match state.0.last() {
            None => 0,
            Some((_, a)) => (*a % 50000) % self.modulus,
        }
    }
}

/// a direct subscriber of store A that dispatches to store B from inside on_notify
struct Forwarder {
    sid: u32,
    ctx_a: Arc<RunCtx>,
    ctx_b: Arc<RunCtx>,
}

impl rs_store::Subscriber<State, Aid> for Forwarder {
    fn on_notify(&self, state: &State, action: &Aid) {
        self.ctx_a.log(format!("NOTIFY {} {} {}", self.sid, state_text(state), action));
        let saved = LOGICAL.with(|c| c.get());
        LOGICAL.with(|c| c.set(9100));
        dispatch_via(&self.ctx_b, Entry::Impl, 50000 + *action, None);
        LOGICAL.with(|c| c.set(saved));
    }
    fn on_unsubscribe(&self) {
        self.ctx_a.log(format!("UNSUB {}", self.sid));
    }
}

/// two stores in one process (C19): scenario A may contain `forward <sid>`
pub fn run_pair(sa: &Scenario, sb: &Scenario) -> bool {
    LOGICAL.with(|c| c.set(-2));
    SLOW_CLONE_NS.store(0, Ordering::SeqCst);
    let ctxs = [RunCtx::new(), RunCtx::new()];
    let scs = [sa.clone(), sb.clone()];
    let envs = [
        Arc::new(Env::new(ctxs[0].clone(), scs[0].clone())),
        Arc::new(Env::new(ctxs[1].clone(), scs[1].clone())),
    ];
    for k in 0..2 {
        let mut delays: HashMap<(String, u32, u32), u64> = HashMap::new();
        for (kk, rest) in &scs[k].extra {
            if kk == "delay" && rest.len() >= 4 {
                delays.insert(
                    (rest[0].clone(), rest[1].parse().unwrap_or(0), rest[2].parse().unwrap_or(0)),
                    rest[3].parse().unwrap_or(0),
                );
            }
        }
        if !delays.is_empty() {
            *ctxs[k].gate.lock().unwrap() = Some(Arc::new(move |kind: &str, id: u32, a: u32| {
                if let Some(us) = delays
                    .get(&(kind.to_string(), id, a))
                    .or_else(|| delays.get(&(kind.to_string(), id, 0)))
                {
                    std::thread::sleep(Duration::from_micros(*us));
                }
            }));
        }
    }
    let stores = [build_store(&ctxs[0], &scs[0]), build_store(&ctxs[1], &scs[1])];
    for k in 0..2 {
        for d in &scs[k].init_subs {
            match d {
                SubDecl::Direct(sid) => envs[k].add_direct(*sid),
                SubDecl::Selector(sid, sel) => envs[k].add_selector(*sid, *sel),
                SubDecl::Chan(sid, cap, pol) => envs[k].add_channeled(*sid, *cap, *pol),
            }
        }
    }
    for (kk, rest) in &scs[0].extra {
        // sharedsel <sid> <modulus> [<delay us>]: ONE SelectorSubscriber object registered with both
        // stores (selected value = last action id mod modulus); its deliveries are logged, in the
        // order in which they happen, in store A's log as `SCHANGE <sid> <value> <action>`
        if kk == "sharedsel" && rest.len() >= 2 {
            let sid: u32 = rest[0].parse().unwrap_or(95);
            let modulus: u32 = rest[1].parse().unwrap_or(2).max(1);
            let us: u64 = rest.get(2).and_then(|x| x.parse().ok()).unwrap_or(0);
            let c2 = ctxs[0].clone();
            let shared = Arc::new(rs_store::SelectorSubscriber::new(
                ModSelector { modulus },
                move |v: u32, a: Aid| {
                    if us > 0 {
                        std::thread::sleep(Duration::from_micros(us));
                    }
                    // SCHANGE, not CHANGE: the call may come from either store's reducer context
                    c2.log(format!("SCHANGE {} {} {}", sid, v, a));
                },
            ));
            let _ = stores[0].add_subscriber(shared.clone());
            let _ = stores[1].add_subscriber(shared);
        }
        if kk == "forward" && !rest.is_empty() {
            let sid: u32 = rest[0].parse().unwrap_or(90);
            let _ = stores[0].add_subscriber(Arc::new(Forwarder {
                sid,
                ctx_a: ctxs[0].clone(),
                ctx_b: ctxs[1].clone(),
            }));
        }
    }
    let n = scs[0].threads.len() + scs[1].threads.len();
    let start = Arc::new(std::sync::Barrier::new(n));
    let mut handles = vec![];
    for k in 0..2 {
        for (tid, ops) in &scs[k].threads {
            let (tid, ops, env2, st) = (*tid as i64, ops.clone(), envs[k].clone(), start.clone());
            handles.push(
                std::thread::Builder::new()
                    .name(format!("client-{}-{}", k, tid))
                    .spawn(move || {
                        LOGICAL.with(|c| c.set(tid));
                        st.wait();
                        for op in &ops {
                            env2.exec_op(op, None);
                        }
                    })
                    .unwrap(),
            );
        }
    }
    let t0 = Instant::now();
    let mut clean = true;
    for h in &handles {
        while !h.is_finished() {
            if t0.elapsed() > Duration::from_secs(10) {
                clean = false;
                break;
            }
            std::thread::sleep(Duration::from_micros(200));
        }
    }
    let stuck = handles.iter().filter(|h| !h.is_finished()).count();
    if clean {
        for h in handles {
            let _ = h.join();
        }
        for k in 0..2 {
            ctxs[k].log("HARNESS-CLEANUP".to_string());
            let t1 = Instant::now();
            let st2 = stores[k].clone();
            let stopper = std::thread::spawn(move || st2.stop());
            while !stopper.is_finished() && t1.elapsed() < Duration::from_secs(8) {
                std::thread::sleep(Duration::from_micros(500));
            }
            if !stopper.is_finished() {
                ctxs[k].log("CLEANUP-HUNG".to_string());
                clean = false;
            } else {
                let _ = stopper.join();
                if t1.elapsed().as_millis() >= 2500 {
                    ctxs[k].log("SLOWSTOP".to_string());
                }
            }
        }
    }
    for k in 0..2 {
        println!("END state={}", state_text(&stores[k].get_state()));
        println!("END metrics {}", metrics_text(&stores[k]));
        println!("END unfinished={}", if stuck == 0 { "-".to_string() } else { format!("{}@free-run", stuck) });
        for e in ctxs[k].log.lock().unwrap().iter() {
            println!("L {} {} {}", e.logical, e.thread, e.text);
        }
        println!("---");
        envs[k].cleanup();
    }
    clean
}

/// input: pairs of scenarios; the two scenarios of a pair are separated by a line "===",
/// pairs by "---"; output: two blocks per pair
pub fn run_free2(input: &str) {
    install_labeller();
    let mut pairs: Vec<(String, String)> = vec![];
    let (mut a, mut b, mut second) = (String::new(), String::new(), false);
    for line in input.lines() {
        if line.trim() == "---" {
            pairs.push((std::mem::take(&mut a), std::mem::take(&mut b)));
            second = false;
        } else if line.trim() == "===" {
            second = true;
        } else if second {
            b.push_str(line);
            b.push('\n');
        } else {
            a.push_str(line);
            a.push('\n');
        }
    }
    let total = pairs.len();
    for (i, (ta, tb)) in pairs.iter().enumerate() {
        let sa = read_scenarios(ta).into_iter().next().unwrap_or_else(Scenario::new);
        let sb = read_scenarios(tb).into_iter().next().unwrap_or_else(Scenario::new);
        let clean = run_pair(&sa, &sb);
        if !clean && i + 1 < total {
            println!("BATCH-ABORTED {}", i + 1);
            use std::io::Write;
            std::io::stdout().flush().unwrap();
            std::process::exit(3);
        }
    }
    use std::io::Write;
    std::io::stdout().flush().unwrap();
    std::process::exit(0);
}
