//! Execution of client operations (the tokens of a scenario's thread programs) on the real store.
use crate::lock::cb_point;
use crate::scen::*;
use crate::script::*;
use rs_store::{Dispatcher, DroppableStore, Subscription};
use std::collections::HashMap;
use std::sync::{Arc, Mutex};

/// a subscription handle shared between client threads. `Subscription` is `Send` only; the
/// handles the store returns are closures over `Arc<Mutex<..>>` state and are safe to call
/// from several threads (the harness never moves them while another thread uses them).
pub struct SharedSub(pub Box<dyn Subscription>);
unsafe impl Sync for SharedSub {}

type Iter = Box<dyn Iterator<Item = (State, Aid)> + Send>;

pub struct Env {
    pub ctx: Arc<RunCtx>,
    pub sc: Scenario,
    pub subs: Mutex<HashMap<u32, Arc<SharedSub>>>,
    pub iters: Mutex<HashMap<u32, Arc<Mutex<Option<Iter>>>>>,
    /// iterators that returned None or were dropped
    pub iter_done: Mutex<Vec<u32>>,
}

fn metrics_result(store: &Store) -> String {
    metrics_text(store).replace(' ', ",")
}

impl Env {
    pub fn new(ctx: Arc<RunCtx>, sc: Scenario) -> Env {
        Env { ctx, sc, subs: Mutex::new(HashMap::new()), iters: Mutex::new(HashMap::new()), iter_done: Mutex::new(vec![]) }
    }

    fn store(&self) -> Store {
        self.ctx.store().expect("store built")
    }

    pub fn add_direct(&self, sid: u32) {
        let sub = self.store().add_subscriber(Arc::new(SSubscriber { sid, ctx: self.ctx.clone() }));
        self.subs.lock().unwrap().insert(sid, Arc::new(SharedSub(sub)));
    }

    pub fn add_selector(&self, sid: u32, sel: u32) {
        let table = self.sc.sels.get(&sel).cloned().unwrap_or_default();
        let c2 = self.ctx.clone();
        let sub = self.store().subscribe_with_selector(SSelector { table }, move |v: u32, a: Aid| {
            c2.gate("change", sid, a);
            c2.log(format!("CHANGE {} {} {}", sid, v, a));
        });
        self.subs.lock().unwrap().insert(sid, Arc::new(SharedSub(sub)));
    }

    pub fn add_channeled(&self, sid: u32, cap: usize, pol: u8) {
        let sub = self
            .store()
            .subscribed_with(cap, policy_of(pol), Box::new(SSubscriber { sid, ctx: self.ctx.clone() }))
            .expect("subscribed_with");
        self.subs.lock().unwrap().insert(sid, Arc::new(SharedSub(sub)));
    }

    /// drop what the clients still hold (after the scheduler went to free-run)
    pub fn cleanup(&self) {
        // iterators are leaked on purpose: dropping one may block (known finding F5)
        let its: Vec<_> = self.iters.lock().unwrap().drain().collect();
        std::mem::forget(its);
    }

    /// executes one op token; INV/RET are logged in the model's format
    pub fn exec_op(&self, op: &str, dispatcher: Option<&dyn Dispatcher<Aid>>) {
        let ctx = &self.ctx;
        let p: Vec<&str> = op.split(':').collect();
        match p.as_slice() {
            ["panic"] => {
                ctx.log("PANIC".to_string());
                std::panic::resume_unwind(Box::new("scripted panic"));
            }
            ["gs"] => {
                ctx.log("INV gs".to_string());
                cb_point("client.call");
                let s = self.store().get_state();
                ctx.log(format!("RET gs state={}", state_text(&s)));
            }
            ["gm"] => {
                ctx.log("INV gm".to_string());
                cb_point("client.call");
                let m = metrics_result(&self.store());
                ctx.log(format!("RET gm metrics={}", m));
            }
            ["ar", j] => {
                ctx.log(format!("INV {}", op));
                cb_point("client.call");
                self.store().add_reducer(make_reducer(ctx, &self.sc, j.parse().unwrap()));
                ctx.log(format!("RET {} unit", op));
            }
            ["am", j] => {
                ctx.log(format!("INV {}", op));
                cb_point("client.call");
                self.store().add_middleware(make_middleware(ctx, &self.sc, j.parse().unwrap()));
                ctx.log(format!("RET {} unit", op));
            }
            ["as", s] => {
                ctx.log(format!("INV {}", op));
                self.add_direct(s.parse().unwrap());
                ctx.log(format!("RET {} unit", op));
            }
            ["ss", s, k] => {
                ctx.log(format!("INV {}", op));
                self.add_selector(s.parse().unwrap(), k.parse().unwrap());
                ctx.log(format!("RET {} unit", op));
            }
            ["sc", s, c, pol] => {
                ctx.log(format!("INV {}", op));
                self.add_channeled(s.parse().unwrap(), c.parse().unwrap(), policy_code(pol));
                ctx.log(format!("RET {} unit", op));
            }
            ["un", s] => {
                ctx.log(format!("INV {}", op));
                let h = self.subs.lock().unwrap().get(&s.parse::<u32>().unwrap()).cloned();
                match h {
                    Some(h) => h.0.unsubscribe(),
                    None => cb_point("subs.unsub"), // never registered: nothing to call
                }
                ctx.log(format!("RET {} unit", op));
            }
            ["it", s] => {
                ctx.log(format!("INV {}", op));
                let it: Iter = rs_store::verif::iter_with(
                    &self.store(),
                    1,
                    rs_store::BackpressurePolicy::BlockOnFull,
                );
                self.iters.lock().unwrap().insert(s.parse().unwrap(), Arc::new(Mutex::new(Some(it))));
                ctx.log(format!("RET {} unit", op));
            }
            ["itw", s, c, pol] => {
                ctx.log(format!("INV {}", op));
                let it: Iter = rs_store::verif::iter_with(
                    &self.store(),
                    c.parse().unwrap(),
                    policy_of(policy_code(pol)),
                );
                self.iters.lock().unwrap().insert(s.parse().unwrap(), Arc::new(Mutex::new(Some(it))));
                ctx.log(format!("RET {} unit", op));
            }
            ["nx", s] => {
                ctx.log(format!("INV {}", op));
                let sid: u32 = s.parse().unwrap();
                let cell = self.iters.lock().unwrap().get(&sid).cloned();
                let done = self.iter_done.lock().unwrap().contains(&sid);
                if done || cell.is_none() {
                    cb_point("client.call");
                }
                let r = match cell {
                    Some(cell) => {
                        let mut g = cell.lock().unwrap();
                        match g.as_mut() {
                            Some(it) => it.next(),
                            None => None,
                        }
                    }
                    None => None,
                };
                match r {
                    Some((st, a)) => ctx.log(format!("RET {} item={}@{}", op, state_text(&st), a)),
                    None => {
                        self.iter_done.lock().unwrap().push(sid);
                        ctx.log(format!("RET {} item=none", op))
                    }
                }
            }
            ["dr", s] => {
                // `for x in iter`: next() until None; every round is a call of its own
                let mut first = true;
                loop {
                    if !first {
                        cb_point("client.op");
                    }
                    first = false;
                    ctx.log(format!("INV {}", op));
                    let sid: u32 = s.parse().unwrap();
                    let cell = self.iters.lock().unwrap().get(&sid).cloned();
                    let done = self.iter_done.lock().unwrap().contains(&sid);
                    if done || cell.is_none() {
                        cb_point("client.call");
                    }
                    let r = match cell {
                        Some(cell) => {
                            let mut g = cell.lock().unwrap();
                            match g.as_mut() {
                                Some(it) => it.next(),
                                None => None,
                            }
                        }
                        None => None,
                    };
                    match r {
                        Some((st, a)) => ctx.log(format!("RET {} item={}@{}", op, state_text(&st), a)),
                        None => {
                            self.iter_done.lock().unwrap().push(sid);
                            ctx.log(format!("RET {} item=none", op));
                            break;
                        }
                    }
                }
            }
            ["di", s] => {
                ctx.log(format!("INV {}", op));
                let sid: u32 = s.parse().unwrap();
                let cell = self.iters.lock().unwrap().get(&sid).cloned();
                let done = self.iter_done.lock().unwrap().contains(&sid);
                if done || cell.is_none() {
                    cb_point("client.call");
                }
                let taken = cell.and_then(|c| c.lock().unwrap().take());
                if let Some(it) = taken {
                    drop(it);
                }
                self.iter_done.lock().unwrap().push(sid);
                ctx.log(format!("RET {} unit", op));
            }
            ["close"] => {
                ctx.log("INV close".to_string());
                self.store().close();
                ctx.log("RET close unit".to_string());
            }
            ["stop"] => {
                ctx.log("INV stop".to_string());
                let t0 = std::time::Instant::now();
                self.store().stop();
                if t0.elapsed().as_millis() >= 2500 {
                    ctx.log("SLOWSTOP".to_string());
                }
                ctx.log("RET stop unit".to_string());
            }
            ["drop"] => {
                ctx.log("INV drop".to_string());
                let d = DroppableStore::new(self.store());
                let t0 = std::time::Instant::now();
                drop(d);
                if t0.elapsed().as_millis() >= 2500 {
                    ctx.log("SLOWSTOP".to_string());
                }
                ctx.log("RET drop unit".to_string());
            }
            ["pdrop"] => {
                // the DroppableStore is dropped while its owner unwinds from a panic
                ctx.log("INV drop".to_string());
                let d = DroppableStore::new(self.store());
                let t0 = std::time::Instant::now();
                let _ = std::panic::catch_unwind(std::panic::AssertUnwindSafe(move || {
                    let _owned = d;
                    std::panic::resume_unwind(Box::new("scripted panic"));
                }));
                if t0.elapsed().as_millis() >= 2500 {
                    ctx.log("SLOWSTOP".to_string());
                }
                ctx.log("RET drop unit".to_string());
            }
            ["th", k, body] => {
                ctx.log(format!("INV {}", op));
                cb_point("client.call");
                let (id, body, c2) = (k.parse::<u32>().unwrap(), body_of(body), ctx.clone());
                Dispatcher::dispatch_thunk(
                    &self.store(),
                    Box::new(move |d| {
                        c2.gate("effect", id, 0);
                        c2.log(format!("EFFECT {}", id));
                        run_body(&c2, &body, Some(&*d));
                    }),
                );
                ctx.log(format!("RET {} unit", op));
            }
            ["tk", k, body] => {
                ctx.log(format!("INV {}", op));
                cb_point("client.call");
                let (id, body, c2) = (k.parse::<u32>().unwrap(), body_of(body), ctx.clone());
                Dispatcher::dispatch_task(
                    &self.store(),
                    Box::new(move || {
                        c2.gate("effect", id, 0);
                        c2.log(format!("EFFECT {}", id));
                        run_body(&c2, &body, None);
                    }),
                );
                ctx.log(format!("RET {} unit", op));
            }
            [d] => {
                let q: Vec<&str> = d.split('.').collect();
                match q.as_slice() {
                    ["d", e, a] => {
                        dispatch_via(ctx, entry_of(e), a.parse().unwrap(), dispatcher);
                    }
                    _ => panic!("bad op {}", op),
                }
            }
            _ => panic!("bad op {}", op),
        }
    }
}
