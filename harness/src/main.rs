//! rs-store verification harness: runs scenarios against the real crate (built from /repo with
//! --cfg rs_store_verif) and prints what happened in the text format the model driver prints.
mod scen;
mod script;
mod pure;
mod lock;
mod ops;
mod free;

use std::io::Read;

fn main() {
    // scripted panics inside effects are expected; keep stderr quiet
    std::panic::set_hook(Box::new(|info| {
        let msg = info.to_string();
        if !msg.contains("scripted panic") && !msg.contains("no dispatch failed") {
            eprintln!("harness panic: {}", msg);
        }
    }));
    let args: Vec<String> = std::env::args().collect();
    let mut input = String::new();
    let mode = args.get(1).map(|s| s.as_str()).unwrap_or("");
    match mode {
        "seq" | "builder" | "selector" | "chanops" | "lock" | "free" | "free2" => {
            std::io::stdin().read_to_string(&mut input).unwrap();
        }
        _ => {}
    }
    match mode {
        "seq" => pure::run_seq(&input),
        "builder" => pure::run_builder(&input),
        "selector" => pure::run_selector(&input),
        "chanops" => pure::run_chanops(&input),
        "lock" => lock::run_lock(&input),
        "free" => free::run_free(&input),
        "free2" => free::run_free2(&input),
        _ => {
            eprintln!("usage: harness seq|builder|selector|chanops");
            std::process::exit(2);
        }
    }
}
