//! Scripted reducers, middlewares, subscribers and effects that log every call.
use crate::scen::*;
use rs_store::{
    DispatchOp, Dispatcher, Effect, Middleware, MiddlewareOp, Reducer, Selector, StoreError,
    StoreImpl, Subscriber,
};
use std::cell::Cell;
use std::collections::HashMap;
use std::sync::atomic::{AtomicU64, Ordering};
use std::sync::{Arc, Mutex};

pub type Store = Arc<StoreImpl<State, Aid>>;

static NEXT_THREAD: AtomicU64 = AtomicU64::new(1);
thread_local! {
    static THREAD_NO: Cell<u64> = Cell::new(0);
    /// logical thread id assigned by the lockstep scheduler (0 = none)
    pub static LOGICAL: Cell<i64> = Cell::new(-1);
}

/// a small per-OS-thread number (stable for the life of the thread)
pub fn thread_no() -> u64 {
    THREAD_NO.with(|c| {
        if c.get() == 0 {
            c.set(NEXT_THREAD.fetch_add(1, Ordering::SeqCst));
        }
        c.get()
    })
}

#[derive(Clone, Debug)]
pub struct LogEntry {
    pub seq: u64,
    pub thread: u64,
    pub tname: String,
    pub logical: i64,
    pub text: String,
}

/// everything the scripted callbacks of one scenario run share
pub struct RunCtx {
    pub log: Mutex<Vec<LogEntry>>,
    /// effect ids currently attached to an action (mirror of the store's effect list)
    pub mirror: Mutex<HashMap<Aid, Vec<u32>>>,
    /// the store, once built (tasks have no dispatcher argument)
    pub store: Mutex<Option<Store>>,
    /// called at the start of scripted callbacks: (kind, id, action)
    pub gate: Mutex<Option<Arc<dyn Fn(&str, u32, Aid) + Send + Sync>>>,
    /// whether callbacks read get_state() and log it
    pub read_state_in_callbacks: bool,
    /// engine F only: (middleware id, hook r|e|d, action) -> action the hook dispatches through the
    /// dispatcher it was handed (`mwd` scenario lines)
    pub mw_dispatch: Mutex<HashMap<(u32, char, Aid), Aid>>,
    /// engine F only: (subscriber id, action) -> subscriber id it unsubscribes from inside its
    /// on_notify (`cbun` scenario lines), and the function that performs the unsubscribe
    pub cb_unsub: Mutex<HashMap<(u32, Aid), u32>>,
    pub unsub_fn: Mutex<Option<Arc<dyn Fn(u32) + Send + Sync>>>,
}

impl RunCtx {
    pub fn new() -> Arc<RunCtx> {
        Arc::new(RunCtx {
            log: Mutex::new(Vec::new()),
            mirror: Mutex::new(HashMap::new()),
            store: Mutex::new(None),
            gate: Mutex::new(None),
            read_state_in_callbacks: false,
            mw_dispatch: Mutex::new(HashMap::new()),
            cb_unsub: Mutex::new(HashMap::new()),
            unsub_fn: Mutex::new(None),
        })
    }

    pub fn log(&self, text: String) {
        let mut l = self.log.lock().unwrap();
        let seq = l.len() as u64;
        l.push(LogEntry {
            seq,
            thread: thread_no(),
            tname: std::thread::current().name().unwrap_or("").to_string(),
            logical: LOGICAL.with(|c| c.get()),
            text,
        });
    }

    pub fn gate(&self, kind: &str, id: u32, a: Aid) {
        let g = self.gate.lock().unwrap().clone();
        if let Some(g) = g {
            g(kind, id, a);
        }
    }

    /// `cbun`: the subscriber unsubscribes another one (or itself) from inside its callback
    pub fn callback_unsubscribe(&self, sid: u32, a: Aid) {
        let target = self.cb_unsub.lock().unwrap().get(&(sid, a)).copied();
        if let Some(t) = target {
            let f = self.unsub_fn.lock().unwrap().clone();
            if let Some(f) = f {
                f(t);
            }
        }
    }

    pub fn store(&self) -> Option<Store> {
        self.store.lock().unwrap().clone()
    }

    pub fn take_log(&self) -> Vec<LogEntry> {
        std::mem::take(&mut *self.log.lock().unwrap())
    }
}

/// run the body of a task/thunk; returns normally or panics (BPanic)
pub fn run_body(ctx: &Arc<RunCtx>, body: &[Bop], dispatcher: Option<&dyn Dispatcher<Aid>>) {
    for op in body {
        match op {
            Bop::Nop => {}
            Bop::Panic => {
                crate::lock::cb_point("client.op");
                ctx.log("PANIC".to_string());
                std::panic::resume_unwind(Box::new("scripted panic"));
            }
            Bop::Dispatch(e, a) => {
                crate::lock::cb_point("client.op");
                dispatch_via(ctx, *e, *a, dispatcher);
            }
        }
    }
}

/// one dispatch call through the named entry point, logged as INV/RET
pub fn dispatch_via(
    ctx: &Arc<RunCtx>,
    e: Entry,
    a: Aid,
    dispatcher: Option<&dyn Dispatcher<Aid>>,
) -> bool {
    ctx.log(format!("INV d.{}.{}", entry_text(e), a));
    let store = ctx.store();
    let r = match (e, dispatcher, store) {
        (Entry::Dispatcher, Some(d), _) => d.dispatch(a).is_ok(),
        (Entry::Dispatcher, None, Some(st)) => Dispatcher::dispatch(&st, a).is_ok(),
        (Entry::Impl, _, Some(st)) => StoreImpl::dispatch(&st, a).is_ok(),
        (Entry::Trait, _, Some(st)) => rs_store::Store::dispatch(&*st, a).is_ok(),
        _ => false,
    };
    ctx.log(format!("RET d.{}.{} {}", entry_text(e), a, if r { "ok" } else { "err" }));
    r
}

pub fn make_effect(ctx: &Arc<RunCtx>, spec: &EffSpec) -> Effect<Aid> {
    let id = spec.id;
    let body = spec.body.clone();
    let ctx = ctx.clone();
    match spec.kind {
        EffKind::Action(a) => Effect::Action(a),
        EffKind::Task => Effect::Task(Box::new(move || {
            ctx.gate("effect", id, 0);
            ctx.log(format!("EFFECT {}", id));
            run_body(&ctx, &body, None);
        })),
        EffKind::Thunk => Effect::Thunk(Box::new(move |d| {
            ctx.gate("effect", id, 0);
            ctx.log(format!("EFFECT {}", id));
            run_body(&ctx, &body, Some(&*d));
        })),
        EffKind::Function => Effect::Function(
            format!("{}", id),
            Box::new(move || {
                ctx.gate("effect", id, 0);
                ctx.log(format!("EFFECT {}", id));
                run_body(&ctx, &body, None);
                Ok(Box::new(()))
            }),
        ),
    }
}

pub struct SReducer {
    pub sc: RScript,
    pub ctx: Arc<RunCtx>,
}

impl Reducer<State, Aid> for SReducer {
    fn reduce(&self, state: &State, action: &Aid) -> DispatchOp<State, Aid> {
        self.ctx.gate("reduce", self.sc.id, *action);
        let (d, e) = self.sc.table.get(action).cloned().unwrap_or((self.sc.default_dispatch, None));
        let mut ns = State(state.0.clone());
        ns.0.push((self.sc.id, *action));
        self.ctx.log(format!(
            "RED {} {} {} {} {}",
            state_text(state),
            action,
            if d { "D" } else { "K" },
            state_text(&ns),
            match &e {
                Some(e) => e.id.to_string(),
                None => "-".to_string(),
            }
        ));
        let eff = e.as_ref().map(|spec| {
            self.ctx.mirror.lock().unwrap().entry(*action).or_default().push(spec.id);
            make_effect(&self.ctx, spec)
        });
        if d {
            DispatchOp::Dispatch(ns, eff)
        } else {
            DispatchOp::Keep(ns, eff)
        }
    }
}

pub struct SMiddleware {
    pub sc: MwScript,
    pub ctx: Arc<RunCtx>,
}

impl SMiddleware {
    fn result(&self, v: Verdict) -> Result<MiddlewareOp, StoreError> {
        match v {
            Verdict::Continue => Ok(MiddlewareOp::ContinueAction),
            Verdict::Done => Ok(MiddlewareOp::DoneAction),
            Verdict::Break => Ok(MiddlewareOp::BreakChain),
            Verdict::Err => Err(StoreError::MiddlewareError(format!("scripted {}", self.sc.id))),
        }
    }

    /// `mwd`: dispatch from inside the hook, in the reducer context, through the handed dispatcher
    fn nested_dispatch(&self, hook: char, action: &Aid, d: &Arc<dyn Dispatcher<Aid>>) {
        let b = self.ctx.mw_dispatch.lock().unwrap().get(&(self.sc.id, hook, *action)).copied();
        if let Some(b) = b {
            self.ctx.log(format!("INV d.D.{}", b));
            let r = d.dispatch(b);
            self.ctx.log(format!("RET d.D.{} {}", b, if r.is_ok() { "ok" } else { "err" }));
        }
    }

    fn read_state(&self) {
        if self.ctx.read_state_in_callbacks {
            if let Some(st) = self.ctx.store() {
                self.ctx.log(format!("CBREAD {}", state_text(&st.get_state())));
            }
        }
    }
}

thread_local! {
    /// which hook of which middleware is running (for on_error, which has no context)
    static CUR_HOOK: Cell<&'static str> = Cell::new("?");
}

impl Middleware<State, Aid> for SMiddleware {
    fn before_reduce(
        &self,
        action: &Aid,
        state: &State,
        d: Arc<dyn Dispatcher<Aid>>,
    ) -> Result<MiddlewareOp, StoreError> {
        self.ctx.gate("br", self.sc.id, *action);
        let v = self.sc.br.get(action).copied().unwrap_or(Verdict::Continue);
        self.ctx.log(format!("BR {} {} {} {}", self.sc.id, action, state_text(state), v.text()));
        self.nested_dispatch('r', action, &d);
        CUR_HOOK.with(|c| c.set("r"));
        self.result(v)
    }

    fn before_effect(
        &self,
        action: &Aid,
        state: &State,
        effects: &mut Vec<Effect<Aid>>,
        d: Arc<dyn Dispatcher<Aid>>,
    ) -> Result<MiddlewareOp, StoreError> {
        self.ctx.gate("be", self.sc.id, *action);
        self.read_state();
        self.nested_dispatch('e', action, &d);
        let (v, rm) = self.sc.be.get(action).cloned().unwrap_or((Verdict::Continue, vec![]));
        let mut mirror = self.ctx.mirror.lock().unwrap();
        let ids = mirror.entry(*action).or_default();
        if ids.len() != effects.len() {
            self.ctx.log(format!(
                "ANOMALY effect list of action {} has {} entries, expected {}",
                action,
                effects.len(),
                ids.len()
            ));
        }
        let ein = ids.clone();
        // remove by id: positions in the mirror are positions in the real list
        let mut k = 0;
        while k < ids.len() {
            if rm.contains(&ids[k]) {
                ids.remove(k);
                if k < effects.len() {
                    effects.remove(k);
                }
            } else {
                k += 1;
            }
        }
        self.ctx.log(format!(
            "BE {} {} {} {} {} {}",
            self.sc.id,
            action,
            state_text(state),
            ids_text(&ein),
            ids_text(ids),
            v.text()
        ));
        CUR_HOOK.with(|c| c.set("e"));
        self.result(v)
    }

    fn before_dispatch(
        &self,
        action: &Aid,
        state: &State,
        d: Arc<dyn Dispatcher<Aid>>,
    ) -> Result<MiddlewareOp, StoreError> {
        self.ctx.gate("bd", self.sc.id, *action);
        self.read_state();
        self.nested_dispatch('d', action, &d);
        let v = self.sc.bd.get(action).copied().unwrap_or(Verdict::Continue);
        self.ctx.log(format!("BD {} {} {} {}", self.sc.id, action, state_text(state), v.text()));
        CUR_HOOK.with(|c| c.set("d"));
        self.result(v)
    }

    fn on_error(&self, _error: StoreError) {
        let h = CUR_HOOK.with(|c| c.get());
        self.ctx.log(format!("ERR {} {}", self.sc.id, h));
    }
}

pub struct SSubscriber {
    pub sid: u32,
    pub ctx: Arc<RunCtx>,
}

impl Subscriber<State, Aid> for SSubscriber {
    fn on_notify(&self, state: &State, action: &Aid) {
        self.ctx.gate("notify", self.sid, *action);
        if self.ctx.read_state_in_callbacks {
            if let Some(st) = self.ctx.store() {
                self.ctx.log(format!("CBREAD {}", state_text(&st.get_state())));
            }
        }
        self.ctx.log(format!("NOTIFY {} {} {}", self.sid, state_text(state), action));
        self.ctx.callback_unsubscribe(self.sid, *action);
    }

    fn on_unsubscribe(&self) {
        self.ctx.gate("unsub", self.sid, 0);
        self.ctx.log(format!("UNSUB {}", self.sid));
    }
}

pub struct SSelector {
    pub table: HashMap<Aid, u32>,
}

impl Selector<State, u32> for SSelector {
    fn select(&self, state: &State) -> u32 {
        match state.0.last() {
            None => 0,
            Some((_, a)) => self.table.get(a).copied().unwrap_or(0),
        }
    }
}

pub fn make_reducer(ctx: &Arc<RunCtx>, sc: &Scenario, id: u32) -> Box<dyn Reducer<State, Aid> + Send + Sync> {
    Box::new(SReducer { sc: sc.get_rscript(id), ctx: ctx.clone() })
}

pub fn make_middleware(
    ctx: &Arc<RunCtx>,
    sc: &Scenario,
    id: u32,
) -> Arc<dyn Middleware<State, Aid> + Send + Sync> {
    Arc::new(SMiddleware { sc: sc.get_mwscript(id), ctx: ctx.clone() })
}

/// build the store of a scenario through the public builder
pub fn build_store(ctx: &Arc<RunCtx>, sc: &Scenario) -> Store {
    let mut b = rs_store::StoreBuilder::new(State::default())
        .with_name(name_of(sc.name))
        .with_capacity(sc.cap)
        .with_policy(policy_of(sc.pol));
    if sc.init_reducers.is_empty() {
        b = b.without_reducer();
    } else {
        b = b.with_reducers(sc.init_reducers.iter().map(|j| make_reducer(ctx, sc, *j)).collect());
    }
    b = b.with_middlewares(sc.init_mws.iter().map(|i| make_middleware(ctx, sc, *i)).collect());
    let store = b.build().expect("scenario store builds");
    *ctx.store.lock().unwrap() = Some(store.clone());
    store
}

pub fn metrics_text(store: &Store) -> String {
    let m = store.get_metrics();
    format!(
        "received={} dropped={} reduced={} issued={} mw={} state_notified={} sub_notified={} errors={}",
        m.action_received,
        m.action_dropped,
        m.action_reduced,
        m.effect_issued,
        m.middleware_executed,
        m.state_notified,
        m.subscriber_notified,
        m.error_occurred
    )
}
