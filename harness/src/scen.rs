//! Scenario text format shared with the OCaml driver (runner/scen.ml).
use rs_store::BackpressurePolicy;
use std::collections::HashMap;

pub type Aid = u32;
/// the store's state: the log of (reducer id, action id) applications. `Clone` is user code; a
/// scenario may make it slow (`free slowclone <ns>`), which widens the windows in which the
/// store holds its state lock
#[derive(Debug, PartialEq, Eq, Default)]
pub struct State(pub Vec<(u32, u32)>);

pub static SLOW_CLONE_NS: std::sync::atomic::AtomicU64 = std::sync::atomic::AtomicU64::new(0);

impl Clone for State {
    fn clone(&self) -> Self {
        let ns = SLOW_CLONE_NS.load(std::sync::atomic::Ordering::Relaxed);
        if ns > 0 {
            let t0 = std::time::Instant::now();
            while (t0.elapsed().as_nanos() as u64) < ns {
                std::hint::spin_loop();
            }
        }
        State(self.0.clone())
    }
}

#[derive(Clone, Copy, Debug, PartialEq, Eq)]
pub enum Entry {
    Impl,
    Trait,
    Dispatcher,
}

#[derive(Clone, Debug)]
pub enum Bop {
    Dispatch(Entry, Aid),
    Panic,
    Nop,
}

#[derive(Clone, Debug)]
pub enum EffKind {
    Action(Aid),
    Task,
    Thunk,
    Function,
}

#[derive(Clone, Debug)]
pub struct EffSpec {
    pub id: u32,
    pub kind: EffKind,
    pub body: Vec<Bop>,
}

#[derive(Clone, Copy, Debug, PartialEq, Eq)]
pub enum Verdict {
    Continue,
    Done,
    Break,
    Err,
}

impl Verdict {
    pub fn parse(s: &str) -> Verdict {
        match s {
            "C" => Verdict::Continue,
            "D" => Verdict::Done,
            "B" => Verdict::Break,
            "E" => Verdict::Err,
            _ => panic!("bad verdict {}", s),
        }
    }
    pub fn text(&self) -> &'static str {
        match self {
            Verdict::Continue => "C",
            Verdict::Done => "D",
            Verdict::Break => "B",
            Verdict::Err => "E",
        }
    }
}

#[derive(Clone, Debug, Default)]
pub struct RScript {
    pub id: u32,
    pub default_dispatch: bool,
    pub table: HashMap<Aid, (bool, Option<EffSpec>)>,
}

#[derive(Clone, Debug, Default)]
pub struct MwScript {
    pub id: u32,
    pub br: HashMap<Aid, Verdict>,
    pub be: HashMap<Aid, (Verdict, Vec<u32>)>,
    pub bd: HashMap<Aid, Verdict>,
}

#[derive(Clone, Debug)]
pub enum SubDecl {
    Direct(u32),
    Selector(u32, u32),
    Chan(u32, usize, u8),
}

#[derive(Clone, Debug, Default)]
pub struct Scenario {
    pub cap: usize,
    pub pol: u8,
    pub name: u32,
    pub rscripts: Vec<RScript>,
    pub mwscripts: Vec<MwScript>,
    pub sels: HashMap<u32, HashMap<Aid, u32>>,
    pub init_reducers: Vec<u32>,
    pub init_mws: Vec<u32>,
    pub init_subs: Vec<SubDecl>,
    pub threads: Vec<(u32, Vec<String>)>,
    pub extra: Vec<(String, Vec<String>)>,
}

pub fn policy_code(s: &str) -> u8 {
    match s {
        "block" => 0,
        "oldest" => 1,
        "latest" => 2,
        _ => panic!("bad policy {}", s),
    }
}

pub fn policy_of(code: u8) -> BackpressurePolicy {
    match code {
        0 => BackpressurePolicy::BlockOnFull,
        1 => BackpressurePolicy::DropOldest,
        _ => BackpressurePolicy::DropLatest,
    }
}

pub fn policy_text(code: u8) -> &'static str {
    match code {
        0 => "block",
        1 => "oldest",
        _ => "latest",
    }
}

pub fn name_of(id: u32) -> String {
    match id {
        0 => "".to_string(),
        1 => "store".to_string(),
        n => format!("s{}", n),
    }
}

pub fn entry_of(s: &str) -> Entry {
    match s {
        "I" => Entry::Impl,
        "T" => Entry::Trait,
        "D" => Entry::Dispatcher,
        _ => panic!("bad entry {}", s),
    }
}

pub fn entry_text(e: Entry) -> &'static str {
    match e {
        Entry::Impl => "I",
        Entry::Trait => "T",
        Entry::Dispatcher => "D",
    }
}

pub fn ints(s: &str) -> Vec<u32> {
    if s == "-" || s.is_empty() {
        vec![]
    } else {
        s.split(',').map(|x| x.parse().unwrap()).collect()
    }
}

pub fn body_of(s: &str) -> Vec<Bop> {
    if s == "-" {
        return vec![];
    }
    s.split(',')
        .map(|op| {
            let p: Vec<&str> = op.split('.').collect();
            match p.as_slice() {
                ["d", e, a] => Bop::Dispatch(entry_of(e), a.parse().unwrap()),
                ["panic"] => Bop::Panic,
                ["nop"] => Bop::Nop,
                _ => panic!("bad body op {}", op),
            }
        })
        .collect()
}

fn eff_of(w: &[&str]) -> EffSpec {
    match w {
        ["e", k, "action", a] => EffSpec {
            id: k.parse().unwrap(),
            kind: EffKind::Action(a.parse().unwrap()),
            body: vec![],
        },
        ["e", k, kind, b] => EffSpec {
            id: k.parse().unwrap(),
            kind: match *kind {
                "task" => EffKind::Task,
                "thunk" => EffKind::Thunk,
                "func" => EffKind::Function,
                _ => panic!("bad effect kind {}", kind),
            },
            body: body_of(b),
        },
        _ => panic!("bad effect {:?}", w),
    }
}

pub fn state_text(s: &State) -> String {
    if s.0.is_empty() {
        "-".to_string()
    } else {
        s.0.iter().map(|(j, a)| format!("{}.{}", j, a)).collect::<Vec<_>>().join(",")
    }
}

pub fn ids_text(l: &[u32]) -> String {
    if l.is_empty() {
        "-".to_string()
    } else {
        l.iter().map(|x| x.to_string()).collect::<Vec<_>>().join(",")
    }
}

impl Scenario {
    pub fn new() -> Scenario {
        Scenario { cap: 16, pol: 0, name: 1, ..Default::default() }
    }

    fn rscript(&mut self, id: u32) -> &mut RScript {
        if let Some(i) = self.rscripts.iter().position(|r| r.id == id) {
            &mut self.rscripts[i]
        } else {
            self.rscripts.push(RScript { id, default_dispatch: true, table: HashMap::new() });
            self.rscripts.last_mut().unwrap()
        }
    }

    fn mwscript(&mut self, id: u32) -> &mut MwScript {
        if let Some(i) = self.mwscripts.iter().position(|r| r.id == id) {
            &mut self.mwscripts[i]
        } else {
            self.mwscripts.push(MwScript { id, ..Default::default() });
            self.mwscripts.last_mut().unwrap()
        }
    }

    pub fn get_rscript(&self, id: u32) -> RScript {
        self.rscripts
            .iter()
            .find(|r| r.id == id)
            .cloned()
            .unwrap_or(RScript { id, default_dispatch: true, table: HashMap::new() })
    }

    pub fn get_mwscript(&self, id: u32) -> MwScript {
        self.mwscripts
            .iter()
            .find(|r| r.id == id)
            .cloned()
            .unwrap_or(MwScript { id, ..Default::default() })
    }

    pub fn parse_line(&mut self, line: &str) {
        let w: Vec<&str> = line.split_whitespace().collect();
        if w.is_empty() || w[0].starts_with('#') {
            return;
        }
        match w.as_slice() {
            ["cap", c] => self.cap = c.parse().unwrap(),
            ["pol", p] => self.pol = policy_code(p),
            ["name", x] => self.name = x.parse().unwrap(),
            ["reducer", j, d] => self.rscript(j.parse().unwrap()).default_dispatch = *d == "D",
            ["r", j, a, d, rest @ ..] => {
                let e = if rest.is_empty() { None } else { Some(eff_of(rest)) };
                let r = self.rscript(j.parse().unwrap());
                // the first entry for an action wins (as the model's lookup)
                r.table.entry(a.parse().unwrap()).or_insert((*d == "D", e));
            }
            ["mw", i] => {
                self.mwscript(i.parse().unwrap());
            }
            ["v", i, h, a, v, rest @ ..] => {
                let a: Aid = a.parse().unwrap();
                let v = Verdict::parse(v);
                let rm = match rest {
                    ["rm", l] => ints(l),
                    [] => vec![],
                    _ => panic!("bad v line {}", line),
                };
                let m = self.mwscript(i.parse().unwrap());
                match *h {
                    "r" => {
                        m.br.entry(a).or_insert(v);
                    }
                    "e" => {
                        m.be.entry(a).or_insert((v, rm));
                    }
                    "d" => {
                        m.bd.entry(a).or_insert(v);
                    }
                    _ => panic!("bad hook {}", h),
                }
            }
            ["sel", s, a, v] => {
                self.sels
                    .entry(s.parse().unwrap())
                    .or_default()
                    .entry(a.parse().unwrap())
                    .or_insert(v.parse().unwrap());
            }
            ["init", "reducers", l] => self.init_reducers = ints(l),
            ["init", "mws", l] => self.init_mws = ints(l),
            ["sub", s, "direct"] => self.init_subs.push(SubDecl::Direct(s.parse().unwrap())),
            ["sub", s, "selector", k] => {
                self.init_subs.push(SubDecl::Selector(s.parse().unwrap(), k.parse().unwrap()))
            }
            ["sub", s, "chan", c, p] => self.init_subs.push(SubDecl::Chan(
                s.parse().unwrap(),
                c.parse().unwrap(),
                policy_code(p),
            )),
            ["t", t, ops @ ..] => {
                self.threads.push((t.parse().unwrap(), ops.iter().map(|s| s.to_string()).collect()))
            }
            [k, rest @ ..] => {
                self.extra.push((k.to_string(), rest.iter().map(|s| s.to_string()).collect()))
            }
            [] => {}
        }
    }
}

/// read scenarios separated by "---" lines
pub fn read_scenarios(text: &str) -> Vec<Scenario> {
    let mut out = vec![];
    let mut sc = Scenario::new();
    let mut any = false;
    for line in text.lines() {
        if line.trim() == "---" {
            if any {
                out.push(sc);
            }
            sc = Scenario::new();
            any = false;
        } else {
            if !line.trim().is_empty() {
                any = true;
            }
            sc.parse_line(line);
        }
    }
    if any {
        out.push(sc);
    }
    out
}
