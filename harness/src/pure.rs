//! Engine S: sequential differential runs through the public API.
use crate::scen::*;
use crate::script::*;
use rs_store::{Dispatcher, SelectorSubscriber, StoreBuilder, StoreImpl, Subscriber};
use std::collections::HashMap;
use std::sync::{Arc, Mutex};
use std::sync::atomic::{AtomicUsize, Ordering};
use std::time::{Duration, Instant};

/// how often a pool thread (the reducer loop) has arrived at its `recv`
static REDUCER_RECVS: AtomicUsize = AtomicUsize::new(0);

/// install a pass-through hook that counts the reducer's arrivals at `recv`
pub fn install_quiescence_hook() {
    rs_store::verif::set_hook(Some(Arc::new(|label: &'static str, _leave: bool| {
        if label == "chan.recv" {
            let t = std::thread::current();
            if t.name().map(|n| n.contains("-pool_thread_")).unwrap_or(false) {
                REDUCER_RECVS.fetch_add(1, Ordering::SeqCst);
            }
        }
    })));
}

/// wait until the reducer loop has come back to `recv` for the (n+1)-th time since `base`,
/// i.e. has completely processed n items
pub fn wait_processed(base: usize, n: usize) -> bool {
    let t0 = Instant::now();
    while REDUCER_RECVS.load(Ordering::SeqCst) < base + n + 1 {
        if t0.elapsed() > Duration::from_secs(20) {
            return false;
        }
        std::thread::sleep(Duration::from_micros(100));
    }
    true
}

pub fn recv_base() -> usize {
    REDUCER_RECVS.load(Ordering::SeqCst)
}

fn is_reducer_ctx_line(t: &str) -> bool {
    t.starts_with("BR ")
        || t.starts_with("RED ")
        || t.starts_with("BE ")
        || t.starts_with("BD ")
        || t.starts_with("ERR ")
        || t.starts_with("NOTIFY ")
        || t.starts_with("CHANGE ")
}

/// single-producer runs: thread 0 dispatches, then stop()
pub fn run_seq(input: &str) {
    install_quiescence_hook();
    for sc in read_scenarios(input) {
        let ctx = RunCtx::new();
        let base = recv_base();
        let mut dispatched = 0usize;
        let store = build_store(&ctx, &sc);
        for s in &sc.init_subs {
            match s {
                SubDecl::Direct(sid) => {
                    let _ = store.add_subscriber(Arc::new(SSubscriber { sid: *sid, ctx: ctx.clone() }));
                }
                SubDecl::Selector(sid, sel) => {
                    let table = sc.sels.get(sel).cloned().unwrap_or_default();
                    let (sid, c2) = (*sid, ctx.clone());
                    let _ = store.subscribe_with_selector(SSelector { table }, move |v: u32, a: Aid| {
                        c2.log(format!("CHANGE {} {} {}", sid, v, a));
                    });
                }
                SubDecl::Chan(..) => {}
            }
        }
        for (_, ops) in &sc.threads {
            for op in ops {
                let p: Vec<&str> = op.split('.').collect();
                if let ["d", e, a] = p.as_slice() {
                    let a: Aid = a.parse().unwrap();
                    match entry_of(e) {
                        Entry::Impl => StoreImpl::dispatch(&store, a).unwrap(),
                        Entry::Trait => rs_store::Store::dispatch(&*store, a).unwrap(),
                        Entry::Dispatcher => Dispatcher::dispatch(&store, a).unwrap(),
                    }
                    dispatched += 1;
                }
            }
        }
        // quiescence before stop(): effects of a backlog would be skipped (known finding F4)
        let quiet = wait_processed(base, dispatched);
        let t0 = Instant::now();
        store.stop();
        let stop_ms = t0.elapsed().as_millis();
        let log = ctx.take_log();
        if !quiet {
            println!("ANOMALY the reducer did not process {} actions within 20 s", dispatched);
        }
        let mut reducer_thread: Option<u64> = None;
        let mut context_ok = true;
        let mut why = String::new();
        let mut effects: Vec<String> = vec![];
        for e in &log {
            if is_reducer_ctx_line(&e.text) {
                println!("{}", e.text);
                match reducer_thread {
                    None => reducer_thread = Some(e.thread),
                    Some(t) => {
                        if t != e.thread {
                            context_ok = false;
                            why = format!("'{}' ran on thread {} not {}", e.text, e.thread, t);
                        }
                    }
                }
                if !e.tname.starts_with(&format!("{}-pool", name_of(sc.name))) {
                    context_ok = false;
                    why = format!("'{}' ran on thread named '{}'", e.text, e.tname);
                }
            } else if e.text.starts_with("EFFECT ") {
                effects.push(e.text.clone());
                if Some(e.thread) == reducer_thread {
                    context_ok = false;
                    why = format!("'{}' ran in the reducer context", e.text);
                }
            } else if e.text.starts_with("ANOMALY") {
                println!("{}", e.text);
            }
        }
        effects.sort();
        for e in effects {
            println!("{}", e);
        }
        if context_ok {
            println!("CONTEXT ok");
        } else {
            println!("CONTEXT bad: {}", why);
        }
        println!("FINAL {}", state_text(&store.get_state()));
        println!("METRICS {}", metrics_text(&store));
        if stop_ms >= 2500 {
            println!("INCONCLUSIVE stop took {} ms", stop_ms);
        }
        println!("---");
    }
}

/// builder call chains (C17)
pub fn run_builder(input: &str) {
    install_quiescence_hook();
    let sc = Scenario::new();
    for line in input.lines() {
        let ctx = RunCtx::new();
        let mut b: StoreBuilder<State, Aid> = StoreBuilder::new(State::default());
        for tok in line.split_whitespace() {
            let p: Vec<&str> = tok.split('.').collect();
            b = match p.as_slice() {
                ["name", x] => b.with_name(name_of(x.parse().unwrap())),
                ["wr", r] => b.with_reducer(make_reducer(&ctx, &sc, r.parse().unwrap())),
                ["wrs", l] => b.with_reducers(ints(l).iter().map(|j| make_reducer(&ctx, &sc, *j)).collect()),
                ["ar", r] => b.add_reducer(make_reducer(&ctx, &sc, r.parse().unwrap())),
                ["wo"] => b.without_reducer(),
                ["cap", c] => b.with_capacity(c.parse().unwrap()),
                ["pol", p] => b.with_policy(policy_of(policy_code(p))),
                ["wm", m] => b.with_middleware(make_middleware(&ctx, &sc, m.parse().unwrap())),
                ["wms", l] => {
                    b.with_middlewares(ints(l).iter().map(|j| make_middleware(&ctx, &sc, *j)).collect())
                }
                ["am", m] => b.add_middleware(make_middleware(&ctx, &sc, m.parse().unwrap())),
                _ => panic!("bad builder call {}", tok),
            };
        }
        match b.build() {
            Err(e) => {
                let msg = e.to_string();
                println!("ERR {}", msg.trim_start_matches("initialization error: "));
            }
            Ok(store) => {
                *ctx.store.lock().unwrap() = Some(store.clone());
                let info = rs_store::verif::dispatch_channel_info(&store);
                let _ = store.add_subscriber(Arc::new(SSubscriber { sid: 1, ctx: ctx.clone() }));
                let base = recv_base();
                store.dispatch(1).unwrap();
                // the reducer's first arrival at recv may or may not have been counted in `base`
                let t0 = Instant::now();
                while !ctx.log.lock().unwrap().iter().any(|e| e.text.starts_with("NOTIFY"))
                    && t0.elapsed() < Duration::from_secs(10)
                {
                    std::thread::sleep(Duration::from_micros(100));
                }
                let _ = base;
                store.stop();
                let log = ctx.take_log();
                // the behavioural probe: which reducers and middlewares ran, in which order,
                // on a thread of which name
                let mut reducers = vec![];
                let mut mws = vec![];
                let mut name: i64 = -1;
                for e in &log {
                    let w: Vec<&str> = e.text.split_whitespace().collect();
                    if w[0] == "RED" {
                        // the last entry of the output state names the reducer
                        let last = w[4].rsplit(',').next().unwrap();
                        reducers.push(last.split('.').next().unwrap().parse::<u32>().unwrap());
                    } else if w[0] == "BR" {
                        mws.push(w[1].parse::<u32>().unwrap());
                    }
                    if w[0] == "NOTIFY" {
                        for id in 0..10u32 {
                            if e.tname.starts_with(&format!("{}-pool_thread_", name_of(id))) {
                                name = id as i64;
                            }
                        }
                    }
                }
                let (cap, pol) = info.unwrap_or((0, 9));
                println!(
                    "OK name={} cap={} pol={} reducers={} mws={}",
                    name,
                    cap,
                    policy_text(pol),
                    ids_text(&reducers),
                    ids_text(&mws)
                );
            }
        }
    }
}

/// streams of selected values straight into SelectorSubscriber::on_notify (C16)
pub fn run_selector(input: &str) {
    for line in input.lines() {
        let vals = ints(line.trim());
        let out: Arc<Mutex<Vec<(u32, u32)>>> = Arc::new(Mutex::new(vec![]));
        let out2 = out.clone();
        // the state is the log; the selector returns the scripted value of the last action
        let table: HashMap<Aid, u32> = vals.iter().enumerate().map(|(k, v)| (k as u32, *v)).collect();
        let sub = SelectorSubscriber::new(SSelector { table }, move |v: u32, a: Aid| {
            out2.lock().unwrap().push((v, a));
        });
        let mut state: State = State::default();
        for k in 0..vals.len() {
            state.0.push((0, k as u32));
            sub.on_notify(&state, &(k as u32));
        }
        let o = out.lock().unwrap();
        let text = if o.is_empty() {
            "-".to_string()
        } else {
            o.iter().map(|(v, a)| format!("{}@{}", v, a)).collect::<Vec<_>>().join(",")
        };
        let last = match o.last() {
            Some((v, _)) => v.to_string(),
            None => "-".to_string(),
        };
        println!("{} | last={}", text, last);
    }
}

/// operation sequences on a real BackpressureChannel (C05, C06)
pub fn run_chanops(input: &str) {
    for line in input.lines() {
        let w: Vec<&str> = line.split_whitespace().collect();
        if w.len() < 2 {
            continue;
        }
        let cap: usize = w[0].parse().unwrap();
        let pol = policy_code(w[1]);
        let (tx, rx) = rs_store::verif::channel_pair::<u32>(cap, policy_of(pol));
        let tx = Arc::new(tx);
        let mut out = String::new();
        let mut stuck = false;
        for op in &w[2..] {
            if stuck {
                break;
            }
            if *op == "r" {
                match rx.try_recv() {
                    None => out.push_str("empty "),
                    Some(None) => out.push_str("exit "),
                    Some(Some(a)) => out.push_str(&format!("{} ", a)),
                }
            } else {
                let item = if *op == "x" { None } else { Some(op[1..].parse::<u32>().unwrap()) };
                if pol == 0 {
                    // a blocking send: run it on a helper thread and see whether it returns
                    let tx2 = tx.clone();
                    let done = Arc::new(Mutex::new(None));
                    let done2 = done.clone();
                    let h = std::thread::spawn(move || {
                        let r = tx2.send(item);
                        *done2.lock().unwrap() = Some(r);
                    });
                    let t0 = Instant::now();
                    loop {
                        if let Some(r) = *done.lock().unwrap() {
                            out.push_str(if r { "ok " } else { "err " });
                            let _ = h.join();
                            break;
                        }
                        if t0.elapsed() > Duration::from_millis(60) {
                            // blocked: free it by consuming one item, and discard that sample
                            out.push_str("blocked ");
                            let _ = rx.try_recv();
                            let _ = h.join();
                            stuck = true;
                            break;
                        }
                        std::thread::sleep(Duration::from_micros(200));
                    }
                } else {
                    out.push_str(if tx.send(item) { "ok " } else { "err " });
                }
            }
        }
        if stuck {
            println!("{}| stuck", out);
            continue;
        }
        let mut q = vec![];
        while let Some(x) = rx.try_recv() {
            q.push(match x {
                None => "x".to_string(),
                Some(a) => a.to_string(),
            });
        }
        println!("{}| q={} dropped={}", out, q.join(","), tx.dropped());
    }
}
